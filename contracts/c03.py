"""C03 -- every suggestion lies inside the search space (stated subset: the value producers + construction frames).

Whole-designer proofs are out of reach (numpy / JAX numerics).  Decided here, for all inputs, on the real ASTs of $VERIF_REPO:

 (1) every value PRODUCER returns None or a value inside the domain of its parameter (`ensures result is None or member(pc, result)`,
     `member` = the oracle written from the property statement, the one ParameterConfig.contains is proved equivalent to by C16):
       random_sample.sample_uniform / sample_integer / sample_categorical / sample_discrete / get_closest_element / _sample_value,
       DefaultModelInputConverter._to_parameter_value (every option, any array element) and to_parameter_values (decode comes last),
       GridSearchDesigner._grid_points_from_parameter_config, QuasiRandomDesigner._generate_discrete_point,
       suggest_default.get_default_parameters on flat spaces;
 (2) construction frames `C03.<Designer>.suggest.only_producers`: by backward data flow over the real AST every value stored into a
     ParameterDict / TrialSuggestion built by RandomDesigner / QuasiRandomDesigner / GridSearchDesigner / RandomPolicy .suggest comes from a producer;
 (3) refusals: DefaultPolicyFactory.__call__ raises for every algorithm name outside its table; the designers refuse conditional spaces.

NOT verified (listed in the evidence): GP_UCB_PE / DEFAULT, GAUSSIAN_PROCESS_BANDIT (JAX/equinox numerics), BOCS, HARMONICA (global-RNG numerics),
NSGA2, CMA_ES, EAGLE_STRATEGY internals (their final conversion goes through TrialToArrayConverter.to_parameters = producer (1), but the frames of
those designers are not checked here).  The claim is for the stated subset only.
"""
import ast
import json
import os
import time

import z3

from pyvc import engine as E, models as M, protomodel as pm, report, verify, xreal, np_model as NP
from pyvc import attrs_model as A
from pyvc import spacekit as SK
from pyvc.engine import Obj, Builtin, Unsupported, EXTERNAL, PyRaise
from pyvc.protomodel import SymList, Str
from pyvc.source import ModuleInfo
from contracts import c16 as K
from contracts import c15 as C15

PID = 'C03'
RSM = 'vizier._src.algorithms.random.random_sample'
GRID = 'vizier._src.algorithms.designers.grid'
QRM = 'vizier._src.algorithms.designers.quasi_random'
RDM = 'vizier._src.algorithms.designers.random'
RPM = 'vizier._src.algorithms.policies.random_policy'
SDM = 'vizier._src.pythia.suggest_default'
PFM = 'vizier._src.service.policy_factory'
ITM = 'vizier._src.pyvizier.shared.parameter_iterators'
CORE = C15.CORE
PCM, TRM = K.PCM, K.TRM
TYPES = C15.TYPES

ASSUMPTIONS = [
    SK.TRANS_ASSUMPTION, SK.R32_ASSUMPTION,
    'floats are extended reals fin(r)|+inf|-inf|nan (XReal): comparisons, round(), floor(), abs are exact; inputs range over all reals, not only doubles',
    'machine arithmetic treated as mathematical (|x - value| in get_closest_element, halton_value * n, the midpoint (lo + hi) / 2: no rounding, no overflow; '
    'note: (lo + hi) overflows to inf in float64 for |lo|, |hi| > 8.98e307 -- outside this model)',
    'parameter definitions are well formed (postcondition of ParameterConfig.factory proved by C16.factory.*): non-empty name, finite ordered bounds, '
    'feasible values finite / strictly ascending (DISCRETE), pairwise distinct (CATEGORICAL), at least one; parameter names are unique in a search space (C16.SearchSpace.add)',
    'scipy.stats.qmc.Halton.random returns values in [0, 1) (documented)',
] + SK.RNG_ASSUMPTIONS

NOT_VERIFIED = [
    'GP_UCB_PE / DEFAULT / ALGORITHM_UNSPECIFIED (VizierGPUCBPEBandit) and GAUSSIAN_PROCESS_BANDIT (VizierGPBandit): JAX / equinox numerics, out of reach',
    'BOCS: global-RNG numerics over binary spaces, not under contract',
    'HARMONICA: the regression / acquisition numerics are not under contract; only "every literal value suggest() emits is a feasible value of every '
    'space the constructor accepts" is (C03.HarmonicaDesigner.suggest.values_in_domain), its random warm-up goes through RandomDesigner',
    'NSGA2 (numpy_populations), CMA_ES, EAGLE_STRATEGY: internals not under contract; only their last step, TrialToArrayConverter.to_parameters -> '
    'DefaultModelInputConverter.to_parameter_values, is a producer proved here',
    'seed_with_default wrapper: only get_default_parameters (the value it suggests) is under contract',
    'conditional search spaces: refused by the three designers (proved), not otherwise covered',
]


def mod(dotted):
    return ModuleInfo.get(dotted)


def fresh_float_list(run, name):
    n = run.fresh(name + '_n', z3.IntSort())
    arr = run.fresh(name, z3.ArraySort(z3.IntSort(), xreal.XReal))
    run.assume(n >= 0)
    return SymList(n, arr, 'float')


def fn(dotted, name):
    m = mod(dotted)
    return E.FuncVal(m, m.funcs[name])


def exc_class(p):
    return E.class_name(p.value.cls) if p.kind == 'raise' else None


# =========================================================================================== A. random_sample
def rs_uniform_entry(it):
    run = it.run
    run.rng = SK.Rng()
    run.lo, run.hi = run.fresh('lo', xreal.XReal), run.fresh('hi', xreal.XReal)
    run.assume(z3.And(xreal.is_fin(run.lo), xreal.is_fin(run.hi), xreal.r(run.lo) <= xreal.r(run.hi)))
    return it.call(fn(RSM, 'sample_uniform'), [run.rng, run.lo, run.hi], {})


def rs_uniform_post(p):
    run = p.run
    if p.kind != 'return':
        return [('C03.sample_uniform.in_range', z3.BoolVal(False))]
    r = p.value
    ok = z3.is_expr(r) and r.sort() == xreal.XReal
    return [('C03.sample_uniform.in_range', z3.And(xreal.is_fin(r), xreal.r(run.lo) <= xreal.r(r), xreal.r(r) <= xreal.r(run.hi)) if ok else z3.BoolVal(False))]


def rs_integer_entry(it):
    run = it.run
    run.rng = SK.Rng()
    run.lo, run.hi = run.fresh('lo', z3.IntSort()), run.fresh('hi', z3.IntSort())
    run.assume(run.lo <= run.hi)
    return it.call(fn(RSM, 'sample_integer'), [run.rng, run.lo, run.hi], {})


def rs_integer_post(p):
    run = p.run
    if p.kind != 'return':
        return [('C03.sample_integer.in_range', z3.BoolVal(False))]
    r = p.value
    ok = z3.is_expr(r) and r.sort() == z3.IntSort()         # an int, not a float
    return [('C03.sample_integer.integral', z3.BoolVal(bool(ok))),
            ('C03.sample_integer.in_range', z3.And(run.lo <= r, r <= run.hi) if ok else z3.BoolVal(False))]


def rs_closest_entry(it):
    run = it.run
    run.xs = fresh_float_list(run, 'array')
    run.assume(run.xs.n >= 1)
    j = z3.Int('j!fin')
    run.axiom(z3.ForAll([j], z3.Implies(z3.And(j >= 0, j < run.xs.n), xreal.is_fin(run.xs.arr[j]))))
    run.v = run.fresh('value', xreal.XReal)
    run.assume(xreal.is_fin(run.v))
    return it.call(fn(RSM, 'get_closest_element'), [run.xs, run.v], {})


def rs_closest_post(p):
    run = p.run
    if p.kind != 'return':
        return [('C03.get_closest_element.no_raise', z3.BoolVal(False))]
    r = p.value
    if not (z3.is_expr(r) and r.sort() == xreal.XReal):
        return [('C03.get_closest_element.is_element', z3.BoolVal(False))]
    j = z3.Int('j!ce')
    xs, v = run.xs, run.v
    dist = lambda t: z3.If(xreal.r(t) >= xreal.r(v), xreal.r(t) - xreal.r(v), xreal.r(v) - xreal.r(t))
    return [('C03.get_closest_element.no_raise', z3.BoolVal(True)),
            ('C03.get_closest_element.is_element', z3.Exists([j], z3.And(j >= 0, j < xs.n, xs.arr[j] == r))),
            ('C03.get_closest_element.closest', z3.ForAll([j], z3.Implies(z3.And(j >= 0, j < xs.n), dist(r) <= dist(xs.arr[j]))))]


def rs_categorical_entry(it):
    run = it.run
    run.rng = SK.Rng()
    run.dom = K.Dom(run, 'CATEGORICAL')
    return it.call(fn(RSM, 'sample_categorical'), [run.rng, run.dom.fv], {})


def rs_discrete_entry(it):
    run = it.run
    run.rng = SK.Rng()
    run.dom = K.Dom(run, 'DISCRETE')
    return it.call(fn(RSM, 'sample_discrete'), [run.rng, run.dom.fv], {})


def member_post(name):
    def post(p):
        if p.kind != 'return':
            return [(name + '.no_raise', z3.BoolVal(False))]
        return [(name + '.no_raise', z3.BoolVal(True)), (name + '.in_domain', SK.member(p.run.dom, p.value))]
    return post


def sample_value_entry(ptype):
    def entry(it):
        run = it.run
        run.rng = SK.Rng()
        run.dom = K.Dom(run, ptype)
        pc = C15.make_pc(it, run.dom)
        return it.call(fn(RSM, '_sample_value'), [run.rng, pc], {})
    return entry


def sample_value_post(ptype):
    base = 'C03._sample_value'

    def post(p):
        if p.kind != 'return':
            return [('%s.no_raise.%s' % (base, ptype), z3.BoolVal(False))]
        out = [('%s.no_raise.%s' % (base, ptype), z3.BoolVal(True)),
               ('%s.in_domain.%s' % (base, ptype), SK.member(p.run.dom, p.value))]
        if ptype == 'INTEGER':
            r = p.value
            out.append(('%s.integral.INTEGER' % base, z3.BoolVal(isinstance(r, int) or (z3.is_expr(r) and r.sort() == z3.IntSort()))))
        return out
    return post


def make_space(it, pcs):
    """a flat SearchSpace holding the given configs under their (pairwise distinct) names"""
    run = it.run
    d = M.PyDict()
    names = [pc.attrs['_name'] for pc in pcs]
    for i in range(len(names)):
        for k in range(i):
            run.assume(names[i] != names[k])
    for pc in pcs:
        d.set(it, pc.attrs['_name'], pc)
    return A.make_instance(it, mod(PCM).classes['SearchSpace'], _parameter_configs=d, _parent_values=())


def sample_parameters_entry(types):
    def entry(it):
        run = it.run
        run.rng = SK.Rng()
        run.doms = [K.Dom(run, t, prefix='pc%d' % i) for i, t in enumerate(types)]
        run.pcs = [C15.make_pc(it, d) for d in run.doms]
        space = make_space(it, run.pcs)
        return it.call(fn(RSM, 'sample_parameters'), [run.rng, space], {})
    return entry


def pdict_items(res):
    """[(key, ParameterValue)] of a ParameterDict instance built on a concrete spine"""
    items = res.attrs.get('_items') if isinstance(res, Obj) else None
    if isinstance(items, M.PyDict):
        return list(items.items())
    return None


def sample_parameters_post(types):
    def post(p):
        run = p.run
        if p.kind != 'return':
            return [('C03.sample_parameters.no_raise', z3.BoolVal(False))]
        items = pdict_items(p.value)
        if items is None or len(items) != len(run.pcs):
            return [('C03.sample_parameters.each_exactly_once', z3.BoolVal(False))]
        out = [('C03.sample_parameters.no_raise', z3.BoolVal(True))]
        once, dom_ok = [], []
        for (k, v), pc, d in zip(items, run.pcs, run.doms):
            once.append(E.to_z3(k) == pc.attrs['_name'])
            dom_ok.append(SK.member(d, v))
        out.append(('C03.sample_parameters.each_exactly_once', z3.And(*once)))
        out.append(('C03.sample_parameters.in_domain', z3.And(*dom_ok)))
        return out
    return post


# =========================================================================================== B. grid points
def grid_entry(ptype, scale):
    def entry(it):
        run = it.run
        run.stage = 'init'
        run.dom = K.Dom(run, ptype)
        pc = C15.make_pc(it, run.dom, scale)
        run.res = run.fresh('double_grid_resolution', z3.IntSort())
        run.assume(run.res >= 1)
        SK.LOG_OBLIGATION[0] = None
        self = Obj(mod(GRID).classes['GridSearchDesigner'], {'_double_grid_resolution': run.res})
        run.stage = 'grid'
        return K.call_method(it, self, '_grid_points_from_parameter_config', [pc])
    return entry


def grid_post(ptype, scale):
    T = ptype

    def post(p):
        run = p.run
        dom = run.dom
        if p.kind == 'raise':
            # the property allows a configuration that cannot be handled to be REFUSED with an error: the scaling converter of the grid
            # refuses a LOG / REVERSE_LOG parameter with a non-positive bound (ValueError); nothing else may raise
            if T == 'DOUBLE' and scale in ('LOG', 'REVERSE_LOG') and exc_class(p) == 'ValueError':
                # the grid's converter has the default float32 dtype: the guard sees the bounds after the cast (a positive bound below the
                # float32 underflow threshold casts to 0 and is refused too)
                lo32, hi32 = C15.cast_of('float32', dom.lo), C15.cast_of('float32', dom.hi)
                return [('C03.grid_points.refuses_only_nonpositive_log_bounds.' + T,
                         z3.Or(xreal.r(dom.lo) <= 0, xreal.r(dom.hi) <= 0, xreal.r(lo32) <= 0, xreal.r(hi32) <= 0))]
            return [('C03.grid_points.no_raise.' + T, z3.BoolVal(False))]
        res = p.value
        out = [('C03.grid_points.no_raise.' + T, z3.BoolVal(True))]
        name = 'C03.grid_points.in_domain.' + T
        j = z3.Int('j!grid')
        if isinstance(res, list):
            out.append(('C03.grid_points.nonempty.' + T, z3.BoolVal(len(res) >= 1)))
            out.append((name, z3.And(*[SK.member(dom, x) for x in res]) if res else z3.BoolVal(True)))
        elif isinstance(res, SK.ObjList):
            out.append(('C03.grid_points.nonempty.' + T, res.n >= 1))
            v = SK.value_of(res.get(j))
            out.append((name, z3.ForAll([j], z3.Implies(z3.And(j >= 0, j < res.n), SK.member(dom, v)))))
            if T == 'INTEGER':
                out.append(('C03.grid_points.covers_range.INTEGER', res.n == dom.hi - dom.lo + 1))
        elif isinstance(res, SymList) and getattr(res, 'map_of', None) is not None and len(getattr(run, 'decode_calls', [])) == 1:
            # DOUBLE: the grid is to_parameter_values(linspace(0, 1, n)) of a scaling converter: every point is a result of the
            # producer _to_parameter_value (contract: None or inside the domain, C03._to_parameter_value.in_domain.DOUBLE)
            src = res.map_of
            out.append(('C03.grid_points.nonempty.' + T, res.n >= 1))
            out.append(('C03.grid_points.only_producer.' + T,
                        z3.ForAll([j], z3.Implies(z3.And(j >= 0, j < res.n), res.arr[j] == C15.decode_f(src.arr[j])))))
            out.append(('C03.grid_points.resolution.' + T, res.n == run.res))
        else:
            out.append((name, z3.BoolVal(False)))
        return out
    return post


# =========================================================================================== C. quasi-random discrete point
def halton_entry(pad):
    def entry(it):
        run = it.run
        run.stage = 'init'
        run.dom = K.Dom(run, 'CATEGORICAL')
        pc = C15.make_pc(it, run.dom)
        core = mod(CORE)
        spec = K.call_method(it, core.classes['NumpyArraySpec'], 'from_parameter_config',
                             [pc, it.getattr(core.classes['NumpyArraySpecType'], 'default_factory')], {'pad_oovs': pad})
        run.h = run.fresh('halton_value', xreal.XReal)
        run.assume(z3.And(xreal.is_fin(run.h), xreal.r(run.h) >= 0, xreal.r(run.h) < 1))
        self = Obj(mod(QRM).classes['QuasiRandomDesigner'], {})
        run.stage = 'point'
        return K.call_method(it, self, '_generate_discrete_point', [spec, run.h])
    return entry


def halton_post(pad):
    def post(p):
        run = p.run
        if p.kind != 'return' or run.stage != 'point':
            return [('C03._generate_discrete_point.no_raise', z3.BoolVal(False))]
        r = p.value
        ok = z3.is_expr(r) and r.sort() == z3.IntSort()
        n = run.dom.fv.n
        # with the default pad_oovs=True the spec bounds are (0, n) and one index (n) is the out-of-vocabulary slot
        return [('C03._generate_discrete_point.no_raise', z3.BoolVal(True)),
                ('C03._generate_discrete_point.in_vocabulary' + ('' if pad else '.no_oov_padding'),
                 z3.And(r >= 0, r < n) if ok else z3.BoolVal(False))]
    return post


# =========================================================================================== D. get_default_parameters (flat spaces)
# SequentialParameterBuilder is a generator coroutine driven by send(): outside the engine.  On FLAT search spaces its
# behaviour is (and is checked against the real class by the C16 bounded stand-in and by replay/c03_replay.py builder_model):
#   iteration visits search_space.parameters in order; choose_value(v) validates v through the REAL
#   ParameterConfig.get_subspace_deepcopy(v) (executed in place: finite types raise ValueError for an infeasible value, DOUBLE is
#   not validated) and stores parameters[pc.name] = v.
SPB_TRUST = ('SequentialParameterBuilder on flat search spaces modelled by its contract (visits search_space.parameters in order; choose_value(v) = '
             'the real ParameterConfig.get_subspace_deepcopy(v) for validation, then parameters[name] = v); cross-checked on the real class by '
             'replay/c03_replay.py builder_model and the C16 bounded stand-in')


def _spb_construct(it, cls, args, kw, _prev=M.construct_hook):
    if isinstance(cls, E.ClassInfo if hasattr(E, 'ClassInfo') else ()) or True:
        if getattr(cls, 'qualname', None) == 'SequentialParameterBuilder' and getattr(getattr(cls, 'mod', None), 'dotted', '') == ITM:
            space = args[0] if args else kw['search_space']
            pcs = list(M.iterate(it, it.getattr(space, 'parameters')))
            if not pcs:
                raise Unsupported('SequentialParameterBuilder on an empty search space')
            params = it.call(mod(TRM).classes['ParameterDict'], [], {})
            return Obj(cls, {'_queue': pcs, '_pos': 0, '_parameters': params})
    return _prev(it, cls, args, kw)


M.construct_hook = _spb_construct


def _spb_iterate(it, v, _prev=M.iterate_hook):
    if isinstance(v, Obj) and getattr(v.cls, 'qualname', None) == 'SequentialParameterBuilder' and '_queue' in v.attrs:
        return list(v.attrs['_queue'])
    return _prev(it, v)


M.iterate_hook = _spb_iterate


def _spb_choose_value(it, args, kw):
    self, value = args[0], args[1]
    pos = self.attrs['_pos']
    pc = self.attrs['_queue'][pos]
    self.attrs['_pos'] = pos + 1
    if value is None:
        return None
    K.call_method(it, pc, 'get_subspace_deepcopy', [value])       # REAL validation code
    M.setitem(it, self.attrs['_parameters'], it.getattr(pc, 'name'), value)
    return None


E.MODELS[ITM + ':SequentialParameterBuilder.choose_value'] = _spb_choose_value
E.MODELS[ITM + ':SequentialParameterBuilder.skip'] = lambda it, args, kw: _spb_choose_value(it, [args[0], None], {})
E.PROPERTIES[ITM + ':SequentialParameterBuilder.parameters'] = lambda it, obj: obj.attrs['_parameters']

DEFAULT_SORT = {'DOUBLE': xreal.XReal, 'DISCRETE': xreal.XReal, 'INTEGER': z3.IntSort(), 'CATEGORICAL': Str}


def default_entry(ptype, with_default, scale=None):
    def entry(it):
        run = it.run
        run.dom = K.Dom(run, ptype)
        pc = C15.make_pc(it, run.dom, scale)
        run.default = None
        if with_default:
            # what ParameterConfig.factory stores (C16.factory.normalises.default): a float for DOUBLE/DISCRETE (any float, NOT
            # checked against the domain by factory), an int for INTEGER, a str for CATEGORICAL
            run.default = run.fresh('default_value', DEFAULT_SORT[ptype])
            pc.attrs['_default_value'] = run.default
        run.pcfg = pc
        space = make_space(it, [pc])
        return it.call(fn(SDM, 'get_default_parameters'), [space], {})
    return entry


def default_post(ptype, with_default, scale=None):
    sfx = '%s.%s%s' % (ptype, '' if scale is None else scale + '.', 'configured_default' if with_default else 'centre')

    def post(p):
        run = p.run
        if p.kind == 'raise':
            # refused with an error: allowed only for a configured default that is not a point of the domain
            ok = z3.BoolVal(False)
            if with_default and exc_class(p) in ('ValueError', 'TypeError'):
                ok = z3.Not(SK.member(run.dom, run.default))
            return [('C03.get_default_parameters.refuses_only_infeasible_default.' + sfx, ok)]
        items = pdict_items(p.value)
        if items is None or len(items) != 1:
            return [('C03.get_default_parameters.each_exactly_once.' + sfx, z3.BoolVal(False))]
        k, v = items[0]
        return [('C03.get_default_parameters.each_exactly_once.' + sfx, E.to_z3(k) == run.pcfg.attrs['_name']),
                ('C03.get_default_parameters.in_domain.' + sfx, SK.member(run.dom, v))]
    return post


def default_class(p):
    """witness class of DESIGN 10 row 18: a configured default value outside the domain of its DOUBLE parameter"""
    run = p.run
    if run.default is None or run.dom.ptype != 'DOUBLE':
        return False
    return z3.Not(SK.member(run.dom, run.default))


# =========================================================================================== E. policy factory
TABLE = {   # algorithm name (property statement) -> class the factory must hand the study to
    'DEFAULT': 'VizierGPUCBPEBandit', 'ALGORITHM_UNSPECIFIED': 'VizierGPUCBPEBandit', 'GP_UCB_PE': 'VizierGPUCBPEBandit',
    'GAUSSIAN_PROCESS_BANDIT': 'VizierGPBandit', 'RANDOM_SEARCH': 'RandomPolicy', 'QUASI_RANDOM_SEARCH': 'QuasiRandomDesigner',
    'GRID_SEARCH': 'GridSearchDesigner', 'SHUFFLED_GRID_SEARCH': 'GridSearchDesigner', 'NSGA2': 'NSGA2Designer', 'BOCS': 'BOCSDesigner',
    'HARMONICA': 'HarmonicaDesigner', 'CMA_ES': 'CMAESDesigner', 'EAGLE_STRATEGY': 'EagleStrategyDesigner',
}


def _time_time(it, args, kw):
    t = it.run.fresh('time', xreal.XReal)
    it.run.assume(z3.And(xreal.is_fin(t), xreal.r(t) >= 0))
    return t


def factory_entry(it):
    run = it.run
    EXTERNAL['time.time'] = Builtin('time.time', _time_time)
    run.alg = run.fresh('algorithm', Str)
    self = Obj(mod(PFM).classes['DefaultPolicyFactory'], {})
    return K.call_method(it, self, '__call__', [M.Opaque('problem_statement'), run.alg, M.Opaque('policy_supporter'), 'study'])


def target_class(policy):
    """(class name the policy delegates to, unbound keyword names of a functools.partial)"""
    if not isinstance(policy, Obj):
        return None, ()
    if '_designer_factory' not in policy.attrs:
        return E.class_name(policy.cls), ()
    f = policy.attrs['_designer_factory']
    kws = ()
    if isinstance(f, NP.Partial):
        kws, f = tuple(f.kw), f.f
        fv = f.func if isinstance(f, E.Bound) else f
        if isinstance(fv, E.FuncVal):
            a = fv.node.args
            params = {x.arg for x in a.posonlyargs + a.args + a.kwonlyargs}
            kws = tuple(k for k in kws if k not in params and a.kwarg is None)
    if isinstance(f, E.Bound):
        f = f.obj
    return (getattr(f, 'qualname', None) or E.class_name(getattr(f, 'cls', f))), kws


def factory_post(p):
    run = p.run
    alg = run.alg
    known_name = z3.Or(*[alg == pm.str_lit(n) for n in TABLE])
    if p.kind == 'raise':
        return [('C03.policy_factory.refuses_unknown', z3.And(z3.BoolVal(exc_class(p) == 'ValueError'), z3.Not(known_name)))]
    cls, unbound = target_class(p.value)
    return [('C03.policy_factory.accepts_only_registered', known_name),
            ('C03.policy_factory.table', z3.And(*[z3.Implies(alg == pm.str_lit(n), z3.BoolVal(cls == c)) for n, c in TABLE.items()])),
            ('C03.policy_factory.partial_binds', z3.BoolVal(not unbound))]


# =========================================================================================== F. designers refuse conditional spaces
BODY_REACHED = '<constructor body reached>'


def guard_entry(dotted, clsname):
    def entry(it):
        run = it.run
        run.cond = run.fresh('is_conditional', z3.BoolSort())
        space = A.make_instance(it, mod(PCM).classes['SearchSpace'], _parameter_configs=M.PyDict(), _parent_values=())
        kc, kp = PCM + ':SearchSpace.is_conditional', PCM + ':SearchSpace.parameters'

        def reached(it_, obj):
            raise PyRaise(it_.make_exc('RuntimeError', [BODY_REACHED]))
        E.PROPERTIES[kc] = lambda it_, obj: run.cond
        E.PROPERTIES[kp] = reached
        try:
            return it.call(mod(dotted).classes[clsname], [space], {})
        finally:
            E.PROPERTIES.pop(kc, None)
            E.PROPERTIES.pop(kp, None)
    return entry


def guard_post(clsname):
    name = 'C03.%s.__init__.refuses_conditional' % clsname

    def post(p):
        cond = p.run.cond
        if p.kind == 'raise' and exc_class(p) == 'ValueError':
            return [(name, cond)]                                   # refuses only conditional spaces ...
        if p.kind == 'raise' and exc_class(p) == 'RuntimeError' and p.value.attrs.get('args') == (BODY_REACHED,):
            return [(name, z3.Not(cond))]                           # ... and the constructor body is entered for flat spaces only
        return [(name, z3.Not(cond))]
    return post


# =========================================================================================== G. construction frames
from pyvc import flowframe as FF  # noqa: E402

FRAMES = [
    # (module, class, method, producers {call suffix: label}, extra sink constructors)
    (RDM, 'RandomDesigner', 'suggest', {'_converter.to_parameters': 'DefaultTrialConverter.to_parameters'}, ()),
    (QRM, 'QuasiRandomDesigner', 'suggest', {'_converter.to_parameters': 'DefaultTrialConverter.to_parameters'}, ()),
    (GRID, 'GridSearchDesigner', 'suggest', {'_grid_points_from_parameter_config': 'GridSearchDesigner._grid_points_from_parameter_config'}, ()),
    (RPM, 'RandomPolicy', 'suggest', {'RandomDesigner().suggest': 'RandomDesigner.suggest'}, ('SuggestDecision',)),
    # the converters the designers funnel through: values stored into the ParameterDicts come from to_parameter_values only
    (CORE, 'DefaultTrialConverter', 'to_parameters', {'parameter_converter.to_parameter_values': 'DefaultModelInputConverter.to_parameter_values'}, ()),
    (CORE, 'TrialToArrayConverter', 'to_parameters', {'_impl.to_parameters': 'DefaultTrialConverter.to_parameters'}, ()),
]


def frame_obligations(chk):
    """C03.<Designer>.suggest.only_producers: every value reaching a ParameterDict / TrialSuggestion returned by suggest() comes,
    by backward data flow over the real AST (flow-insensitive, class-aware), from a declared producer."""
    for dotted, clsname, method, producers, extra in FRAMES:
        name = 'C03.%s.%s.only_producers' % (clsname, method)
        fname = '%s.%s' % (clsname, method)
        t0 = time.time()
        chk.function(dotted, fname)
        try:
            cls = mod(dotted).classes[clsname]
            sl = FF.Slicer(cls, producers, sinks=('TrialSuggestion', 'ParameterDict') + tuple(extra))
            leaves = sl.origins_of_returns(method)
        except FF.Unanalysable as e:
            chk.obligation(name, fname, 'frame', report.ERROR, time.time() - t0,
                           detail='the data-flow slicer cannot analyse the real code of %s: %s' % (fname, e))
            continue
        except KeyError as e:
            chk.obligation(name, fname, 'frame', report.ERROR, time.time() - t0, detail='not found in the current tree: %r' % (e,))
            continue
        unresolved = sorted(l for l in leaves if l.startswith('unresolved:'))
        if unresolved:
            chk.obligation(name, fname, 'frame', report.UNDECIDED, time.time() - t0,
                           detail={'reason': 'the slice reaches code outside the class', 'unresolved': unresolved, 'sources': sorted(leaves)})
            continue
        bad = sorted(l for l in leaves if not l.startswith('producer:'))
        detail = {'sources': sorted(leaves), 'allowed': sorted('producer:' + v for v in producers.values())}
        if not leaves:
            chk.obligation(name, fname, 'frame', report.ERROR, time.time() - t0, detail='no source reaches the returned suggestions (vacuous frame)')
        elif bad:
            detail['not_a_producer'] = bad
            chk.obligation(name, fname, 'frame', report.VIOLATED, time.time() - t0, detail=detail,
                           model='sources reaching a returned ParameterDict / TrialSuggestion that are not value producers: %s' % bad,
                           replay={'note': 'structural obligation on the AST of %s (no input: every call takes this flow)' % fname}, reproduced=None)
        else:
            chk.obligation(name, fname, 'frame', report.PROVED, time.time() - t0, detail=detail)


# =========================================================================================== H. RandomDesigner.suggest: what is handed to the converter
def rd_suggest_entry(it):
    """REAL RandomDesigner.suggest on a designer whose converter was built by the real constructors for one CATEGORICAL and one
    DOUBLE parameter (scale=True, max_discrete_indices=inf, as RandomDesigner.__init__ does); to_parameters is captured."""
    run = it.run
    run.stage = 'init'
    core = mod(CORE)
    run.dom = K.Dom(run, 'CATEGORICAL')
    run.dom2 = K.Dom(run, 'DOUBLE', prefix='pd')
    pc, pc2 = C15.make_pc(it, run.dom), C15.make_pc(it, run.dom2)
    run.names = (pc.attrs['_name'], pc2.attrs['_name'])
    run.assume(run.names[0] != run.names[1])
    SK.LOG_OBLIGATION[0] = None
    mk = lambda q: it.call(core.classes['DefaultModelInputConverter'], [q],
                           {'scale': True, 'max_discrete_indices': EXTERNAL['numpy.inf'], 'float_dtype': EXTERNAL['numpy.float64']})
    conv = it.call(core.classes['DefaultTrialConverter'], [[mk(pc), mk(pc2)]], {})
    run.count = run.fresh('count', z3.IntSort())
    run.assume(run.count >= 1)
    run.sample = None

    def to_parameters(it_, args, kw):
        run.sample = args[1]
        return []
    key = CORE + ':DefaultTrialConverter.to_parameters'
    E.MODELS[key] = to_parameters
    self = Obj(mod(RDM).classes['RandomDesigner'], {'_converter': conv, '_rng': SK.Rng()})
    run.stage = 'suggest'
    try:
        return K.call_method(it, self, 'suggest', [run.count])
    finally:
        E.MODELS.pop(key, None)


def rd_suggest_post(p):
    run = p.run
    if getattr(run, 'stage', '') != 'suggest':
        return [('C03.RandomDesigner.suggest.construction_no_raise', z3.BoolVal(p.kind != 'raise'))]
    name = 'C03.RandomDesigner.suggest.samples_decodable'
    if p.kind != 'return' or not isinstance(run.sample, M.PyDict):
        return [(name, z3.BoolVal(False))]
    items = run.sample.items()
    if len(items) != 2:
        return [(name, z3.BoolVal(False))]
    (k1, a1), (k2, a2) = items
    ok_shape = all(isinstance(a, NP.NDArray) and a.rank == 2 for a in (a1, a2))
    if not ok_shape or a1.dtype != 'int' or a2.dtype != 'float':
        return [(name, z3.BoolVal(False))]
    n = run.dom.fv.n
    cnt = run.count
    return [(name, z3.And(E.to_z3(k1) == run.names[0], E.to_z3(k2) == run.names[1],
                          NP.zi(a1.shape[0]) == cnt, NP.zi(a2.shape[0]) == cnt, NP.zi(a1.shape[1]) == 1, NP.zi(a2.shape[1]) == 1,
                          # indices are in-vocabulary (never the out-of-vocabulary slot n), scaled values are finite in [0, 1]:
                          # by C15._to_parameter_value.none_only_if the decode of neither is None -> no parameter is omitted
                          NP.QA(cnt, lambda i: z3.And(a1.at(i, 0) >= 0, a1.at(i, 0) < n)),
                          NP.QA(cnt, lambda i: z3.And(xreal.is_fin(a2.at(i, 0)), xreal.r(a2.at(i, 0)) >= 0, xreal.r(a2.at(i, 0)) <= 1))))]


# =========================================================================================== replay of counter-models
REPLAY = os.path.join(report.VERIF, 'replay', 'c03_replay.py')


def run_replay(job):
    return K.run_replay(job, driver=REPLAY)


def draws_of(m, run):
    out = []
    for d in getattr(run, 'rng_draws', []):
        if d[0] == 'uniform':
            out.append(K.enc(xreal.model_value(m, d[3])))
        elif d[0] == 'choice':
            out.append(K.enc(m.eval(d[2], model_completion=True).as_long()))
    return out


def replay_rs(function):
    def on_violation(name, p, m):
        run = p.run
        job = {'kind': 'random_sample', 'function': function, 'obligation': name, 'draws': draws_of(m, run)}
        for k in ('lo', 'hi'):
            if hasattr(run, k):
                job[k] = K.enc(K.model_scalar(m, getattr(run, k)))
        if hasattr(run, 'xs'):
            job['array'] = [K.enc(x) for x in K.model_list(m, run.xs)]
            job['value'] = K.enc(K.model_scalar(m, run.v))
        if hasattr(run, 'dom'):
            job['pc'] = K.dom_spec(m, run.dom)
        return run_replay(job)
    return on_violation


def replay_default(scale=None):
    def on_violation(name, p, m):
        run = p.run
        d = K.dom_spec(m, run.dom)
        d['scale'] = scale
        job = {'kind': 'default', 'obligation': name, 'pc': d,
               'default': None if run.default is None else K.enc(K.model_scalar(m, run.default))}
        return run_replay(job)
    return on_violation


def default_key(name):
    """C03.get_default_parameters.<clause>.<TYPE>[.<SCALE>].<centre|configured_default> -> key of the native search"""
    return name[len('C03.get_default_parameters.'):] if name.startswith('C03.get_default_parameters.') else name


def replay_grid(scale):
    def on_violation(name, p, m):
        run = p.run
        d = K.dom_spec(m, run.dom)
        d['scale'] = scale
        res = m.eval(run.res, model_completion=True).as_long()
        return run_replay({'kind': 'grid', 'obligation': name, 'pc': d, 'resolution': max(1, min(res, 50))})
    return on_violation


def replay_halton(pad):
    def on_violation(name, p, m):
        run = p.run
        n = m.eval(run.dom.fv.n, model_completion=True).as_long()
        if n > 10000:
            return {'note': 'counter-model with %d categories: not replayed' % n}, None
        return run_replay({'kind': 'halton', 'obligation': name, 'n': n, 'pad_oovs': pad, 'halton': K.enc(xreal.model_value(m, run.h))})
    return on_violation


def replay_factory(name, p, m):
    alg = K.model_str(m, p.run.alg)
    return run_replay({'kind': 'factory', 'obligation': name, 'algorithm': alg, 'table': sorted(TABLE),
                       'unimportable': ['DEFAULT', 'ALGORITHM_UNSPECIFIED', 'GP_UCB_PE', 'GAUSSIAN_PROCESS_BANDIT']})


def replay_guard(dotted, clsname):
    def on_violation(name, p, m):
        return run_replay({'kind': 'guard', 'obligation': name, 'module': dotted, 'designer': clsname})
    return on_violation


def witness_terms(p):
    run = p.run
    out = C15.witness_terms(p)
    for k in ('lo', 'hi', 'h', 'alg', 'default', 'cond', 'res', 'count'):
        t = getattr(run, k, None)
        if z3.is_expr(t):
            out.append((k, t))
    return out


# =========================================================================================== driver
class Scoped(C15.Scoped):
    def obligation(self, name, function, backend, result, *a, **k):
        if name.startswith('C15.'):
            name = 'C03.' + name[4:]
        elif not name.startswith(PID + '.'):
            name = PID + '.' + name
        if '.hint_' in name and result == report.VIOLATED:
            result = report.UNDECIDED
            k = {'detail': {'reason': 'proof hint refuted: the main obligation decides'}}
            a = a[:1]
        return self.chk.obligation(name, function, backend, result, *a, **k)


FUNCTIONS = [(RSM, f) for f in ('sample_uniform', 'sample_integer', 'sample_categorical', 'sample_discrete', 'get_closest_element', '_sample_value',
                                'sample_parameters')] + [
    (GRID, 'GridSearchDesigner._grid_points_from_parameter_config'), (GRID, 'GridSearchDesigner.__init__'),
    (QRM, 'QuasiRandomDesigner._generate_discrete_point'), (QRM, 'QuasiRandomDesigner.__init__'),
    (RDM, 'RandomDesigner.__init__'), (RDM, 'RandomDesigner.suggest'),
    (SDM, 'get_default_parameters'), (PFM, 'DefaultPolicyFactory.__call__'),
    (CORE, 'DefaultModelInputConverter._to_parameter_value'), (CORE, 'DefaultModelInputConverter.to_parameter_values'),
    (CORE, 'DefaultModelInputConverter.__init__'), (CORE, 'ModelInputArrayBijector.scaler_from_spec'),
    (PCM, 'ParameterConfig.get_subspace_deepcopy'), (PCM, 'ParameterConfig._assert_feasible'),
]

# names that must be generated on every run (guards against obligations silently disappearing; names that exist only on exceptional
# paths are not listed)
INVENTORY = (['C03.%s.%s.only_producers' % (c, m) for c, m in (('RandomDesigner', 'suggest'), ('QuasiRandomDesigner', 'suggest'), ('GridSearchDesigner', 'suggest'),
                                                                ('RandomPolicy', 'suggest'), ('DefaultTrialConverter', 'to_parameters'), ('TrialToArrayConverter', 'to_parameters'))]
             + ['C03.%s.__init__.refuses_conditional' % c for c in ('RandomDesigner', 'QuasiRandomDesigner', 'GridSearchDesigner')]
             + ['C03.%s.in_domain.%s' % (f, t) for f in ('_sample_value', '_to_parameter_value', 'grid_points') for t in TYPES]
             + ['C03.get_default_parameters.in_domain.%s.%s' % (t, k) for t in TYPES for k in ('centre', 'configured_default')]
             + ['C03.sample_uniform.in_range', 'C03.sample_integer.in_range', 'C03.sample_integer.integral', 'C03.sample_categorical.in_domain',
                'C03.sample_discrete.in_domain', 'C03.get_closest_element.is_element', 'C03._generate_discrete_point.in_vocabulary',
                'C03.policy_factory.accepts_only_registered', 'C03.policy_factory.table', 'C03.RandomDesigner.suggest.samples_decodable',
                ]
             + ['C03.to_parameter_values.decode_is_last.%s' % t for t in TYPES])

F18 = 'C03.get_default_parameters.in_domain.DOUBLE.configured_default'
F_LOG = 'C03.scaler_from_spec.log_of_positive.LOG'
F_RLOG = 'C03.scaler_from_spec.log_of_positive.REVERSE_LOG'


def families(tier):
    """(function name, entry, post, on_violation, mode)"""
    fams = [
        ('random_sample.sample_uniform', rs_uniform_entry, rs_uniform_post, replay_rs('sample_uniform'), None),
        ('random_sample.sample_integer', rs_integer_entry, rs_integer_post, replay_rs('sample_integer'), None),
        ('random_sample.get_closest_element', rs_closest_entry, rs_closest_post, replay_rs('get_closest_element'), None),
        ('random_sample.sample_categorical', rs_categorical_entry, member_post('C03.sample_categorical'), replay_rs('sample_categorical'), None),
        ('random_sample.sample_discrete', rs_discrete_entry, member_post('C03.sample_discrete'), replay_rs('sample_discrete'), None),
    ]
    for t in TYPES:
        fams.append(('random_sample._sample_value', sample_value_entry(t), sample_value_post(t), replay_rs('_sample_value'), None))
    for t in TYPES:
        for sc in (C15.SCALES if t == 'DOUBLE' else (None,)):
            fams.append(('GridSearchDesigner._grid_points_from_parameter_config', grid_entry(t, sc), grid_post(t, sc), replay_grid(sc), 'decode-contract'))
    # the spec handed to _generate_discrete_point is built by QuasiRandomDesigner.__init__ through DefaultModelInputConverter, which always
    # pads one out-of-vocabulary index (NumpyArraySpec.from_parameter_config default pad_oovs=True); with pad_oovs=False the spec
    # bounds (0, n) would make index n reachable -- not constructible from the designer, stated as a precondition
    for pad in (True,):
        fams.append(('QuasiRandomDesigner._generate_discrete_point', halton_entry(pad), halton_post(pad), replay_halton(pad), None))
    for t in TYPES:
        for wd in (False, True):
            fams.append(('suggest_default.get_default_parameters', default_entry(t, wd), default_post(t, wd), replay_default(), 'default'))
    # the centre of a scaled DOUBLE parameter (every scale type; degenerate ranges lo == hi included)
    for sc in ('LINEAR', 'LOG', 'REVERSE_LOG'):
        fams.append(('suggest_default.get_default_parameters', default_entry('DOUBLE', False, sc), default_post('DOUBLE', False, sc), replay_default(sc), 'default'))
    fams.append(('DefaultPolicyFactory.__call__', factory_entry, factory_post, replay_factory, None))
    for dotted, c in ((RDM, 'RandomDesigner'), (QRM, 'QuasiRandomDesigner'), (GRID, 'GridSearchDesigner')):
        fams.append((c + '.__init__', guard_entry(dotted, c), guard_post(c), replay_guard(dotted, c), None))
    fams.append(('RandomDesigner.suggest', rd_suggest_entry, rd_suggest_post, None, None))
    try:
        lits, other = harmonica_literals()
    except (FF.Unanalysable, KeyError) as e:
        lits, other = [], ['unanalysable: %s' % (e,)]
    for ext in EXTERNALS:
        fams.append(('HarmonicaDesigner.__init__+suggest', harmonica_entry(ext), harmonica_post(ext, lits, other), replay_harmonica, None))
    # the decode producer shared with C15 (same entries and postconditions, recorded under C03 names)
    for t in TYPES:
        for sc in (C15.SCALES if t == 'DOUBLE' else (None,)):
            for dt in ('float32', 'float64'):      # float32 is the default dtype of the converters (NSGA2, Eagle, Grid use it)
                fams.append(('DefaultModelInputConverter._to_parameter_value', C15.tpv_entry(t, dt, sc), C15.tpv_post(t, dt, sc), C15.replay_tpv(dt, sc), 'c15'))
            dt = 'float64'
            fams.append(('DefaultModelInputConverter.to_parameter_values', C15.tpvs_entry(t, dt, sc), C15.tpvs_post(t, dt, sc), None, 'c15-decode-contract'))
    for sc in ('LOG', 'REVERSE_LOG'):
        fams.append(('ModelInputArrayBijector.scaler_from_spec', C15.scaler_entry(dt, sc, False), C15.scaler_post(dt, sc, False), C15.replay_scaler(dt, sc), 'c15'))
    return fams


def keep(name):
    """obligations of the shared C15 families that are C03 matters"""
    if name.startswith('C15.'):
        return any(s in name for s in ('.in_domain.', '.none_only_if.', '.raises_only_below_range.', '.to_parameter_values.', '.log_of_positive.',
                                       '.refuses_only_nonpositive_log_bounds.')) \
            and '.hint_' not in name
    return name.startswith('C03.')


def main(tier):
    chk = report.Check(PID, tier, level='proof',
                       technique='contract-based deductive verification of the value producers (real ASTs executed symbolically by pyvc; XReal floats; '
                                 'rng methods as assumed contracts; oracle from the property statement; z3) + construction frames by backward data flow '
                                 'over the real ASTs of the designers; claim limited to the stated subset')
    for t in A.TRUST + SK.TRUST + ['pyvc VC generator and its Python/numpy models (DESIGN 2, 4.5)', 'z3 5.1.0', SPB_TRUST,
                                   'pyvc/flowframe.py: flow-insensitive, class-aware backward slice (DESIGN 6, construction frames)',
                                   'ParameterConfig.contains / SearchSpace.contains agree with the membership oracle (proved by the C16 check)']:
        chk.trust(t)
    for a in ASSUMPTIONS + C15.ASSUMPTIONS[:4]:
        chk.assume(a)
    for n in NOT_VERIFIED:
        chk.note('NOT VERIFIED: ' + n + '.')
    chk.extra['not_verified'] = NOT_VERIFIED
    for dotted, q in FUNCTIONS:
        chk.function(dotted, q)
    chk.function(ITM, 'SequentialParameterBuilder._coroutine', role='modelled by its flat-space contract (generator with send: outside the engine); cross-checked natively')
    natives = {'findings': K.start_native(['findings'], 'c03f', driver=REPLAY),
               'builder': K.start_native(['builder_model'], 'c03b', driver=REPLAY),
               'standin': K.start_native(['standin', tier], 'c03s', driver=REPLAY)}
    # ---- known findings
    known = {}
    f18 = chk.finding_for(F18)
    if f18:
        known[F18] = (f18['what'], default_class)
    for name, sc in ((F_LOG, 'LOG'), (F_RLOG, 'REVERSE_LOG')):
        f = chk.finding_for(name)
        if f:
            known['C15.' + name[4:]] = (f['what'], C15.log_class(sc))
    timeout = 4000 if tier == 'quick' else 60000
    rename = lambda n: 'C03.' + n[4:] if n.startswith('C15.') else n
    common = dict(known=known, witness_terms=witness_terms, timeout_ms=timeout, deadline_s=3600, path_timeout_ms=30000, only=keep, rename=rename)

    def per_family(fname, mode):
        if mode == 'default':
            return {'refute': C15.refuter('default', driver=REPLAY, key_fn=default_key)}
        if mode == 'c15':
            return {'refute': C15.refuter(C15.kind_of(fname), driver=C15.REPLAY)}
        return {}
    inlined = C15.run_families(chk, families(tier), Scoped, common, per_family=per_family,
                               models=lambda mode: {C15.TPV_KEY: C15._decode_contract} if mode in ('decode-contract', 'c15-decode-contract') else {})
    chk.extra['inlined_real_functions'] = sorted(inlined)
    # ---- construction frames
    frame_obligations(chk)
    # ---- sample_parameters on concrete spines: a bounded stand-in (the loop runs over a search space of a fixed shape)
    col = K.Collector(chk)
    shapes = [TYPES, ('DOUBLE',), ('CATEGORICAL', 'INTEGER')]
    for types in shapes:
        verify.verify_function(Scoped(col), 'random_sample.sample_parameters', sample_parameters_entry(types), sample_parameters_post(types),
                               witness_terms=witness_terms, timeout_ms=timeout, deadline_s=3600, path_timeout_ms=30000)
    bad = [r for r in col.records if r[3] != report.PROVED]
    if bad:
        for r in bad:
            r[5].pop('finding', None)
            chk.obligation(r[0], r[1], r[2], r[3], r[4], **r[5])
    else:
        chk.bounded_standin('random_sample.sample_parameters (real AST, symbolic parameter definitions): each parameter exactly once, every value inside its domain',
                            'search spaces of the shapes %s (symbolic bounds / feasible sets / names; the loop body is parameter-generic and proved for every '
                            'parameter by C03._sample_value.*)' % (list(map(list, shapes)),), 'held', detail={'obligations': len(col.records)})
    # ---- native side
    res, verdict, err = K.collect_native(natives['builder'])
    if res is None or verdict != 'NOT-REPRODUCED':
        chk.error('C03.builder_model.cross_check', 'the flat-space contract of SequentialParameterBuilder disagrees with the real class (or the driver failed): %s %s' % (verdict, err or res))
    else:
        chk.note('SequentialParameterBuilder contract cross-checked on the real class: %d runs, 0 disagreements' % res['runs'])
    res, verdict, err = K.collect_native(natives['findings'])
    # a listed finding that no longer reproduces is never an error: the deductive verdicts above decide, this is a note
    if res is not None:
        chk.note('finding witnesses replayed on the real code (%s): %s' % ('all reproduce' if verdict == 'REPRODUCED' else 'not all reproduce', json.dumps(res)))
    else:
        chk.note('finding witness driver did not run: %s %s' % (verdict, str(err)[:200]))
    res, verdict, err = K.collect_native(natives['standin'], timeout=600)
    if res is None:
        chk.error('C03.standin.designers', 'native stand-in did not run: %s %s' % (verdict, err))
    elif res['n_failures']:
        chk.obligation('C03.standin.designers_in_domain', 'RandomDesigner/QuasiRandomDesigner/GridSearchDesigner.suggest', 'native-enumeration', report.VIOLATED, 0.0,
                       detail=res['failures'][0], model=json.dumps(res['failures'][:5]),
                       replay={'cmd': '/venv/bin/python %s standin %s' % (REPLAY, tier), 'first_failure': res['failures'][0]}, reproduced=True)
    else:
        chk.bounded_standin('RandomDesigner, QuasiRandomDesigner, GridSearchDesigner (plain and shuffled) .suggest and get_default_parameters on the real code: every '
                            'suggestion assigns each parameter exactly once inside its domain (incl. the scaled continuous decode through log/exp)',
                            '%d generated flat spaces (1, 2, ~5 and all of %s parameter kinds: unit/negative/singleton/huge/tiny/LOG/REVERSE_LOG/defaulted doubles, zero-width/'
                            'small/wide integers, 1/3/12 discrete values, 1/3 categories, bool) x batch sizes; refusals (exceptions) are allowed and counted'
                            % (res['spaces'], 'the pool of'), 'held', detail={k: res[k] for k in ('spaces', 'runs', 'n_refusals', 'refusal_examples')})
    C15.dedupe_violations(chk)
    return chk.finish(min_obligations=60, inventory=INVENTORY)


# =========================================================================================== I. HarmonicaDesigner: emitted literals are feasible values
# HARMONICA's numerics (regression over the Boolean cube, global np.random) are outside the stated subset.  What IS plain Python and decided
# here: suggest() returns either RandomDesigner suggestions (a frame/producer proved above) or a ParameterDict filled with string LITERALS; the
# constructor guard must therefore refuse every space in which one of those literals is not a feasible value of some parameter.
HARM = 'vizier._src.algorithms.designers.harmonica'
HARM_PRODUCERS = {'RandomDesigner().suggest': 'RandomDesigner.suggest'}
EXTERNALS = ('INTERNAL', 'BOOLEAN', 'INTEGER', 'FLOAT')


def harmonica_literals():
    """(literals emitted by suggest, other non-producer sources) from the backward slice of the real suggest()"""
    sl = FF.Slicer(mod(HARM).classes['HarmonicaDesigner'], HARM_PRODUCERS)
    leaves = sl.origins_of_returns('suggest')
    lits, other = [], []
    for l in sorted(leaves):
        if l.startswith('producer:'):
            continue
        if l.startswith('const:'):
            try:
                v = ast.literal_eval(l[len('const:'):])
            except (ValueError, SyntaxError):
                other.append(l)
                continue
            lits.append(v)
        else:
            other.append(l)
    return lits, other


def harmonica_entry(external):
    def entry(it):
        run = it.run
        run.stage = 'init'
        run.dom = K.Dom(run, 'CATEGORICAL')
        nm = run.fresh('pc_name', Str)
        run.assume(nm != pm.str_lit(''))
        pc = K.make_pc(it, run.dom, name=nm, external=external)
        if external == 'BOOLEAN':
            # the BOOLEAN external type is set by add_bool_param only, whose postcondition (C16.add_bool_param.*) is a categorical
            # parameter over exactly ['False', 'True']
            fv = run.dom.fv
            run.assume(z3.And(fv.n == 2, fv.arr[0] == pm.str_lit('False'), fv.arr[1] == pm.str_lit('True')))
        space = make_space(it, [pc])
        kc = PCM + ':SearchSpace.is_conditional'
        E.PROPERTIES[kc] = lambda it_, obj: False
        info = Obj('MetricInformation', {'name': 'objective', 'goal': None})
        problem = Obj('ProblemStatement', {'search_space': space,
                                           'metric_information': Obj('MetricsConfig', {'item': Builtin('item', lambda it_, args, kw: info)})})
        try:
            return it.call(mod(HARM).classes['HarmonicaDesigner'], [problem], {'harmonica_q': M.Opaque('harmonica_q')})
        finally:
            E.PROPERTIES.pop(kc, None)
    return entry


def harmonica_post(external, literals, other):
    name = 'C03.HarmonicaDesigner.suggest.values_in_domain'

    def post(p):
        if p.kind == 'raise':
            # a refusal (ValueError) is always allowed by the property
            return [('C03.HarmonicaDesigner.__init__.refuses_with_ValueError', z3.BoolVal(exc_class(p) == 'ValueError'))]
        if other:
            return [(name, z3.BoolVal(False))]
        dom = p.run.dom
        return [(name, z3.And(*[SK.member(dom, v) for v in literals]) if literals else z3.BoolVal(True))]
    return post


def replay_harmonica(name, p, m):
    run = p.run
    fv = K.model_list(m, run.dom.fv)
    return run_replay({'kind': 'harmonica', 'obligation': name, 'feasible': [str(x) for x in fv]})
