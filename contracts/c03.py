"""C03 -- every suggestion lies inside the search space (stated subset: the value producers + construction frames).

Whole-designer proofs are out of reach (numpy / JAX numerics).  Decided here, for all inputs, on the real ASTs of $VERIF_REPO:

 (1) every value PRODUCER returns None or a value inside the domain of its parameter (`ensures result is None or member(pc, result)`,
     `member` = the oracle written from the property statement, the one ParameterConfig.contains is proved equivalent to by C16):
       random_sample.sample_uniform / sample_integer / sample_categorical / sample_discrete / get_closest_element / _sample_value,
       DefaultModelInputConverter._to_parameter_value (every option, any array element) and to_parameter_values (decode comes last),
       GridSearchDesigner._grid_points_from_parameter_config, QuasiRandomDesigner._generate_discrete_point,
       suggest_default.get_default_parameters on flat spaces;
 (2) construction frames `C03.<Designer>.suggest.only_producers`: by backward data flow over the real AST every value stored into a
     ParameterDict / TrialSuggestion built by RandomDesigner / QuasiRandomDesigner / GridSearchDesigner / RandomPolicy .suggest comes from a producer;
 (3) refusals: DefaultPolicyFactory.__call__ raises for every algorithm name outside its table; the designers refuse conditional spaces.

NOT verified (listed in the evidence): GP_UCB_PE / DEFAULT, GAUSSIAN_PROCESS_BANDIT (JAX/equinox numerics), BOCS, HARMONICA (global-RNG numerics),
NSGA2, CMA_ES, EAGLE_STRATEGY internals (their final conversion goes through TrialToArrayConverter.to_parameters = producer (1), but the frames of
those designers are not checked here).  The claim is for the stated subset only.
"""
import ast
import json
import os
import time

import z3

from pyvc import engine as E, models as M, protomodel as pm, report, verify, xreal, np_model as NP
from pyvc import attrs_model as A
from pyvc import spacekit as SK
from pyvc.engine import Obj, Builtin, Unsupported, EXTERNAL, PyRaise
from pyvc.protomodel import SymList, Str
from pyvc.source import ModuleInfo
from contracts import c16 as K
from contracts import c15 as C15

PID = 'C03'
RSM = 'vizier._src.algorithms.random.random_sample'
GRID = 'vizier._src.algorithms.designers.grid'
QRM = 'vizier._src.algorithms.designers.quasi_random'
RDM = 'vizier._src.algorithms.designers.random'
RPM = 'vizier._src.algorithms.policies.random_policy'
SDM = 'vizier._src.pythia.suggest_default'
PFM = 'vizier._src.service.policy_factory'
ITM = 'vizier._src.pyvizier.shared.parameter_iterators'
CORE = C15.CORE
PCM, TRM = K.PCM, K.TRM
TYPES = C15.TYPES

ASSUMPTIONS = [
    'floats are extended reals fin(r)|+inf|-inf|nan (XReal): comparisons, round(), floor(), abs are exact; inputs range over all reals, not only doubles',
    'machine arithmetic treated as mathematical (|x - value| in get_closest_element, halton_value * n, the midpoint (lo + hi) / 2: no rounding, no overflow; '
    'note: (lo + hi) overflows to inf in float64 for |lo|, |hi| > 8.98e307 -- outside this model)',
    'parameter definitions are well formed (postcondition of ParameterConfig.factory proved by C16.factory.*): non-empty name, finite ordered bounds, '
    'feasible values finite / strictly ascending (DISCRETE), pairwise distinct (CATEGORICAL), at least one; parameter names are unique in a search space (C16.SearchSpace.add)',
    'scipy.stats.qmc.Halton.random returns values in [0, 1) (documented)',
] + SK.RNG_ASSUMPTIONS

NOT_VERIFIED = [
    'GP_UCB_PE / DEFAULT / ALGORITHM_UNSPECIFIED (VizierGPUCBPEBandit) and GAUSSIAN_PROCESS_BANDIT (VizierGPBandit): JAX / equinox numerics, out of reach',
    'BOCS, HARMONICA: global-RNG numerics over binary spaces, not under contract',
    'NSGA2 (numpy_populations), CMA_ES, EAGLE_STRATEGY: internals not under contract; only their last step, TrialToArrayConverter.to_parameters -> '
    'DefaultModelInputConverter.to_parameter_values, is a producer proved here',
    'seed_with_default wrapper: only get_default_parameters (the value it suggests) is under contract',
    'conditional search spaces: refused by the three designers (proved), not otherwise covered',
]


def mod(dotted):
    return ModuleInfo.get(dotted)


def fresh_float_list(run, name):
    n = run.fresh(name + '_n', z3.IntSort())
    arr = run.fresh(name, z3.ArraySort(z3.IntSort(), xreal.XReal))
    run.assume(n >= 0)
    return SymList(n, arr, 'float')


def fn(dotted, name):
    m = mod(dotted)
    return E.FuncVal(m, m.funcs[name])


def exc_class(p):
    return E.class_name(p.value.cls) if p.kind == 'raise' else None


# =========================================================================================== A. random_sample
def rs_uniform_entry(it):
    run = it.run
    run.rng = SK.Rng()
    run.lo, run.hi = run.fresh('lo', xreal.XReal), run.fresh('hi', xreal.XReal)
    run.assume(z3.And(xreal.is_fin(run.lo), xreal.is_fin(run.hi), xreal.r(run.lo) <= xreal.r(run.hi)))
    return it.call(fn(RSM, 'sample_uniform'), [run.rng, run.lo, run.hi], {})


def rs_uniform_post(p):
    run = p.run
    if p.kind != 'return':
        return [('C03.sample_uniform.in_range', z3.BoolVal(False))]
    r = p.value
    ok = z3.is_expr(r) and r.sort() == xreal.XReal
    return [('C03.sample_uniform.in_range', z3.And(xreal.is_fin(r), xreal.r(run.lo) <= xreal.r(r), xreal.r(r) <= xreal.r(run.hi)) if ok else z3.BoolVal(False))]


def rs_integer_entry(it):
    run = it.run
    run.rng = SK.Rng()
    run.lo, run.hi = run.fresh('lo', z3.IntSort()), run.fresh('hi', z3.IntSort())
    run.assume(run.lo <= run.hi)
    return it.call(fn(RSM, 'sample_integer'), [run.rng, run.lo, run.hi], {})


def rs_integer_post(p):
    run = p.run
    if p.kind != 'return':
        return [('C03.sample_integer.in_range', z3.BoolVal(False))]
    r = p.value
    ok = z3.is_expr(r) and r.sort() == z3.IntSort()         # an int, not a float
    return [('C03.sample_integer.integral', z3.BoolVal(bool(ok))),
            ('C03.sample_integer.in_range', z3.And(run.lo <= r, r <= run.hi) if ok else z3.BoolVal(False))]


def rs_closest_entry(it):
    run = it.run
    run.xs = fresh_float_list(run, 'array')
    run.assume(run.xs.n >= 1)
    j = z3.Int('j!fin')
    run.axiom(z3.ForAll([j], z3.Implies(z3.And(j >= 0, j < run.xs.n), xreal.is_fin(run.xs.arr[j]))))
    run.v = run.fresh('value', xreal.XReal)
    run.assume(xreal.is_fin(run.v))
    return it.call(fn(RSM, 'get_closest_element'), [run.xs, run.v], {})


def rs_closest_post(p):
    run = p.run
    if p.kind != 'return':
        return [('C03.get_closest_element.no_raise', z3.BoolVal(False))]
    r = p.value
    if not (z3.is_expr(r) and r.sort() == xreal.XReal):
        return [('C03.get_closest_element.is_element', z3.BoolVal(False))]
    j = z3.Int('j!ce')
    xs, v = run.xs, run.v
    dist = lambda t: z3.If(xreal.r(t) >= xreal.r(v), xreal.r(t) - xreal.r(v), xreal.r(v) - xreal.r(t))
    return [('C03.get_closest_element.no_raise', z3.BoolVal(True)),
            ('C03.get_closest_element.is_element', z3.Exists([j], z3.And(j >= 0, j < xs.n, xs.arr[j] == r))),
            ('C03.get_closest_element.closest', z3.ForAll([j], z3.Implies(z3.And(j >= 0, j < xs.n), dist(r) <= dist(xs.arr[j]))))]


def rs_categorical_entry(it):
    run = it.run
    run.rng = SK.Rng()
    run.dom = K.Dom(run, 'CATEGORICAL')
    return it.call(fn(RSM, 'sample_categorical'), [run.rng, run.dom.fv], {})


def rs_discrete_entry(it):
    run = it.run
    run.rng = SK.Rng()
    run.dom = K.Dom(run, 'DISCRETE')
    return it.call(fn(RSM, 'sample_discrete'), [run.rng, run.dom.fv], {})


def member_post(name):
    def post(p):
        if p.kind != 'return':
            return [(name + '.no_raise', z3.BoolVal(False))]
        return [(name + '.no_raise', z3.BoolVal(True)), (name + '.in_domain', SK.member(p.run.dom, p.value))]
    return post


def sample_value_entry(ptype):
    def entry(it):
        run = it.run
        run.rng = SK.Rng()
        run.dom = K.Dom(run, ptype)
        pc = C15.make_pc(it, run.dom)
        return it.call(fn(RSM, '_sample_value'), [run.rng, pc], {})
    return entry


def sample_value_post(ptype):
    base = 'C03._sample_value'

    def post(p):
        if p.kind != 'return':
            return [('%s.no_raise.%s' % (base, ptype), z3.BoolVal(False))]
        out = [('%s.no_raise.%s' % (base, ptype), z3.BoolVal(True)),
               ('%s.in_domain.%s' % (base, ptype), SK.member(p.run.dom, p.value))]
        if ptype == 'INTEGER':
            r = p.value
            out.append(('%s.integral.INTEGER' % base, z3.BoolVal(isinstance(r, int) or (z3.is_expr(r) and r.sort() == z3.IntSort()))))
        return out
    return post


def make_space(it, pcs):
    """a flat SearchSpace holding the given configs under their (pairwise distinct) names"""
    run = it.run
    d = M.PyDict()
    names = [pc.attrs['_name'] for pc in pcs]
    for i in range(len(names)):
        for k in range(i):
            run.assume(names[i] != names[k])
    for pc in pcs:
        d.set(it, pc.attrs['_name'], pc)
    return A.make_instance(it, mod(PCM).classes['SearchSpace'], _parameter_configs=d, _parent_values=())


def sample_parameters_entry(types):
    def entry(it):
        run = it.run
        run.rng = SK.Rng()
        run.doms = [K.Dom(run, t, prefix='pc%d' % i) for i, t in enumerate(types)]
        run.pcs = [C15.make_pc(it, d) for d in run.doms]
        space = make_space(it, run.pcs)
        return it.call(fn(RSM, 'sample_parameters'), [run.rng, space], {})
    return entry


def pdict_items(res):
    """[(key, ParameterValue)] of a ParameterDict instance built on a concrete spine"""
    items = res.attrs.get('_items') if isinstance(res, Obj) else None
    if isinstance(items, M.PyDict):
        return list(items.items())
    return None


def sample_parameters_post(types):
    def post(p):
        run = p.run
        if p.kind != 'return':
            return [('C03.sample_parameters.no_raise', z3.BoolVal(False))]
        items = pdict_items(p.value)
        if items is None or len(items) != len(run.pcs):
            return [('C03.sample_parameters.each_exactly_once', z3.BoolVal(False))]
        out = [('C03.sample_parameters.no_raise', z3.BoolVal(True))]
        once, dom_ok = [], []
        for (k, v), pc, d in zip(items, run.pcs, run.doms):
            once.append(E.to_z3(k) == pc.attrs['_name'])
            dom_ok.append(SK.member(d, v))
        out.append(('C03.sample_parameters.each_exactly_once', z3.And(*once)))
        out.append(('C03.sample_parameters.in_domain', z3.And(*dom_ok)))
        return out
    return post


# =========================================================================================== B. grid points
def grid_entry(ptype, scale):
    def entry(it):
        run = it.run
        run.stage = 'init'
        run.dom = K.Dom(run, ptype)
        pc = C15.make_pc(it, run.dom, scale)
        run.res = run.fresh('double_grid_resolution', z3.IntSort())
        run.assume(run.res >= 1)
        SK.LOG_OBLIGATION[0] = None
        self = Obj(mod(GRID).classes['GridSearchDesigner'], {'_double_grid_resolution': run.res})
        run.stage = 'grid'
        return K.call_method(it, self, '_grid_points_from_parameter_config', [pc])
    return entry


def grid_post(ptype, scale):
    T = ptype

    def post(p):
        run = p.run
        dom = run.dom
        if p.kind == 'raise':
            # LOG scale with a negative bound is refused by the converter (ValueError): a refusal, not a grid
            ok = T == 'DOUBLE' and scale == 'LOG' and exc_class(p) == 'ValueError'
            return [('C03.grid_points.no_raise.' + T, z3.BoolVal(bool(ok)) if not ok else z3.Or(xreal.r(dom.lo) < 0, xreal.r(dom.hi) < 0))]
        res = p.value
        out = [('C03.grid_points.no_raise.' + T, z3.BoolVal(True))]
        name = 'C03.grid_points.in_domain.' + T
        j = z3.Int('j!grid')
        if isinstance(res, list):
            out.append(('C03.grid_points.nonempty.' + T, z3.BoolVal(len(res) >= 1)))
            out.append((name, z3.And(*[SK.member(dom, x) for x in res]) if res else z3.BoolVal(True)))
        elif isinstance(res, SK.ObjList):
            out.append(('C03.grid_points.nonempty.' + T, res.n >= 1))
            v = SK.value_of(res.get(j))
            out.append((name, z3.ForAll([j], z3.Implies(z3.And(j >= 0, j < res.n), SK.member(dom, v)))))
            if T == 'INTEGER':
                out.append(('C03.grid_points.covers_range.INTEGER', res.n == dom.hi - dom.lo + 1))
        elif isinstance(res, SymList) and getattr(res, 'map_of', None) is not None and len(getattr(run, 'decode_calls', [])) == 1:
            # DOUBLE: the grid is to_parameter_values(linspace(0, 1, n)) of a scaling converter: every point is a result of the
            # producer _to_parameter_value (contract: None or inside the domain, C03._to_parameter_value.in_domain.DOUBLE)
            src = res.map_of
            out.append(('C03.grid_points.nonempty.' + T, res.n >= 1))
            out.append(('C03.grid_points.only_producer.' + T,
                        z3.ForAll([j], z3.Implies(z3.And(j >= 0, j < res.n), res.arr[j] == C15.decode_f(src.arr[j])))))
            out.append(('C03.grid_points.resolution.' + T, res.n == run.res))
        else:
            out.append((name, z3.BoolVal(False)))
        return out
    return post


# =========================================================================================== C. quasi-random discrete point
def halton_entry(pad):
    def entry(it):
        run = it.run
        run.stage = 'init'
        run.dom = K.Dom(run, 'CATEGORICAL')
        pc = C15.make_pc(it, run.dom)
        core = mod(CORE)
        spec = K.call_method(it, core.classes['NumpyArraySpec'], 'from_parameter_config',
                             [pc, it.getattr(core.classes['NumpyArraySpecType'], 'default_factory')], {'pad_oovs': pad})
        run.h = run.fresh('halton_value', xreal.XReal)
        run.assume(z3.And(xreal.is_fin(run.h), xreal.r(run.h) >= 0, xreal.r(run.h) < 1))
        self = Obj(mod(QRM).classes['QuasiRandomDesigner'], {})
        run.stage = 'point'
        return K.call_method(it, self, '_generate_discrete_point', [spec, run.h])
    return entry


def halton_post(pad):
    def post(p):
        run = p.run
        if p.kind != 'return' or run.stage != 'point':
            return [('C03._generate_discrete_point.no_raise', z3.BoolVal(False))]
        r = p.value
        ok = z3.is_expr(r) and r.sort() == z3.IntSort()
        n = run.dom.fv.n
        # with the default pad_oovs=True the spec bounds are (0, n) and one index (n) is the out-of-vocabulary slot
        return [('C03._generate_discrete_point.no_raise', z3.BoolVal(True)),
                ('C03._generate_discrete_point.in_vocabulary' + ('' if pad else '.no_oov_padding'),
                 z3.And(r >= 0, r < n) if ok else z3.BoolVal(False))]
    return post


# =========================================================================================== D. get_default_parameters (flat spaces)
# SequentialParameterBuilder is a generator coroutine driven by send(): outside the engine.  On FLAT search spaces its
# behaviour is (and is checked against the real class by the C16 bounded stand-in and by replay/c03_replay.py builder_model):
#   iteration visits search_space.parameters in order; choose_value(v) validates v through the REAL
#   ParameterConfig.get_subspace_deepcopy(v) (executed in place: finite types raise ValueError for an infeasible value, DOUBLE is
#   not validated) and stores parameters[pc.name] = v.
SPB_TRUST = ('SequentialParameterBuilder on flat search spaces modelled by its contract (visits search_space.parameters in order; choose_value(v) = '
             'the real ParameterConfig.get_subspace_deepcopy(v) for validation, then parameters[name] = v); cross-checked on the real class by '
             'replay/c03_replay.py builder_model and the C16 bounded stand-in')


def _spb_construct(it, cls, args, kw, _prev=M.construct_hook):
    if isinstance(cls, E.ClassInfo if hasattr(E, 'ClassInfo') else ()) or True:
        if getattr(cls, 'qualname', None) == 'SequentialParameterBuilder' and getattr(getattr(cls, 'mod', None), 'dotted', '') == ITM:
            space = args[0] if args else kw['search_space']
            pcs = list(M.iterate(it, it.getattr(space, 'parameters')))
            if not pcs:
                raise Unsupported('SequentialParameterBuilder on an empty search space')
            params = it.call(mod(TRM).classes['ParameterDict'], [], {})
            return Obj(cls, {'_queue': pcs, '_pos': 0, '_parameters': params})
    return _prev(it, cls, args, kw)


M.construct_hook = _spb_construct


def _spb_iterate(it, v, _prev=M.iterate_hook):
    if isinstance(v, Obj) and getattr(v.cls, 'qualname', None) == 'SequentialParameterBuilder' and '_queue' in v.attrs:
        return list(v.attrs['_queue'])
    return _prev(it, v)


M.iterate_hook = _spb_iterate


def _spb_choose_value(it, args, kw):
    self, value = args[0], args[1]
    pos = self.attrs['_pos']
    pc = self.attrs['_queue'][pos]
    self.attrs['_pos'] = pos + 1
    if value is None:
        return None
    K.call_method(it, pc, 'get_subspace_deepcopy', [value])       # REAL validation code
    M.setitem(it, self.attrs['_parameters'], it.getattr(pc, 'name'), value)
    return None


E.MODELS[ITM + ':SequentialParameterBuilder.choose_value'] = _spb_choose_value
E.MODELS[ITM + ':SequentialParameterBuilder.skip'] = lambda it, args, kw: _spb_choose_value(it, [args[0], None], {})
E.PROPERTIES[ITM + ':SequentialParameterBuilder.parameters'] = lambda it, obj: obj.attrs['_parameters']

DEFAULT_SORT = {'DOUBLE': xreal.XReal, 'DISCRETE': xreal.XReal, 'INTEGER': z3.IntSort(), 'CATEGORICAL': Str}


def default_entry(ptype, with_default):
    def entry(it):
        run = it.run
        run.dom = K.Dom(run, ptype)
        pc = C15.make_pc(it, run.dom)
        run.default = None
        if with_default:
            # what ParameterConfig.factory stores (C16.factory.normalises.default): a float for DOUBLE/DISCRETE (any float, NOT
            # checked against the domain by factory), an int for INTEGER, a str for CATEGORICAL
            run.default = run.fresh('default_value', DEFAULT_SORT[ptype])
            pc.attrs['_default_value'] = run.default
        run.pcfg = pc
        space = make_space(it, [pc])
        return it.call(fn(SDM, 'get_default_parameters'), [space], {})
    return entry


def default_post(ptype, with_default):
    sfx = '%s.%s' % (ptype, 'configured_default' if with_default else 'centre')

    def post(p):
        run = p.run
        if p.kind == 'raise':
            # refused with an error: allowed only for a configured default that is not a point of the domain
            ok = z3.BoolVal(False)
            if with_default and exc_class(p) in ('ValueError', 'TypeError'):
                ok = z3.Not(SK.member(run.dom, run.default))
            return [('C03.get_default_parameters.refuses_only_infeasible_default.' + sfx, ok)]
        items = pdict_items(p.value)
        if items is None or len(items) != 1:
            return [('C03.get_default_parameters.each_exactly_once.' + sfx, z3.BoolVal(False))]
        k, v = items[0]
        return [('C03.get_default_parameters.each_exactly_once.' + sfx, E.to_z3(k) == run.pcfg.attrs['_name']),
                ('C03.get_default_parameters.in_domain.' + sfx, SK.member(run.dom, v))]
    return post


def default_class(p):
    """witness class of DESIGN 10 row 18: a configured default value outside the domain of its DOUBLE parameter"""
    run = p.run
    if run.default is None or run.dom.ptype != 'DOUBLE':
        return False
    return z3.Not(SK.member(run.dom, run.default))
