"""Shared models for the service layer (DESIGN.md 4.1, 4.3, Appendix A).

* resource-name algebra: `parse : Str -> Name`, `mkname : Name -> Str` (assumed inverse on canonical names;
  the regexes/f-strings of resources.py are NOT verified here -- bounded stand-in in C07/C01 evidence);
* the abstract DataStore contract: assumed when verifying the servicer, discharged for the RAM
  implementation in C07;
* ghost datastore view D = {study, trial, sop, eop : Name -> Option<Msg>}, creation sequence numbers.
"""
import z3

from pyvc import engine as E
from pyvc import models as M
from pyvc import protomodel as pm
from pyvc.engine import Obj, ExcObj, PyRaise, Builtin, Unsupported, model
from pyvc.protomodel import Msg, SymList, Str
from pyvc.source import ModuleInfo

RES = 'vizier._src.service.resources'
ERR = 'vizier._src.service.custom_errors'

# ------------------------------------------------------------------------------------------ name algebra
Name = z3.Datatype('Name')
Name.declare('owner', ('o0', Str))
Name.declare('study', ('o1', Str), ('s1', Str))
Name.declare('trial', ('o2', Str), ('s2', Str), ('t2', z3.IntSort()))
Name.declare('sop', ('o3', Str), ('s3', Str), ('c3', Str), ('n3', z3.IntSort()))
Name.declare('eop', ('o4', Str), ('s4', Str), ('t4', z3.IntSort()))
Name.declare('bad')
Name = Name.create()

parse = z3.Function('parse_name', Str, Name)
mkname = z3.Function('mk_name', Name, Str)
valid_comp = z3.Function('valid_component', Str, z3.BoolSort())


def study_of_trial(n):
    return Name.study(Name.o2(n), Name.s2(n))


def wf(n):
    """well-formed (non-bad) name: components valid, ids non-negative."""
    return z3.Or(
        z3.And(Name.is_owner(n), valid_comp(Name.o0(n))),
        z3.And(Name.is_study(n), valid_comp(Name.o1(n)), valid_comp(Name.s1(n))),
        z3.And(Name.is_trial(n), valid_comp(Name.o2(n)), valid_comp(Name.s2(n)), Name.t2(n) >= 0),
        z3.And(Name.is_sop(n), valid_comp(Name.o3(n)), valid_comp(Name.s3(n)), valid_comp(Name.c3(n)), Name.n3(n) >= 0),
        z3.And(Name.is_eop(n), valid_comp(Name.o4(n)), valid_comp(Name.s4(n)), Name.t4(n) >= 0))


def parse_name(it, s):
    """parse(s) with the canonical-name axioms instantiated at s."""
    s = E.to_z3(s)
    n = parse(s)
    key = ('parse', s.get_id())
    if key not in it.run.instantiated:
        it.run.instantiated.add(key)
        it.run.assume(z3.Or(Name.is_bad(n), wf(n)))
        # canonical names (DESIGN 4.3, assumption): a name that parses is the image of its parse
        it.run.assume(z3.Implies(z3.Not(Name.is_bad(n)), mkname(n) == s))
    return n


def make_name(it, n):
    s = mkname(n)
    key = ('mkname', n.get_id())
    if key not in it.run.instantiated:
        it.run.instantiated.add(key)
        it.run.assume(z3.Implies(wf(n), parse(s) == n))
    return s


def res_class(name):
    return ModuleInfo.get(RES).classes[name]


def _check_comp(it, c):
    c = E.to_z3(c)
    if not it.truth(valid_comp(c)):
        raise PyRaise(it.make_exc('ValueError', ['resource component must match [^/]+']))
    return c


def _check_id(it, t):
    if isinstance(t, bool) or not (isinstance(t, int) or (z3.is_expr(t) and t.sort() == z3.IntSort())):
        raise PyRaise(it.make_exc('TypeError', ['trial_id must be int']))
    if not it.truth(E.as_int(t) >= 0 if z3.is_expr(t) else t >= 0):
        raise PyRaise(it.make_exc('ValueError', ['must be non-negative']))
    return t if z3.is_expr(t) else z3.IntVal(t)


def _bind(names, args, kw):
    vals = list(args)
    for n in names[len(vals):]:
        vals.append(kw[n])
    return vals


@model(RES + ':OwnerResource')
def _owner_ctor(it, args, kw):
    (o,) = _bind(['owner_id'], args, kw)
    return Obj(res_class('OwnerResource'), {'_owner_id': _check_comp(it, o)})


@model(RES + ':StudyResource')
def _study_ctor(it, args, kw):
    o, s = _bind(['owner_id', 'study_id'], args, kw)
    return Obj(res_class('StudyResource'), {'owner_id': _check_comp(it, o), 'study_id': _check_comp(it, s)})


@model(RES + ':TrialResource')
def _trial_ctor(it, args, kw):
    o, s, t = _bind(['owner_id', 'study_id', 'trial_id'], args, kw)
    return Obj(res_class('TrialResource'), {'owner_id': _check_comp(it, o), 'study_id': _check_comp(it, s), 'trial_id': _check_id(it, t)})


@model(RES + ':EarlyStoppingOperationResource')
def _eop_ctor(it, args, kw):
    o, s, t = _bind(['owner_id', 'study_id', 'trial_id'], args, kw)
    return Obj(res_class('EarlyStoppingOperationResource'),
               {'owner_id': _check_comp(it, o), 'study_id': _check_comp(it, s), 'trial_id': _check_id(it, t)})


@model(RES + ':SuggestionOperationResource')
def _sop_ctor(it, args, kw):
    o, s, c, n = _bind(['owner_id', 'study_id', 'client_id', 'operation_number'], args, kw)
    return Obj(res_class('SuggestionOperationResource'),
               {'owner_id': _check_comp(it, o), 'study_id': _check_comp(it, s), 'client_id': _check_comp(it, c),
                'operation_number': _check_id(it, n)})


def _from_name(cls_name, recog, build):
    def fn(it, args, kw):
        s = args[-1] if not kw else kw.get('resource_name', args[-1] if args else None)
        n = parse_name(it, s)
        if it.truth(recog(n)):
            return Obj(res_class(cls_name), build(n))
        raise PyRaise(it.make_exc('ValueError', ['not a valid resource name']))
    return fn


E.MODELS[RES + ':OwnerResource.from_name'] = _from_name('OwnerResource', Name.is_owner, lambda n: {'_owner_id': Name.o0(n)})
E.MODELS[RES + ':StudyResource.from_name'] = _from_name('StudyResource', Name.is_study, lambda n: {'owner_id': Name.o1(n), 'study_id': Name.s1(n)})
E.MODELS[RES + ':TrialResource.from_name'] = _from_name('TrialResource', Name.is_trial, lambda n: {'owner_id': Name.o2(n), 'study_id': Name.s2(n), 'trial_id': Name.t2(n)})
E.MODELS[RES + ':SuggestionOperationResource.from_name'] = _from_name(
    'SuggestionOperationResource', Name.is_sop,
    lambda n: {'owner_id': Name.o3(n), 'study_id': Name.s3(n), 'client_id': Name.c3(n), 'operation_number': Name.n3(n)})
E.MODELS[RES + ':EarlyStoppingOperationResource.from_name'] = _from_name(
    'EarlyStoppingOperationResource', Name.is_eop, lambda n: {'owner_id': Name.o4(n), 'study_id': Name.s4(n), 'trial_id': Name.t4(n)})

E.PROPERTIES[RES + ':OwnerResource.name'] = lambda it, o: make_name(it, Name.owner(o.attrs['_owner_id']))
E.PROPERTIES[RES + ':StudyResource.name'] = lambda it, o: make_name(it, Name.study(o.attrs['owner_id'], o.attrs['study_id']))
E.PROPERTIES[RES + ':TrialResource.name'] = lambda it, o: make_name(it, Name.trial(o.attrs['owner_id'], o.attrs['study_id'], o.attrs['trial_id']))
E.PROPERTIES[RES + ':SuggestionOperationResource.name'] = lambda it, o: make_name(
    it, Name.sop(o.attrs['owner_id'], o.attrs['study_id'], o.attrs['client_id'], o.attrs['operation_number']))
E.PROPERTIES[RES + ':EarlyStoppingOperationResource.name'] = lambda it, o: make_name(
    it, Name.eop(o.attrs['owner_id'], o.attrs['study_id'], o.attrs['trial_id']))


# ------------------------------------------------------------------------------------------ schemas / sorts
def schema(fq):
    return pm.registry().msgs[fq]


def S_TRIAL():
    return schema('vizier.Trial')


def S_STUDY():
    return schema('vizier.Study')


def S_OP():
    return schema('google.longrunning.Operation')


def S_EOP():
    return schema('vizier.EarlyStoppingOperation')


def acc(sch, field):
    return pm.accessor(sch, field)


TRIAL_STATE = dict(STATE_UNSPECIFIED=0, REQUESTED=1, ACTIVE=2, STOPPING=3, SUCCEEDED=4, INFEASIBLE=5)
STUDY_STATE = dict(STATE_UNSPECIFIED=0, ACTIVE=1, INACTIVE=2, COMPLETED=3)

GHOSTS = ('D.study', 'D.trial', 'D.sop', 'D.eop', 'D.seq', 'D.next')


def init_view(run, prefix='D0'):
    """Fresh symbolic datastore view."""
    run.ghost['D.study'] = z3.Const(prefix + '_study', z3.ArraySort(Name, pm.option_sort(S_STUDY())))
    run.ghost['D.trial'] = z3.Const(prefix + '_trial', z3.ArraySort(Name, pm.option_sort(S_TRIAL())))
    run.ghost['D.sop'] = z3.Const(prefix + '_sop', z3.ArraySort(Name, pm.option_sort(S_OP())))
    run.ghost['D.eop'] = z3.Const(prefix + '_eop', z3.ArraySort(Name, pm.option_sort(S_EOP())))
    run.ghost['D.seq'] = z3.Const(prefix + '_seq', z3.ArraySort(Name, z3.IntSort()))
    run.ghost['D.next'] = z3.Const(prefix + '_next', z3.IntSort())
    run.D0 = dict(run.ghost)


def init_view_bounded(it, ntrials, nops, bound=2, study_may_be_missing=True):
    """Bounded model-query mode (DESIGN 2.5): an explicit finite datastore view -- one study, `ntrials` trials with
    ids 1..ntrials in arbitrary states, `nops` suggestion operations 1..nops of the client under test.  Everything
    is quantifier-free, so the solver gives definite sat/unsat and a replayable model."""
    run = it.run
    run.bounded = bound
    T, ST, OP, EO = S_TRIAL(), S_STUDY(), S_OP(), S_EOP()
    o, s_, c = z3.Const('b_owner', Str), z3.Const('b_study', Str), z3.Const('b_client', Str)
    run.assume(valid_comp(o))
    run.assume(valid_comp(s_))
    sk = Name.study(o, s_)
    run.assume(parse(mkname(sk)) == sk)
    study0 = z3.Const('b_study0', pm.msg_sort(ST))
    run.assume(z3.And(acc(ST, 'name')(study0) == mkname(sk), acc(ST, 'display_name')(study0) == s_,
                      acc(ST, 'state')(study0) >= 0, acc(ST, 'state')(study0) <= 3))
    has_study = z3.Bool('b_has_study') if study_may_be_missing else z3.BoolVal(True)
    Dst = z3.K(Name, none(ST))
    run.ghost['D.study'] = z3.If(has_study, z3.Store(Dst, sk, some(ST, study0)), Dst)
    Dt = z3.K(Name, none(T))
    keys = []
    for i in range(ntrials):
        k = Name.trial(o, s_, z3.IntVal(i + 1))
        t = z3.Const('b_trial%d' % (i + 1), pm.msg_sort(T))
        run.assume(z3.And(acc(T, 'name')(t) == mkname(k), parse(mkname(k)) == k, acc(T, 'id')(t) == M.int2str(z3.IntVal(i + 1)),
                          M.str2int(M.int2str(z3.IntVal(i + 1))) == i + 1, M.is_int_str(M.int2str(z3.IntVal(i + 1))),
                          acc(T, 'state')(t) >= 1, acc(T, 'state')(t) <= 5,
                          acc(T, 'measurements__len')(t) >= 0, acc(T, 'parameters__len')(t) >= 0, acc(T, 'metadata__len')(t) >= 0))
        Dt = z3.Store(Dt, k, some(T, t))
        keys.append(k)
    run.ghost['D.trial'] = z3.If(has_study, Dt, z3.K(Name, none(T)))
    Ds = z3.K(Name, none(OP))
    okeys = []
    for i in range(nops):
        k = Name.sop(o, s_, c, z3.IntVal(i + 1))
        op = z3.Const('b_op%d' % (i + 1), pm.msg_sort(OP))
        run.assume(z3.And(acc(OP, 'name')(op) == mkname(k), parse(mkname(k)) == k))
        Ds = z3.Store(Ds, k, some(OP, op))
        okeys.append(k)
    run.ghost['D.sop'] = z3.If(has_study, Ds, z3.K(Name, none(OP)))
    run.ghost['D.eop'] = z3.K(Name, none(EO))
    run.ghost['D.seq'] = z3.K(Name, z3.IntVal(0))
    run.ghost['D.next'] = z3.IntVal(ntrials + nops + 1)
    run.tables = {'trials': list(keys), 'sops': list(okeys), 'sk': sk, 'client': c, 'has_study': has_study,
                  'trials0': list(keys), 'sops0': list(okeys), 'owner': o, 'study': s_}
    run.D0 = dict(run.ghost)
    return sk, c


def some(sch, t):
    return pm.option_sort(sch).some(t)


def none(sch):
    return pm.option_sort(sch).none


def is_some(sch, o):
    return pm.option_sort(sch).is_some(o)


def val(sch, o):
    return pm.option_sort(sch).v(o)


# ------------------------------------------------------------------------------------------ representation invariant
def inv_trial_at(D, k):
    """Inv instantiated at key k for the trial map (Appendix B (1),(2))."""
    T, ST = S_TRIAL(), S_STUDY()
    o = D['D.trial'][k]
    t = val(T, o)
    st = acc(T, 'state')(t)
    return z3.Implies(is_some(T, o), z3.And(
        Name.is_trial(k), wf(k), Name.t2(k) >= 1,
        acc(T, 'name')(t) == mkname(k), parse(mkname(k)) == k,
        acc(T, 'id')(t) == M.int2str(Name.t2(k)), M.str2int(M.int2str(Name.t2(k))) == Name.t2(k),
        st >= 1, st <= 5,
        is_some(ST, D['D.study'][study_of_trial(k)])))


def inv_study_at(D, k):
    ST = S_STUDY()
    o = D['D.study'][k]
    s = val(ST, o)
    return z3.Implies(is_some(ST, o), z3.And(Name.is_study(k), wf(k), acc(ST, 'name')(s) == mkname(k), parse(mkname(k)) == k,
                                            acc(ST, 'display_name')(s) == Name.s1(k)))


def inv_sop_at(D, k):
    OP, ST = S_OP(), S_STUDY()
    o = D['D.sop'][k]
    return z3.Implies(is_some(OP, o), z3.And(Name.is_sop(k), wf(k), Name.n3(k) >= 1, acc(OP, 'name')(val(OP, o)) == mkname(k),
                                            parse(mkname(k)) == k,
                                            is_some(ST, D['D.study'][Name.study(Name.o3(k), Name.s3(k))]),
                                            is_some(OP, D['D.sop'][Name.sop(Name.o3(k), Name.s3(k), Name.c3(k), z3.IntVal(1))])))


def inv_eop_at(D, k):
    EO, ST = S_EOP(), S_STUDY()
    o = D['D.eop'][k]
    return z3.Implies(is_some(EO, o), z3.And(Name.is_eop(k), wf(k), acc(EO, 'name')(val(EO, o)) == mkname(k), parse(mkname(k)) == k,
                                            is_some(ST, D['D.study'][Name.study(Name.o4(k), Name.s4(k))])))


def inv_at(D, k):
    return z3.And(inv_trial_at(D, k), inv_study_at(D, k), inv_sop_at(D, k), inv_eop_at(D, k))


def inst_inv(it, k):
    """Instantiate Inv(D0) at key k (on demand, DESIGN 2.4b rule 2)."""
    run = it.run
    key = ('inv', k.get_id())
    if key in run.instantiated:
        return
    run.instantiated.add(key)
    if run.bounded:
        return
    run.assume(inv_at(run.D0, k))
    run.keys_seen = getattr(run, 'keys_seen', []) + [k]
    for fact in getattr(run, 'key_facts', []):
        run.assume(fact(k))
    # a trial/operation key implies its study key is also constrained
    for sk in (study_of_trial(k), Name.study(Name.o3(k), Name.s3(k)), Name.study(Name.o4(k), Name.s4(k))):
        key2 = ('inv', sk.get_id())
        if key2 not in run.instantiated:
            run.instantiated.add(key2)
            run.assume(inv_study_at(run.D0, sk))


# ------------------------------------------------------------------------------------------ DataStore contract (Appendix A)
def add_key_fact(run, fact):
    """A universally quantified fact over keys, instantiated on demand at every key the path touches
    (the path solver stays quantifier-free)."""
    run.key_facts = getattr(run, 'key_facts', []) + [fact]
    for k in getattr(run, 'keys_seen', []):
        run.assume(fact(k))


def err_class(name):
    return ModuleInfo.get(ERR).classes[name]


def not_found(it, *a):
    return PyRaise(ExcObj(err_class('NotFoundError'), {'args': tuple(a)}))


def already_exists(it, *a):
    return PyRaise(ExcObj(err_class('AlreadyExistsError'), {'args': tuple(a)}))


class DatastoreRef:
    """The abstract datastore: every method is a contract over the ghost view (reads/writes recorded as events)."""

    FOOTPRINT = {
        'create_study': ('w', 'studies'), 'load_study': ('r', 'study'), 'update_study': ('w', 'study'),
        'delete_study': ('w', 'studies'), 'list_studies': ('r', 'studies'),
        'create_trial': ('w', 'trials'), 'get_trial': ('r', 'trials'), 'update_trial': ('w', 'trials'),
        'list_trials': ('r', 'trials'), 'delete_trial': ('w', 'trials'), 'max_trial_id': ('r', 'trials'),
        'create_suggestion_operation': ('w', 'sops'), 'get_suggestion_operation': ('r', 'sops'),
        'update_suggestion_operation': ('w', 'sops'), 'list_suggestion_operations': ('r', 'sops'),
        'max_suggestion_operation_number': ('r', 'sops'),
        'create_early_stopping_operation': ('w', 'eops'), 'get_early_stopping_operation': ('r', 'eops'),
        'update_early_stopping_operation': ('w', 'eops'), 'update_metadata': ('w', 'trials+study'),
    }

    def __init__(self):
        self.calls = 0


def _ds_event(it, method, key):
    fp = DatastoreRef.FOOTPRINT[method]
    it.run.event('ds', method, fp[0], fp[1], key)


def _malformed(it):
    # RAM raises ValueError (from_name), SQL raises NotFoundError for a malformed name: either is allowed
    if it.run.choose(z3.Bool('malformed_raises_value_error!%d' % it.run.cursor)):
        return PyRaise(it.make_exc('ValueError', ['malformed resource name']))
    return not_found(it, 'malformed name')


def ds_load_study(it, args, kw):
    run = it.run
    n = parse_name(it, args[1])
    inst_inv(it, n)
    _ds_event(it, 'load_study', n)
    if not it.truth(Name.is_study(n)):
        raise _malformed(it)
    o = run.ghost['D.study'][n]
    if it.truth(is_some(S_STUDY(), o)):
        return Msg.from_term(S_STUDY(), val(S_STUDY(), o))
    raise not_found(it, 'study')


def ds_update_study(it, args, kw):
    run = it.run
    st = args[1]
    n = parse_name(it, st.get('name'))
    inst_inv(it, n)
    _ds_event(it, 'update_study', n)
    if not it.truth(Name.is_study(n)):
        raise PyRaise(it.make_exc('ValueError', ['malformed study name']))
    if it.truth(is_some(S_STUDY(), run.ghost['D.study'][n])):
        run.ghost['D.study'] = z3.Store(run.ghost['D.study'], n, some(S_STUDY(), st.pack()))
        return Obj(res_class('StudyResource'), {'owner_id': Name.o1(n), 'study_id': Name.s1(n)})
    raise not_found(it, 'study')


def ds_create_study(it, args, kw):
    run = it.run
    st = args[1]
    n = parse_name(it, st.get('name'))
    inst_inv(it, n)
    _ds_event(it, 'create_study', n)
    if not it.truth(Name.is_study(n)):
        raise PyRaise(it.make_exc('ValueError', ['malformed study name']))
    if it.truth(is_some(S_STUDY(), run.ghost['D.study'][n])):
        raise already_exists(it, 'study')
    run.ghost['D.study'] = z3.Store(run.ghost['D.study'], n, some(S_STUDY(), st.pack()))
    run.ghost['D.seq'] = z3.Store(run.ghost['D.seq'], n, run.ghost['D.next'])
    run.ghost['D.next'] = run.ghost['D.next'] + 1
    return Obj(res_class('StudyResource'), {'owner_id': Name.o1(n), 'study_id': Name.s1(n)})


def _remove_study_children(run, n, tag):
    """delete_study: every trial / operation of the study disappears (fresh maps defined pointwise)."""
    k = z3.Const('k!del', Name)
    for g, sch, in_study in (
            ('D.trial', S_TRIAL(), lambda k: z3.And(Name.is_trial(k), study_of_trial(k) == n)),
            ('D.sop', S_OP(), lambda k: z3.And(Name.is_sop(k), Name.study(Name.o3(k), Name.s3(k)) == n)),
            ('D.eop', S_EOP(), lambda k: z3.And(Name.is_eop(k), Name.study(Name.o4(k), Name.s4(k)) == n))):
        old = run.ghost[g]
        new = run.fresh('del_' + g.replace('.', '_'), old.sort())
        run.axiom(z3.ForAll([k], new[k] == z3.If(in_study(k), none(sch), old[k])))
        run.ghost[g] = new
        run.deleted = getattr(run, 'deleted', []) + [(g, old, new, in_study, sch)]


def ds_delete_study(it, args, kw):
    run = it.run
    n = parse_name(it, args[1])
    inst_inv(it, n)
    _ds_event(it, 'delete_study', n)
    if not it.truth(Name.is_study(n)):
        raise _malformed(it)
    if not it.truth(is_some(S_STUDY(), run.ghost['D.study'][n])):
        raise not_found(it, 'study')
    run.ghost['D.study'] = z3.Store(run.ghost['D.study'], n, none(S_STUDY()))
    _remove_study_children(run, n, 'del')
    return None


def _fresh_list(it, sch, tag):
    run = it.run
    n = run.fresh(tag + '_n', z3.IntSort())
    arr = run.fresh(tag + '_a', z3.ArraySort(z3.IntSort(), pm.msg_sort(sch)))
    run.assume(n >= 0)
    return SymList(n, arr, sch)


def ds_list_studies(it, args, kw):
    run = it.run
    n = parse_name(it, args[1])
    _ds_event(it, 'list_studies', n)
    if not it.truth(Name.is_owner(n)):
        raise PyRaise(it.make_exc('ValueError', ['malformed owner name']))
    # owner exists iff it ever had a study (RAM) -- abstracted: unknown
    ST = S_STUDY()
    if not it.run.choose(z3.Bool('owner_exists!%d' % run.cursor)):
        # an owner that does not exist has no studies
        kk = z3.Const('k!no', Name)
        Dst0 = run.ghost['D.study']
        run.axiom(z3.ForAll([kk], z3.Implies(z3.And(Name.is_study(kk), Name.o1(kk) == Name.o0(n)), z3.Not(is_some(ST, Dst0[kk])))))
        add_key_fact(run, lambda k_: z3.Implies(z3.And(Name.is_study(k_), Name.o1(k_) == Name.o0(n)), z3.Not(is_some(ST, Dst0[k_]))))
        raise not_found(it, 'owner')
    L = _fresh_list(it, ST, 'studies')
    L.list_of = ('studies', n, dict(run.ghost))
    i, j = z3.Int('i!ls'), z3.Int('j!ls')
    k = z3.Const('k!ls', Name)
    Dst = run.ghost['D.study']
    key = lambda ix: parse(acc(ST, 'name')(L.arr[ix]))
    run.axiom(z3.ForAll([i], z3.Implies(z3.And(i >= 0, i < L.n), z3.And(
        Name.is_study(key(i)), Name.o1(key(i)) == Name.o0(n), Dst[key(i)] == some(ST, L.arr[i]),
        mkname(key(i)) == acc(ST, 'name')(L.arr[i])))))
    run.axiom(z3.ForAll([k], z3.Implies(z3.And(Name.is_study(k), Name.o1(k) == Name.o0(n), is_some(ST, Dst[k])),
                                        z3.Exists([i], z3.And(i >= 0, i < L.n, key(i) == k)))))
    run.axiom(z3.ForAll([i, j], z3.Implies(z3.And(i >= 0, i < j, j < L.n), run.ghost['D.seq'][key(i)] < run.ghost['D.seq'][key(j)])))
    return L


def trial_key(t):
    return parse(acc(S_TRIAL(), 'name')(t))


def ds_list_trials(it, args, kw):
    run = it.run
    n = parse_name(it, args[1])
    inst_inv(it, n)
    _ds_event(it, 'list_trials', n)
    if not it.truth(Name.is_study(n)):
        raise _malformed(it)
    if not it.truth(is_some(S_STUDY(), run.ghost['D.study'][n])):
        raise not_found(it, 'study')
    T = S_TRIAL()
    if run.bounded:
        out = []
        for k_ in run.tables['trials']:
            if it.truth(z3.And(study_of_trial(k_) == n, is_some(T, run.ghost['D.trial'][k_]))):
                out.append(Msg.from_term(T, val(T, run.ghost['D.trial'][k_])))
        return out
    L = _fresh_list(it, T, 'trials')
    L.list_of = ('trials', n, dict(run.ghost))
    i, j = z3.Int('i!lt'), z3.Int('j!lt')
    k = z3.Const('k!lt', Name)
    Dt = run.ghost['D.trial']
    key = lambda ix: trial_key(L.arr[ix])
    run.axiom(z3.ForAll([i], z3.Implies(z3.And(i >= 0, i < L.n), z3.And(
        Name.is_trial(key(i)), study_of_trial(key(i)) == n, Dt[key(i)] == some(T, L.arr[i]),
        inv_trial_at(run.ghost, key(i))))))
    run.axiom(z3.ForAll([k], z3.Implies(z3.And(Name.is_trial(k), study_of_trial(k) == n, is_some(T, Dt[k])),
                                        z3.Exists([i], z3.And(i >= 0, i < L.n, key(i) == k)))))
    run.axiom(z3.ForAll([i, j], z3.Implies(z3.And(i >= 0, i < j, j < L.n), run.ghost['D.seq'][key(i)] < run.ghost['D.seq'][key(j)])))
    return L


def ds_get_trial(it, args, kw):
    run = it.run
    n = parse_name(it, args[1])
    inst_inv(it, n)
    _ds_event(it, 'get_trial', n)
    if not it.truth(Name.is_trial(n)):
        raise _malformed(it)
    o = run.ghost['D.trial'][n]
    if it.truth(is_some(S_TRIAL(), o)):
        return Msg.from_term(S_TRIAL(), val(S_TRIAL(), o))
    raise not_found(it, 'trial')


def ds_update_trial(it, args, kw):
    run = it.run
    t = args[1]
    n = parse_name(it, t.get('name'))
    inst_inv(it, n)
    _ds_event(it, 'update_trial', n)
    if not it.truth(Name.is_trial(n)):
        raise PyRaise(it.make_exc('ValueError', ['malformed trial name']))
    if it.truth(is_some(S_TRIAL(), run.ghost['D.trial'][n])):
        run.ghost['D.trial'] = z3.Store(run.ghost['D.trial'], n, some(S_TRIAL(), t.pack()))
        return Obj(res_class('TrialResource'), {'owner_id': Name.o2(n), 'study_id': Name.s2(n), 'trial_id': Name.t2(n)})
    raise not_found(it, 'trial')


def ds_create_trial(it, args, kw):
    run = it.run
    t = args[1]
    n = parse_name(it, t.get('name'))
    inst_inv(it, n)
    _ds_event(it, 'create_trial', n)
    if not it.truth(Name.is_trial(n)):
        raise PyRaise(it.make_exc('ValueError', ['malformed trial name']))
    # requires: the study exists (RAM raises a raw KeyError otherwise -- outside the contract)
    run.oblige('datastore.create_trial.requires.study_exists', is_some(S_STUDY(), run.ghost['D.study'][study_of_trial(n)]))
    if it.truth(is_some(S_TRIAL(), run.ghost['D.trial'][n])):
        raise already_exists(it, 'trial')
    run.ghost['D.trial'] = z3.Store(run.ghost['D.trial'], n, some(S_TRIAL(), t.pack()))
    if run.bounded:
        run.tables['trials'].append(n)
    run.ghost['D.seq'] = z3.Store(run.ghost['D.seq'], n, run.ghost['D.next'])
    run.ghost['D.next'] = run.ghost['D.next'] + 1
    return Obj(res_class('TrialResource'), {'owner_id': Name.o2(n), 'study_id': Name.s2(n), 'trial_id': Name.t2(n)})


def ds_delete_trial(it, args, kw):
    run = it.run
    n = parse_name(it, args[1])
    inst_inv(it, n)
    _ds_event(it, 'delete_trial', n)
    if not it.truth(Name.is_trial(n)):
        raise _malformed(it)
    if it.truth(is_some(S_TRIAL(), run.ghost['D.trial'][n])):
        run.ghost['D.trial'] = z3.Store(run.ghost['D.trial'], n, none(S_TRIAL()))
        return None
    raise not_found(it, 'trial')


def ds_max_trial_id(it, args, kw):
    run = it.run
    n = parse_name(it, args[1])
    inst_inv(it, n)
    _ds_event(it, 'max_trial_id', n)
    if not it.truth(Name.is_study(n)):
        raise _malformed(it)
    if not it.truth(is_some(S_STUDY(), run.ghost['D.study'][n])):
        raise not_found(it, 'study')
    return max_id_of(it, n)


def max_id_of(it, n):
    """ghost: the largest trial id of study n in the current view (0 if none)."""
    run = it.run
    T = S_TRIAL()
    if run.bounded:
        m = z3.IntVal(0)
        for k_ in run.tables['trials']:
            m = z3.If(z3.And(study_of_trial(k_) == n, is_some(T, run.ghost['D.trial'][k_]), Name.t2(k_) > m), Name.t2(k_), m)
        return m
    m = run.fresh('max_id', z3.IntSort())
    k = z3.Const('k!mx', Name)
    Dt = run.ghost['D.trial']
    run.assume(m >= 0)
    run.axiom(z3.ForAll([k], z3.Implies(z3.And(Name.is_trial(k), study_of_trial(k) == n, is_some(T, Dt[k])), Name.t2(k) <= m)))
    wit = Name.trial(Name.o1(n), Name.s1(n), m)
    run.assume(z3.Or(m == 0, is_some(T, Dt[wit])))
    add_key_fact(run, lambda k_: z3.Implies(z3.And(Name.is_trial(k_), study_of_trial(k_) == n, is_some(T, Dt[k_])), Name.t2(k_) <= m))
    return m


def _op_key_ok(it, n, recog):
    return it.truth(recog(n))


def ds_create_sop(it, args, kw):
    run = it.run
    op = args[1]
    n = parse_name(it, op.get('name'))
    inst_inv(it, n)
    _ds_event(it, 'create_suggestion_operation', n)
    if not it.truth(Name.is_sop(n)):
        raise PyRaise(it.make_exc('ValueError', ['malformed operation name']))
    run.oblige('datastore.create_suggestion_operation.requires.study_exists',
               is_some(S_STUDY(), run.ghost['D.study'][Name.study(Name.o3(n), Name.s3(n))]))
    if it.truth(is_some(S_OP(), run.ghost['D.sop'][n])):
        raise already_exists(it, 'operation')
    run.ghost['D.sop'] = z3.Store(run.ghost['D.sop'], n, some(S_OP(), op.pack()))
    if run.bounded:
        run.tables['sops'].append(n)
    run.ghost['D.seq'] = z3.Store(run.ghost['D.seq'], n, run.ghost['D.next'])
    run.ghost['D.next'] = run.ghost['D.next'] + 1
    return Obj(res_class('SuggestionOperationResource'), {'owner_id': Name.o3(n), 'study_id': Name.s3(n), 'client_id': Name.c3(n),
                                                          'operation_number': Name.n3(n)})


def ds_get_sop(it, args, kw):
    run = it.run
    n = parse_name(it, args[1])
    inst_inv(it, n)
    _ds_event(it, 'get_suggestion_operation', n)
    if not it.truth(Name.is_sop(n)):
        raise _malformed(it)
    o = run.ghost['D.sop'][n]
    if it.truth(is_some(S_OP(), o)):
        return Msg.from_term(S_OP(), val(S_OP(), o))
    raise not_found(it, 'operation')


def ds_update_sop(it, args, kw):
    run = it.run
    op = args[1]
    n = parse_name(it, op.get('name'))
    inst_inv(it, n)
    _ds_event(it, 'update_suggestion_operation', n)
    if not it.truth(Name.is_sop(n)):
        raise PyRaise(it.make_exc('ValueError', ['malformed operation name']))
    if it.truth(is_some(S_OP(), run.ghost['D.sop'][n])):
        run.ghost['D.sop'] = z3.Store(run.ghost['D.sop'], n, some(S_OP(), op.pack()))
        return Obj(res_class('SuggestionOperationResource'), {'owner_id': Name.o3(n), 'study_id': Name.s3(n), 'client_id': Name.c3(n),
                                                              'operation_number': Name.n3(n)})
    raise not_found(it, 'operation')


def sop_of(n, c, num):
    return Name.sop(Name.o1(n), Name.s1(n), c, num)


def ds_list_sops(it, args, kw):
    """list_suggestion_operations(study_name, client_id, filter_fn)"""
    run = it.run
    n = parse_name(it, args[1])
    c = E.to_z3(args[2])
    flt = args[3] if len(args) > 3 else kw.get('filter_fn')
    inst_inv(it, n)
    _ds_event(it, 'list_suggestion_operations', n)
    if not it.truth(Name.is_study(n)):
        raise _malformed(it)
    OP = S_OP()
    Ds = run.ghost['D.sop']
    # the (study, client) pair exists iff operation number 1 exists (numbers are 1..k without gaps: Inv (4))
    if not it.truth(is_some(OP, Ds[sop_of(n, c, z3.IntVal(1))])):
        raise not_found(it, '(study, client)')
    if run.bounded:
        out = []
        for k_ in run.tables['sops']:
            if it.truth(z3.And(Name.c3(k_) == c, Name.study(Name.o3(k_), Name.s3(k_)) == n, is_some(OP, Ds[k_]))):
                op_ = Msg.from_term(OP, val(OP, Ds[k_]))
                if flt is None or it.truth(it.call(flt, [op_], {})):
                    out.append(op_)
        return out
    L = _fresh_list(it, OP, 'sops')
    i, j = z3.Int('i!lo'), z3.Int('j!lo')
    k = z3.Const('k!lo', Name)
    key = lambda ix: parse(acc(OP, 'name')(L.arr[ix]))
    J = run.fresh('fj', z3.IntSort())
    if flt is not None:
        it.pure += 1
        try:
            ft = E.zbool(it.truth_term(it.call(flt, [Msg.from_term(OP, L.arr[J])], {})))
        finally:
            it.pure -= 1
        passes = lambda term: z3.substitute(ft, (L.arr[J], term))
    else:
        passes = lambda term: z3.BoolVal(True)
    belongs = lambda k_: z3.And(Name.is_sop(k_), Name.o3(k_) == Name.o1(n), Name.s3(k_) == Name.s1(n), Name.c3(k_) == c)
    run.axiom(z3.ForAll([i], z3.Implies(z3.And(i >= 0, i < L.n), z3.And(
        belongs(key(i)), Ds[key(i)] == some(OP, L.arr[i]), passes(L.arr[i])))))
    run.axiom(z3.ForAll([k], z3.Implies(z3.And(belongs(k), is_some(OP, Ds[k]), passes(val(OP, Ds[k]))),
                                        z3.Exists([i], z3.And(i >= 0, i < L.n, key(i) == k)))))
    run.axiom(z3.ForAll([i, j], z3.Implies(z3.And(i >= 0, i < j, j < L.n), Name.n3(key(i)) < Name.n3(key(j)))))
    L.sop_list = (n, c, Ds, passes)
    return L


def ds_max_sop_number(it, args, kw):
    run = it.run
    n = parse_name(it, args[1])
    c = E.to_z3(args[2])
    inst_inv(it, n)
    _ds_event(it, 'max_suggestion_operation_number', n)
    if not it.truth(Name.is_study(n)):
        raise _malformed(it)
    OP = S_OP()
    Ds = run.ghost['D.sop']
    if not it.truth(is_some(OP, Ds[sop_of(n, c, z3.IntVal(1))])):
        raise not_found(it, '(study, client)')
    if run.bounded:
        m = z3.IntVal(0)
        for k_ in run.tables['sops']:
            m = z3.If(z3.And(Name.c3(k_) == c, Name.study(Name.o3(k_), Name.s3(k_)) == n, is_some(OP, Ds[k_]), Name.n3(k_) > m), Name.n3(k_), m)
        return m
    m = run.fresh('max_op', z3.IntSort())
    num = z3.Int('num!mo')
    run.assume(m >= 1)
    run.assume(is_some(OP, Ds[sop_of(n, c, m)]))
    inst_inv(it, sop_of(n, c, m))
    run.axiom(z3.ForAll([num], z3.Implies(is_some(OP, Ds[sop_of(n, c, num)]), z3.And(num >= 1, num <= m))))
    run.assume(z3.Not(is_some(OP, Ds[sop_of(n, c, m + 1)])))
    return m


def ds_create_eop(it, args, kw):
    run = it.run
    op = args[1]
    n = parse_name(it, op.get('name'))
    inst_inv(it, n)
    _ds_event(it, 'create_early_stopping_operation', n)
    if not it.truth(Name.is_eop(n)):
        raise PyRaise(it.make_exc('ValueError', ['malformed operation name']))
    run.oblige('datastore.create_early_stopping_operation.requires.study_exists',
               is_some(S_STUDY(), run.ghost['D.study'][Name.study(Name.o4(n), Name.s4(n))]))
    if it.truth(is_some(S_EOP(), run.ghost['D.eop'][n])):
        raise already_exists(it, 'operation')
    run.ghost['D.eop'] = z3.Store(run.ghost['D.eop'], n, some(S_EOP(), op.pack()))
    return Obj(res_class('EarlyStoppingOperationResource'), {'owner_id': Name.o4(n), 'study_id': Name.s4(n), 'trial_id': Name.t4(n)})


def ds_get_eop(it, args, kw):
    run = it.run
    n = parse_name(it, args[1])
    inst_inv(it, n)
    _ds_event(it, 'get_early_stopping_operation', n)
    if not it.truth(Name.is_eop(n)):
        raise _malformed(it)
    o = run.ghost['D.eop'][n]
    if it.truth(is_some(S_EOP(), o)):
        return Msg.from_term(S_EOP(), val(S_EOP(), o))
    raise not_found(it, 'operation')


def ds_update_eop(it, args, kw):
    run = it.run
    op = args[1]
    n = parse_name(it, op.get('name'))
    inst_inv(it, n)
    _ds_event(it, 'update_early_stopping_operation', n)
    if not it.truth(Name.is_eop(n)):
        raise PyRaise(it.make_exc('ValueError', ['malformed operation name']))
    if it.truth(is_some(S_EOP(), run.ghost['D.eop'][n])):
        run.ghost['D.eop'] = z3.Store(run.ghost['D.eop'], n, some(S_EOP(), op.pack()))
        return Obj(res_class('EarlyStoppingOperationResource'), {'owner_id': Name.o4(n), 'study_id': Name.s4(n), 'trial_id': Name.t4(n)})
    raise not_found(it, 'operation')


# metadata merge as a spec function over packed messages (defined in C10; here uninterpreted with the frame facts)
merge_study_md = None
merge_trial_md = None


def md_functions():
    global merge_study_md, merge_trial_md
    if merge_study_md is None:
        KV = pm.registry().msgs['vizier.KeyValue']
        UMU = pm.registry().msgs['vizier.UnitMetadataUpdate']
        kvarr = z3.ArraySort(z3.IntSort(), pm.msg_sort(KV))
        uarr = z3.ArraySort(z3.IntSort(), pm.msg_sort(UMU))
        merge_study_md = z3.Function('merge_study_md', pm.msg_sort(S_STUDY()), z3.IntSort(), kvarr, pm.msg_sort(S_STUDY()))
        merge_trial_md = z3.Function('merge_trial_md', pm.msg_sort(S_TRIAL()), z3.IntSort(), uarr, pm.msg_sort(S_TRIAL()))
    return merge_study_md, merge_trial_md


def same_except_metadata_trial(a, b):
    T = S_TRIAL()
    return z3.And(*[pm.accessor(T, zn)(a) == pm.accessor(T, zn)(b) for zn, _, _, f in pm.msg_layout(T)
                    if not (hasattr(f, 'name') and f.name == 'metadata')])


def same_except_metadata_study(a, b):
    ST, SP = S_STUDY(), schema('vizier.StudySpec')
    conj = [pm.accessor(ST, zn)(a) == pm.accessor(ST, zn)(b) for zn, _, _, f in pm.msg_layout(ST)
            if not (hasattr(f, 'name') and f.name == 'study_spec')]
    sa, sb = acc(ST, 'study_spec')(a), acc(ST, 'study_spec')(b)
    conj += [pm.accessor(SP, zn)(sa) == pm.accessor(SP, zn)(sb) for zn, _, _, f in pm.msg_layout(SP)
             if not (hasattr(f, 'name') and f.name == 'metadata')]
    return z3.And(*conj)


def ds_update_metadata(it, args, kw):
    """update_metadata(study_name, study_metadata, trial_metadata): all-or-nothing (Appendix A)."""
    run = it.run
    n = parse_name(it, args[1])
    smd, tmd = args[2], args[3]
    inst_inv(it, n)
    _ds_event(it, 'update_metadata', n)
    if not it.truth(Name.is_study(n)):
        raise _malformed(it)
    ST, T = S_STUDY(), S_TRIAL()
    KV = pm.registry().msgs['vizier.KeyValue']
    UMU = pm.registry().msgs['vizier.UnitMetadataUpdate']
    if not it.truth(is_some(ST, run.ghost['D.study'][n])):
        raise not_found(it, 'study')
    smd = M.to_symlist(it, smd, KV)
    tmd = M.to_symlist(it, tmd, UMU)
    if run.bounded and z3.is_int_value(z3.simplify(smd.n + tmd.n)) and z3.simplify(smd.n + tmd.n).as_long() == 0:
        # bounded model query: an empty metadata delta leaves the (sorted, unique) stored metadata as it is
        run.md_update = None
        run.md_noop = True
        return None
    # every named trial must exist; otherwise NotFoundError (a KeyError) and D unchanged
    j = z3.Int('j!um')
    tid_ok = lambda u: z3.And(M.is_int_str(acc(UMU, 'trial_id')(u)), M.str2int(acc(UMU, 'trial_id')(u)) >= 1,
                              is_some(T, run.ghost['D.trial'][Name.trial(Name.o1(n), Name.s1(n), M.str2int(acc(UMU, 'trial_id')(u)))]))
    all_ok = run.fresh('md_all_trials_exist', z3.BoolSort())
    run.axiom(all_ok == z3.ForAll([j], z3.Implies(z3.And(j >= 0, j < tmd.n), tid_ok(tmd.arr[j]))))
    if not it.truth(all_ok):
        raise not_found(it, 'trial named in metadata update')
    ms, mt = md_functions()
    old_s, old_t = run.ghost['D.study'], run.ghost['D.trial']
    run.ghost['D.study'] = z3.Store(old_s, n, some(ST, ms(val(ST, old_s[n]), smd.n, smd.arr)))
    new_t = run.fresh('md_trials', old_t.sort())
    k = z3.Const('k!um', Name)
    in_study = z3.And(Name.is_trial(k), study_of_trial(k) == n, is_some(T, old_t[k]))
    run.axiom(z3.ForAll([k], new_t[k] == z3.If(in_study, some(T, mt(val(T, old_t[k]), tmd.n, tmd.arr)), old_t[k])))
    run.ghost['D.trial'] = new_t
    run.md_update = (n, old_s, old_t, new_t, smd, tmd)
    # frame facts of the merge functions (proved for the real merge_* in C10)
    a = z3.Const('a!md', pm.msg_sort(T))
    nn, arr = z3.Int('n!md'), z3.Const('arr!md', tmd.arr.sort())
    run.axiom(z3.ForAll([a, nn, arr], same_except_metadata_trial(mt(a, nn, arr), a)))
    b = z3.Const('b!md', pm.msg_sort(ST))
    arr2 = z3.Const('arr2!md', smd.arr.sort())
    run.axiom(z3.ForAll([b, nn, arr2], same_except_metadata_study(ms(b, nn, arr2), b)))
    return None


DS_METHODS = {
    'create_study': ds_create_study, 'load_study': ds_load_study, 'update_study': ds_update_study,
    'delete_study': ds_delete_study, 'list_studies': ds_list_studies,
    'create_trial': ds_create_trial, 'get_trial': ds_get_trial, 'update_trial': ds_update_trial,
    'list_trials': ds_list_trials, 'delete_trial': ds_delete_trial, 'max_trial_id': ds_max_trial_id,
    'create_suggestion_operation': ds_create_sop, 'get_suggestion_operation': ds_get_sop,
    'update_suggestion_operation': ds_update_sop, 'list_suggestion_operations': ds_list_sops,
    'max_suggestion_operation_number': ds_max_sop_number,
    'create_early_stopping_operation': ds_create_eop, 'get_early_stopping_operation': ds_get_eop,
    'update_early_stopping_operation': ds_update_eop, 'update_metadata': ds_update_metadata,
}


def _ds_getattr(it, v, a):
    if isinstance(v, DatastoreRef):
        if a in DS_METHODS:
            return E.Bound(v, Builtin('datastore.' + a, DS_METHODS[a]))
        raise Unsupported('datastore method %s has no contract' % a)
    return M.MISSING


_prev_hook = M.value_getattr_hook


def _hook(it, v, a):
    r = _ds_getattr(it, v, a)
    if r is not M.MISSING:
        return r
    return _prev_hook(it, v, a)


M.value_getattr_hook = _hook


# ------------------------------------------------------------------------------------------ the servicer object
SVC = 'vizier._src.service.vizier_service'


def make_servicer(it):
    cls = ModuleInfo.get(SVC).classes['VizierServicer']
    return Obj(cls, {
        'datastore': DatastoreRef(),
        '_owner_name_to_lock': M.LockTable('_owner_name_to_lock'),
        '_study_name_to_lock': M.LockTable('_study_name_to_lock'),
        '_operation_lock': M.LockTable('_operation_lock'),
        '_early_stop_recycle_period': z3.Int('early_stop_recycle_period'),
        'default_pythia_service': PythiaRef('default'),
    })


class PythiaRef:
    def __init__(self, tag):
        self.tag = tag


def symbolic_msg(fq, name):
    sch = schema(fq)
    return Msg.from_term(sch, z3.Const(name, pm.msg_sort(sch)))
