"""C05 -- SQL crash safety (DESIGN.md section 5 "C05", section 6 "Event traces").

Everything below is decided on the `ast` of the *current* $VERIF_REPO source on every run, by `pyvc.paths`: all
syntactic paths of each function, loops by a fixed point of the abstract state at the loop head (exact for the
finite-state automata used here), helpers (`_write_or_rollback`, `_study_is_immutable`, ...) by inlining their real body.

Layer 0 -- the precondition of layer 1, checked instead of assumed:

  C05.engine.transactional    no `create_engine(..)` / `execution_options(..)` / session factory / `X.isolation_level = ..`
                              site on a constructor path of the datastore (all non-test modules of vizier/_src/service and
                              every non-test module that builds an engine or a SQLDataStore) selects autocommit
                              (isolation_level='AUTOCOMMIT', execution_options isolation_level, autocommit=True,
                              future=False, sqlite3 isolation_level=None / autocommit=True through connect_args, creator
                              or attribute stores).  Constant arguments decide; a non-constant one is undecided;
                              **kwargs / non-literal dicts / engines passed in from outside are printed assumptions.
                              A violation is replayed with the kill-and-reopen driver on DeleteStudy / UpdateMetadata.
  C05.engine.single_connection  `self._connection` is bound once, in `__init__`, to `<engine>.connect()` and no other
                              method opens or uses another connection of `self._engine` (otherwise undecided).

Layer 1 -- one run of the transaction automaton per `SQLDataStore` method (all methods except `__init__`), under layer 0:

  C05.<method>.bracket        public method: every exit (return or exception) is reached with no pending write
                              (each write is followed by a commit, or by a rollback before an exceptional exit), no
                              commit lies between two writes of the method (all-or-nothing), and no commit follows a
                              failed write while an earlier write of the method is pending (partial transaction).
                              private helper (analysed with the lock held, a pending write of its caller and the
                              statement classes of its call sites): if it contains a rollback (`_write_or_rollback`)
                              every exceptional exit has rolled back; other helpers leave transaction control to
                              their callers, which inline the helper's real body.
  C05.<method>.single_commit  at most one commit on every path.
  C05.<method>.lock           every access to `self._connection` (also inside inlined helpers) is inside
                              `with self._lock`; for a private helper: every call site holds the lock.

  Statement objects are classified read / write by a forward data flow over the query-building assignments of the
  method (`select/exists` -> read, `insert/update/delete` -> write, builder methods keep the class).  A write whose
  class cannot be determined makes the obligation *undecided*, never violated.
  A failing write statement has no effect (SQLite statement atomicity, trusted) and raises IntegrityError or another
  DatabaseError; reads are not forked into failures (environmental errors are outside the property).

Layer 2 -- one run of the datastore-call automaton per `VizierServicer` RPC (which datastore methods are *mutating*
and what they raise is taken from the layer-1 analysis of the real SQL methods, not from their names):

  C05.<rpc>.single_write      single-resource RPCs: at most one mutating datastore call on every path (a failed
                              call counts as zero only if its bracket obligation is proved) => with layer 1 the RPC is
                              atomic and "acknowledged => durable".
  C05.<rpc>.acked_is_durable  on every normal return no object that was handed to a mutating datastore call has been
                              modified afterwards without being written again (the acknowledged value is the stored one).
  C05.<rpc>.read_only         the remaining RPCs make no mutating datastore call.
  C05.SuggestTrials.usable_after_crash   no crash point leaves a committed not-done suggestion operation.  Fails on the
                              real code (finding 15): recorded as KNOWN-FINDING after replaying the witness; residual
                              obligations, all proved: `.window_closed` (every normal return that opened the
                              not-done window closed it with done=True), `.single_window` (no second not-done
                              operation, no rewrite of an operation as not-done), `.ack_last` (no datastore write
                              after the done=True write), `.trial_fully_formed` (no trial object is modified after it
                              was written).
  C05.CheckTrialEarlyStoppingState.no_suggest_state_write   its writes are confined to early-stopping operations and
                              update_metadata (what the property exempts).

Known finding 7 (SQL part) is the class "update_metadata: ValueError raised by trial_resource escapes with a pending
write"; every other violating exit of `update_metadata` is still a VIOLATION.
"""
import ast
import json
import os
import subprocess
import time
from collections import namedtuple

from pyvc import paths, report, source

SQL_MOD = 'vizier._src.service.sql_datastore'
SVC_MOD = 'vizier._src.service.vizier_service'
SQL_CLASS = 'SQLDataStore'
SVC_CLASS = 'VizierServicer'
VENV_PY = '/venv/bin/python'
DRIVER = os.path.join(report.VERIF, 'replay', 'c05_crash.py')
OUTDIR = os.path.join(report.OUT, 'c05')

SINGLE_RESOURCE = ['CreateStudy', 'CreateTrial', 'CompleteTrial', 'AddTrialMeasurement', 'StopTrial', 'DeleteTrial',
                   'DeleteStudy', 'SetStudyState', 'UpdateMetadata']
MULTI_WRITE = ['SuggestTrials', 'CheckTrialEarlyStoppingState']
EARLY_STOP_ALLOWED = {'create_early_stopping_operation', 'update_early_stopping_operation', 'update_metadata'}
OP_WRITES = {'create_suggestion_operation', 'update_suggestion_operation'}
TRIAL_WRITES = {'create_trial', 'update_trial'}
MUTATORS = {'CopyFrom', 'MergeFrom', 'extend', 'append', 'add', 'Clear', 'ClearField', 'ParseFromString', 'MergeFromString',
            'pop', 'remove', 'insert', 'update', 'SetInParent', 'sort', 'reverse', 'clear', 'setdefault', 'popitem', 'Pack'}

SQLA_HIERARCHY = {'IntegrityError': 'DatabaseError', 'OperationalError': 'DatabaseError', 'ProgrammingError': 'DatabaseError',
                  'DataError': 'DatabaseError', 'InternalError': 'DatabaseError', 'NotSupportedError': 'DatabaseError',
                  'DatabaseError': 'DBAPIError', 'InterfaceError': 'DBAPIError', 'DBAPIError': 'StatementError',
                  'StatementError': 'SQLAlchemyError', 'SQLAlchemyError': 'Exception', 'RpcError': 'Exception'}

READ, WRITE, EXPR, TABLE, PARAM, UNKNOWN = 'read', 'write', 'expr', 'table', 'param', 'unknown'
Event = paths.Event


def is_self_attr(node, attr=None):
    return (isinstance(node, ast.Attribute) and isinstance(node.value, ast.Name) and node.value.id == 'self'
            and (attr is None or node.attr == attr))


# =========================================================================================== statement classes
class KindFlow:
    """Forward data flow over a method: class (read/write/...) of every expression handed to a call, at that call."""

    def __init__(self, mod, cls):
        self.methods = {k: v for k, v in cls.methods.items() if isinstance(v, ast.FunctionDef)}
        self.depth = 0
        self.sqla = {n for n, t in mod.imports.items() if t == 'sqlalchemy'}
        self.direct = {n: t.split('.')[-1] for n, t in mod.imports.items() if t.startswith('sqlalchemy.') and t.count('.') == 1}
        self.tables = set()
        init = cls.methods.get('__init__')
        if init is not None:
            for n in ast.walk(init):
                if (isinstance(n, ast.Assign) and len(n.targets) == 1 and is_self_attr(n.targets[0])
                        and isinstance(n.value, ast.Call) and paths.last_name(n.value.func) == 'Table'):
                    self.tables.add(n.targets[0].attr)

    def _is_sqla(self, e):
        return isinstance(e, ast.Name) and e.id in self.sqla

    def _builder(self, name, call):
        if name in ('select', 'exists'):
            return READ
        if name in ('insert', 'update', 'delete'):
            return WRITE
        if name == 'text':
            if call.args and isinstance(call.args[0], ast.Constant) and isinstance(call.args[0].value, str):
                w = (call.args[0].value.split() or [''])[0].upper()
                if w in ('SELECT', 'PRAGMA', 'EXPLAIN'):
                    return READ
                if w in ('INSERT', 'UPDATE', 'DELETE', 'REPLACE', 'CREATE', 'DROP', 'ALTER'):
                    return WRITE
            return UNKNOWN
        return EXPR

    def kind(self, e, env):
        if isinstance(e, ast.Name):
            return env.get(e.id, UNKNOWN)
        if isinstance(e, ast.Attribute):
            if is_self_attr(e) and e.attr in self.tables:
                return TABLE
            if self._is_sqla(e.value):
                return EXPR
            return EXPR if self.kind(e.value, env) in (TABLE, EXPR) else UNKNOWN
        if isinstance(e, ast.Call):
            f = e.func
            if isinstance(f, ast.Name):
                return self._builder(self.direct[f.id], e) if f.id in self.direct else UNKNOWN
            if is_self_attr(f) and f.attr in self.methods and self.depth < 4:
                return self._returned_kind(self.methods[f.attr], e, env)
            if isinstance(f, ast.Attribute):
                m, r = f.attr, f.value
                if self._is_sqla(r):
                    return self._builder(m, e)
                if isinstance(r, ast.Attribute) and self._is_sqla(r.value) and r.attr == 'func':
                    return EXPR
                rk = self.kind(r, env)
                if rk == TABLE:
                    return READ if m == 'select' else (WRITE if m in ('insert', 'update', 'delete') else EXPR)
                if rk == READ:
                    return READ
                if rk == WRITE:
                    return UNKNOWN if m in ('select', 'exists') else WRITE
                if rk == EXPR:
                    return READ if m == 'select' else EXPR
                if rk == PARAM:
                    return PARAM
            return UNKNOWN
        if isinstance(e, (ast.Compare, ast.BoolOp, ast.BinOp, ast.UnaryOp, ast.Constant)):
            return EXPR
        return UNKNOWN

    def _returned_kind(self, callee, call, env):
        """`self.m(args)` used as a statement: join of the classes of the expressions `m` returns."""
        params = [a.arg for a in callee.args.args[1:]]
        penv = {p: UNKNOWN for p in params}
        for p, a in zip(params, call.args):
            penv[p] = self.kind(a, env)
        for k in call.keywords:
            if k.arg in penv:
                penv[k.arg] = self.kind(k.value, env)
        sub = KindFlow.__new__(KindFlow)
        sub.__dict__.update(self.__dict__)
        sub.depth = self.depth + 1
        sub.returns = []
        sub.at = {}
        sub._block(callee.body, penv)
        ks = set(sub.returns)
        return next(iter(ks)) if len(ks) == 1 else UNKNOWN

    # ---- data flow
    def analyse(self, fn, param_kinds=None):
        self.at = {}
        env = dict(param_kinds or {})
        self._block(fn.body, env)
        return self.at

    @staticmethod
    def _join(a, b):
        out = {}
        for k in set(a) | set(b):
            out[k] = a[k] if (k in a and k in b and a[k] == b[k]) else UNKNOWN
        return out

    def _record(self, exprs, env):
        for e in exprs:
            if e is None:
                continue
            for n in ast.walk(e):
                if isinstance(n, ast.Call):
                    self.at[id(n)] = ([self.kind(a, env) for a in n.args],
                                      {k.arg: self.kind(k.value, env) for k in n.keywords if k.arg})

    def _assign(self, target, value, env):
        if isinstance(target, ast.Name):
            env[target.id] = self.kind(value, env) if value is not None else UNKNOWN
        elif isinstance(target, (ast.Tuple, ast.List)):
            for t in target.elts:
                self._assign(t, None, env)

    def _block(self, stmts, env):
        for s in stmts:
            self._stmt(s, env)

    def _stmt(self, s, env):
        if isinstance(s, ast.Assign):
            self._record([s.value] + s.targets, env)
            for t in s.targets:
                self._assign(t, s.value, env)
        elif isinstance(s, ast.AnnAssign):
            self._record([s.value], env)
            self._assign(s.target, s.value, env)
        elif isinstance(s, ast.AugAssign):
            self._record([s.value], env)
            self._assign(s.target, None, env)
        elif isinstance(s, ast.If):
            self._record([s.test], env)
            a, b = dict(env), dict(env)
            self._block(s.body, a)
            self._block(s.orelse, b)
            env.clear()
            env.update(self._join(a, b))
        elif isinstance(s, (ast.For, ast.While)):
            for _ in range(3):      # flat lattice: the third pass runs on the joined (stable) environment
                self._record([s.iter] if isinstance(s, ast.For) else [s.test], env)
                body = dict(env)
                if isinstance(s, ast.For):
                    self._assign(s.target, None, body)
                self._block(s.body, body)
                j = self._join(env, body)
                env.clear()
                env.update(j)
            self._block(s.orelse, env)
        elif isinstance(s, ast.With):
            self._record([i.context_expr for i in s.items], env)
            for i in s.items:
                if i.optional_vars is not None:
                    self._assign(i.optional_vars, None, env)
            self._block(s.body, env)
        elif isinstance(s, ast.Try):
            entry = dict(env)
            self._block(s.body, env)
            mid = self._join(entry, env)
            outs = []
            e2 = dict(env)
            self._block(s.orelse, e2)
            outs.append(e2)
            for h in s.handlers:
                eh = dict(mid)
                if h.name:
                    eh[h.name] = UNKNOWN
                self._block(h.body, eh)
                outs.append(eh)
            j = outs[0]
            for o in outs[1:]:
                j = self._join(j, o)
            env.clear()
            env.update(j)
            self._block(s.finalbody, env)
        elif isinstance(s, (ast.FunctionDef, ast.ClassDef, ast.AsyncFunctionDef)):
            env[s.name] = UNKNOWN
        elif isinstance(s, ast.Return):
            self._record([s.value], env)
            if getattr(self, 'returns', None) is not None and s.value is not None:
                self.returns.append(self.kind(s.value, env))
        else:
            self._record([c for c in ast.iter_child_nodes(s) if isinstance(c, ast.expr)], env)


# =========================================================================================== callee raise summaries
class RaiseResolver:
    """May-raise summary of a call whose callee is resolvable *class-aware* to repository source (DESIGN section 6):
    the classes of the explicit `raise` statements of the callee plus ValueError for `int(x)`/`float(x)`.  Unresolved
    callees are left to the engine (unknown call = printed assumption)."""

    def __init__(self, mod):
        self.mod = mod
        self.cache = {}

    def _find(self, m2, q):
        try:
            return m2.find(q)[1]
        except (KeyError, IndexError):
            return None

    def _class_of_call(self, call):
        """`pkg.C.from_name(..)` (classmethod) or `pkg.C(..)` -> (module, 'C')."""
        if not isinstance(call, ast.Call):
            return None
        try:
            text = ast.unparse(call.func)
        except Exception:
            return None
        if '(' in text or '[' in text:
            return None
        r = source.resolve_alias(self.mod, text)
        if not r:
            return None
        m2, q = r
        parts = q.split('.')
        if q in m2.classes:
            return m2, q
        if len(parts) >= 2 and parts[0] in m2.classes and parts[1] in m2.classes[parts[0]].methods:
            if 'classmethod' in m2.classes[parts[0]].method_decorators(parts[1]):
                return m2, parts[0]
        return None

    def callee(self, call, fn):
        f = call.func
        try:
            text = ast.unparse(f)
        except Exception:
            return None
        root = paths.root_name(f)
        if root is None or root == 'self':
            return None
        if '(' not in text and '[' not in text:
            r = source.resolve_alias(self.mod, text)
            if r:
                m2, q = r
                node = self._find(m2, q) if q else None
                if node is not None:
                    return m2, q, node
        if isinstance(f, ast.Attribute) and isinstance(f.value, ast.Name):
            classes = set()
            for n in ast.walk(fn):
                if isinstance(n, ast.Assign) and any(isinstance(t, ast.Name) and t.id == f.value.id for t in n.targets):
                    c = self._class_of_call(n.value)
                    classes.add((c[0].dotted, c[1]) if c else None)
            if len(classes) == 1 and None not in classes:
                dotted, cname = next(iter(classes))
                m2 = source.ModuleInfo.get(dotted)
                node = self._find(m2, cname + '.' + f.attr)
                if node is not None:
                    return m2, cname + '.' + f.attr, node
        return None

    def raises(self, call, fn):
        r = self.callee(call, fn)
        if r is None:
            return None
        m2, q, node = r
        key = (m2.dotted, q)
        if key not in self.cache:
            out = set()
            local = {}
            for n in ast.walk(node):
                if isinstance(n, ast.Assign) and len(n.targets) == 1 and isinstance(n.targets[0], ast.Name) and isinstance(n.value, ast.Call):
                    local.setdefault(n.targets[0].id, set()).add(paths.last_name(n.value.func))
            for n in ast.walk(node):
                if isinstance(n, ast.Raise) and n.exc is not None:
                    if isinstance(n.exc, ast.Call):
                        out.add(paths.last_name(n.exc.func) or 'Exception')
                    elif isinstance(n.exc, ast.Name) and len(local.get(n.exc.id, ())) == 1:
                        out.add(next(iter(local[n.exc.id])) or 'Exception')
                    else:
                        out.add('Exception')
                elif (isinstance(n, ast.Call) and isinstance(n.func, ast.Name) and n.func.id in ('int', 'float')
                      and n.args and not isinstance(n.args[0], ast.Constant)):
                    out.add('ValueError')
            self.cache[key] = (q.split('.')[-1], '%s:%s' % (m2.dotted, q), sorted(out))
        return self.cache[key]


def build_hierarchy():
    h = dict(paths.BUILTIN_HIERARCHY)
    h.update(SQLA_HIERARCHY)
    for dotted in ('vizier._src.service.custom_errors', 'vizier._src.service.grpc_util'):
        if source.ModuleInfo.exists(dotted):
            m = source.ModuleInfo.get(dotted)
            for c in m.classes.values():
                if c.base_nodes:
                    b = paths.last_name(c.base_nodes[0])
                    if b:
                        h[c.name] = b
    return h


# =========================================================================================== layer 1: SQL methods
S1 = namedtuple('S1', 'locked pending caw commits wrote rolled tainted bad')


class SqlClient(paths.Client):
    def __init__(self, mod, cls, kf, resolver, hierarchy):
        self.mod, self.cls, self.kf, self.resolver = mod, cls, kf, resolver
        self.hierarchy = hierarchy
        self.methods = {k: v for k, v in cls.methods.items() if isinstance(v, ast.FunctionDef)}
        self.unknown = {}
        self.summaries_used = {}
        self.lock_is_plain = None

    def init_state(self):
        return S1(0, False, False, 0, False, False, False, frozenset())

    # ---- automaton
    def step(self, a, ev, consts, fr):
        k = ev.kind
        if k == 'acq':
            return a._replace(locked=min(a.locked + 1, 2))
        if k == 'rel':
            return a._replace(locked=max(a.locked - 1, 0))
        if k == 'conn':
            if a.locked:
                return a
            tags = {'unlocked_access'} | ({'unlocked_in_helper:' + fr.fn.name} if fr.depth > 0 else set())
            return a._replace(bad=a.bad | tags)
        if k == 'helper_call':
            return a
        if k == 'read':
            return a
        if k == 'write':
            bad = a.bad | {'commit_between_writes'} if a.caw else a.bad
            return a._replace(pending=True, wrote=True, bad=bad)
        if k == 'write_failed':
            # the failed statement itself has no effect; but if an earlier write of this method is pending, the
            # transaction is now a partial one ("tainted") until it is rolled back
            bad = a.bad | {'commit_between_writes'} if a.caw else a.bad
            return a._replace(bad=bad, tainted=a.tainted or a.pending)
        if k == 'commit':
            bad = a.bad | {'commit_after_failed_write'} if (a.tainted and a.pending) else a.bad
            return a._replace(commits=min(a.commits + 1, 2), caw=a.caw or a.pending, pending=False, tainted=False, bad=bad)
        if k == 'rollback':
            return a._replace(pending=False, rolled=True, tainted=False)
        if k == 'undecided':
            return a._replace(bad=a.bad | {'undecided:' + ev.data[0]})
        return a

    # ---- events
    def with_item(self, expr, fr):
        if is_self_attr(expr, '_lock'):
            return ([Event('acq', (), expr.lineno, 'acquire self._lock')],
                    [Event('rel', (), expr.lineno, 'release self._lock')])
        return (), ()

    def attribute(self, node, fr):
        if is_self_attr(node, '_connection'):
            return [Event('conn', (), node.lineno, 'access self._connection')]
        return ()

    def call(self, node, fr):
        f = node.func
        if isinstance(f, ast.Attribute) and is_self_attr(f.value, '_connection'):
            m = f.attr
            ln = node.lineno
            if m == 'execute':
                kinds = fr.data.get('kinds', {}).get(id(node), ([UNKNOWN], {}))
                k = kinds[0][0] if kinds[0] else kinds[1].get('statement', UNKNOWN)
                arg = paths._short(node.args[0], 30) if node.args else '?'
                if k == READ:
                    return paths.Emit([Event('read', (), ln, 'SQL read   execute(%s)' % arg)])
                if k in (WRITE, PARAM):
                    w = 'SQL write  execute(%s)%s' % (arg, '' if k == WRITE else ' [statement is a parameter of the helper]')
                    return paths.Fork([
                        paths.Branch([Event('write', (), ln, w)]),
                        paths.Branch([Event('write_failed', (), ln, w + ' FAILS (statement has no effect)')], 'IntegrityError', 'execute'),
                        paths.Branch([Event('write_failed', (), ln, w + ' FAILS (statement has no effect)')], 'OperationalError', 'execute'),
                    ])
                return paths.Emit([Event('undecided', ('statement class of execute(%s) at line %d is %s' % (arg, ln, k),), ln,
                                         'SQL ?      execute(%s): statement class not determined' % arg)])
            if m == 'commit':
                return paths.Emit([Event('commit', (), ln, 'COMMIT')])
            if m == 'rollback':
                return paths.Emit([Event('rollback', (), ln, 'ROLLBACK')])
            return paths.Emit([Event('undecided', ('unmodelled connection method %s at line %d' % (m, ln),), ln,
                                     'self._connection.%s(...) not modelled' % m)])
        if is_self_attr(f) and f.attr in self.methods:
            callee = self.methods[f.attr]
            params = [a.arg for a in callee.args.args[1:]]
            rec = fr.data.get('kinds', {}).get(id(node), ([], {}))
            env = {}
            for p, k in zip(params, rec[0]):
                env[p] = k
            for p, k in rec[1].items():
                env[p] = k
            for p in params:
                env.setdefault(p, UNKNOWN)
            data = {'kinds': KindFlow.analyse(self.kf_clone(), callee, env), 'top': fr.data.get('top')}
            return paths.Inline(callee, data, pre_events=[Event('helper_call', (f.attr,), node.lineno, 'call self.%s' % f.attr)])
        r = self.resolver.raises(node, fr.fn)
        if r is not None:
            name, where, classes = r
            if classes:
                self.summaries_used.setdefault(where, classes)
                return paths.Fork([paths.Branch([])] + [paths.Branch([], c, name) for c in classes])
            # resolved, but no explicit raise at depth 1: says nothing about nested calls -> treated as an unknown call
        return None

    def kf_clone(self):
        k = KindFlow.__new__(KindFlow)
        k.__dict__.update(self.kf.__dict__)
        k.returns = None
        return k

    def unknown_call(self, node, fr):
        self.unknown.setdefault(fr.data.get('top') or fr.qualname, set()).add(paths._short(node.func, 60))


def helper_param_kinds(client, cls, hname, hfn):
    """Statement class of each parameter of a private helper = join over all call sites `self.<helper>(..)` in the class."""
    params = [a.arg for a in hfn.args.args[1:]]
    seen = {p: set() for p in params}
    for mname, fn in cls.methods.items():
        if not isinstance(fn, ast.FunctionDef) or mname == hname:
            continue
        at = None
        for n in ast.walk(fn):
            if isinstance(n, ast.Call) and is_self_attr(n.func) and n.func.attr == hname:
                if at is None:
                    at = client.kf_clone().analyse(fn, {})
                pos, kw = at.get(id(n), ([], {}))
                for p, k in zip(params, pos):
                    seen[p].add(k)
                for p, k in kw.items():
                    if p in seen:
                        seen[p].add(k)
    return {p: (next(iter(ks)) if len(ks) == 1 and UNKNOWN not in ks else PARAM) for p, ks in seen.items()}


def sql_violations(name, outs, helper):
    """-> dict clause -> list of (tag, outcome); plus undecided reasons."""
    v = {'bracket': [], 'single_commit': [], 'lock': []}
    und = {'bracket': [], 'single_commit': [], 'lock': []}
    for o in outs:
        s = o.state
        tags = {'bracket': [], 'single_commit': [], 'lock': []}
        if helper:
            # a helper that rolls back somewhere promises "an exception leaves nothing pending"; a helper without any
            # rollback leaves transaction control to its callers (which inline its body), so nothing is demanded here.
            if helper == 'rolls_back' and o.kind == paths.RAISE and s.pending:
                tags['bracket'].append('helper_raises_without_rollback')
        else:
            if s.pending:
                tags['bracket'].append('pending_at_exit')
        if 'commit_between_writes' in s.bad:
            tags['bracket'].append('commit_between_writes')
        if 'commit_after_failed_write' in s.bad:
            tags['bracket'].append('commit_after_failed_write')
        if s.commits >= 2:
            tags['single_commit'].append('multiple_commits')
        for b in s.bad:
            if b == 'unlocked_access':
                tags['lock'].append(b)
            elif b.startswith('unlocked_in_helper:'):
                pass
            elif b.startswith('undecided:'):
                for c in ('bracket', 'single_commit'):
                    und[c].append(b[len('undecided:'):])
        for c, ts in tags.items():
            for t in ts:
                if o.approx:
                    und[c].append('%s only on a path with an undecided except-match' % t)
                else:
                    v[c].append((t, o))
    return v, und


def describe(o, tag=None):
    head = 'exit: %s%s' % (o.kind, (' ' + o.exc + ' (raised by ' + str(o.origin) + ')') if o.kind == paths.RAISE else '')
    lines = ['violation: %s' % tag] if tag else []
    lines.append(head)
    lines.append('automaton state at exit: %s' % (o.state,))
    lines.append('path (%d syntactic path(s) merged into this abstract outcome):' % o.n)
    lines += ['  ' + x for x in paths.format_trace(o)]
    return '\n'.join(lines)


def exits_summary(outs):
    d = {}
    for o in outs:
        k = 'return' if o.kind == paths.RETURN else 'raise ' + str(o.exc)
        d[k] = d.get(k, 0) + o.n
    return d


# =========================================================================================== layer 2: RPCs
S2 = namedtuple('S2', 'nw wm persisted dirty tpersisted op_open opened acked bad')


class RpcClient(paths.Client):
    def __init__(self, mod, cls, resolver, hierarchy, l1):
        self.mod, self.cls, self.resolver, self.hierarchy, self.l1 = mod, cls, resolver, hierarchy, l1
        self.methods = {k: v for k, v in cls.methods.items() if isinstance(v, ast.FunctionDef)}
        self.unknown = {}
        self.summaries_used = {}

    def init_state(self):
        e = frozenset()
        return S2(0, e, e, e, e, False, 0, False, e)

    def step(self, a, ev, consts, fr):
        k = ev.kind
        if k == 'ds':
            m, mutating, arg = ev.data
            if not mutating:
                return a
            bad = a.bad | {'write_after_ack'} if a.acked else a.bad
            a = a._replace(nw=min(a.nw + 1, 2), wm=a.wm | {m}, bad=bad)
            if arg:
                a = a._replace(persisted=a.persisted | {arg}, dirty=a.dirty - {arg})
                if m in TRIAL_WRITES:
                    a = a._replace(tpersisted=a.tpersisted | {arg})
            if m in OP_WRITES:
                done = dict(consts).get(arg + '.done') if arg else None
                if done is True:
                    a = a._replace(op_open=False, acked=True)
                else:
                    bad = set(a.bad)
                    if m.startswith('update'):
                        bad.add('op_rewritten_not_done')
                    if a.opened >= 1:
                        bad.add('second_open')
                    a = a._replace(op_open=True, opened=min(a.opened + 1, 2), bad=frozenset(bad))
            return a
        if k == 'ds_fail':
            m, mutating, clean = ev.data
            if not mutating:
                return a
            a = a._replace(wm=a.wm | {m})
            return a if clean else a._replace(nw=min(a.nw + 1, 2))
        if k == 'bind':
            n = ev.data[0]
            if n in a.persisted or n in a.dirty or n in a.tpersisted:
                return a._replace(persisted=a.persisted - {n}, dirty=a.dirty - {n}, tpersisted=a.tpersisted - {n})
            return a
        if k == 'mut':
            n = ev.data[0]
            if n in a.tpersisted:
                a = a._replace(bad=a.bad | {'trial_mutated_after_write'})
            if n in a.persisted:
                a = a._replace(dirty=a.dirty | {n})
            return a
        if k == 'undecided':
            return a._replace(bad=a.bad | {'undecided:' + ev.data[0]})
        return a

    def store(self, target, value, fr):
        if isinstance(target, ast.Name):
            return [Event('bind', (target.id,), target.lineno, 'bind %s' % target.id)]
        r = paths.root_name(target)
        if r and r != 'self':
            return [Event('mut', (r,), target.lineno, 'modify %s' % paths._short(target, 40))]
        return ()

    def call(self, node, fr):
        f = node.func
        if isinstance(f, ast.Attribute) and is_self_attr(f.value, 'datastore'):
            m, ln = f.attr, node.lineno
            info = self.l1.get(m)
            if info is None:
                return paths.Emit([Event('undecided', ('datastore method %s has no layer-1 summary' % m,), ln, 'datastore.%s ?' % m)])
            arg = node.args[0].id if node.args and isinstance(node.args[0], ast.Name) else None
            mut = info['may_write']
            label = 'datastore.%s(%s) [%s]' % (m, paths._short(node.args[0], 25) if node.args else '', 'WRITE' if mut else 'read')
            br = [paths.Branch([Event('ds', (m, mut, arg), ln, label)])]
            for c in info['raises']:
                br.append(paths.Branch([Event('ds_fail', (m, mut, info['clean_on_raise']), ln,
                                              label + ' raises %s%s' % (c, '' if not mut else (' (no effect: bracket proved)' if info['clean_on_raise'] else ' (bracket NOT proved: counted as a write)')))],
                                       c, 'datastore.' + m))
            return paths.Fork(br)
        if is_self_attr(f) and f.attr in self.methods:
            return paths.Inline(self.methods[f.attr], {'top': fr.data.get('top')})
        if isinstance(f, ast.Attribute) and f.attr in MUTATORS:
            r = paths.root_name(f.value)
            if r and r != 'self' and not (isinstance(f.value, ast.Name) and f.value.id in self.mod.imports):
                return paths.Emit([Event('mut', (r,), node.lineno, 'modify %s' % paths._short(f, 40))])
        r = self.resolver.raises(node, fr.fn)
        if r is not None:
            name, where, classes = r
            if classes:
                self.summaries_used.setdefault(where, classes)
                return paths.Fork([paths.Branch([])] + [paths.Branch([], c, name) for c in classes])
            # resolved, but no explicit raise at depth 1: says nothing about nested calls -> treated as an unknown call
        return None

    def unknown_call(self, node, fr):
        self.unknown.setdefault(fr.data.get('top') or fr.qualname, set()).add(paths._short(node.func, 60))


# =========================================================================================== replay plumbing
def run_driver(args, out_name, timeout=900):
    os.makedirs(OUTDIR, exist_ok=True)
    out = os.path.join(OUTDIR, out_name)
    if os.path.exists(out):
        os.remove(out)
    cmd = [VENV_PY, DRIVER] + args + ['--out', out]
    env = dict(os.environ)
    env['VERIF_REPO'] = source.REPO
    return subprocess.Popen(cmd, stdout=subprocess.PIPE, stderr=subprocess.PIPE, text=True, env=env, cwd=report.VERIF), out, cmd, timeout


def wait_driver(h):
    p, out, cmd, timeout = h
    try:
        so, se = p.communicate(timeout=timeout)
    except subprocess.TimeoutExpired:
        p.kill()
        return None, 'timeout: ' + ' '.join(cmd)
    if not os.path.exists(out):
        return None, 'driver produced no output (rc=%s): %s %s' % (p.returncode, so[-300:], se[-600:])
    try:
        return json.load(open(out)), (so.strip().splitlines() or [''])[-1]
    except Exception as e:
        return None, 'unreadable driver output: %r' % (e,)


def confirm_sql_dynamic(method, tag, o):
    """Run the real method on sqlite over the scenario battery; True iff the same violation class is observed."""
    doc, msg = wait_driver(run_driver(['bracket', '--method', method], 'bracket_%s.json' % method, 300))
    if doc is None:
        return None, {'driver_error': msg}
    hits = []
    for s in doc.get('scenarios', []):
        if (tag == 'pending_at_exit' and (s['pending_at_exit'] or s['automaton_dirty_at_exit'])
                and (s['exit'] == ('raise' if o.kind == paths.RAISE else 'return'))):
            hits.append(s)
        elif tag == 'commit_between_writes' and s['commit_between_writes']:
            hits.append(s)
        elif tag == 'commit_after_failed_write' and s.get('commit_after_failed_write'):
            hits.append(s)
        elif tag == 'multiple_commits' and s['commits'] >= 2:
            hits.append(s)
        elif tag.startswith('unlocked') and s['unlocked_access']:
            hits.append(s)
    if not hits:
        return None, {'driver': 'bracket --method %s' % method, 'scenarios_run': [s['scenario'] for s in doc.get('scenarios', [])],
                      'note': 'no scenario of the battery drives the real method down the violating path'}
    exact = [s for s in hits if o.kind != paths.RAISE or s.get('exception') == o.exc] or hits
    s = exact[0]
    return True, {'driver': '%s %s bracket --method %s' % (VENV_PY, DRIVER, method), 'scenario': s['scenario'],
                  'observed_exit': s['exit'], 'observed_exception': s['exception'], 'observed_sql_trace': [t['ev'] for t in s['trace']],
                  'pending_writes_at_exit_seen_from_second_connection': s['pending_at_exit'],
                  'write_without_commit_or_rollback_in_the_run_time_sql_trace': s['automaton_dirty_at_exit'],
                  'commit_between_writes': s['commit_between_writes'], 'commits': s['commits'], 'unlocked_access': s['unlocked_access']}


def confirm_rpc_crash(rpc):
    """`rpc` may be a comma separated list; the first diverging crash point of any of them is the reproduction."""
    doc, msg = wait_driver(run_driver(['crash-enum', '--rpc', rpc, '--points', 'between'], 'enum_%s.json' % rpc.replace(',', '_'), 900))
    if doc is None:
        return None, {'driver_error': msg}
    errors = {}
    for r in rpc.split(','):
        info = doc['rpcs'].get(r, {})
        if info.get('error'):
            errors[r] = info['error']
        bad = [p for p in info.get('points', []) if p.get('problems')]
        if bad:
            return True, {'driver': '%s %s crash-enum --rpc %s' % (VENV_PY, DRIVER, r), 'rpc': r, 'crash_point': bad[0]['point'], 'k': bad[0]['k'],
                          'problems_after_restart': bad[0]['problems'], 'diverging_points': len(bad), 'crash_points': info.get('crash_points'),
                          'all_diverging_points': [(p['k'], p['point']) for p in bad][:20]}
    return None, {'driver': 'crash-enum --rpc %s --points between' % rpc, 'info': errors or None,
                  'note': 'no crash point (after each write statement / commit, and after the acknowledged return) diverged on the prepared history. '
                          'For an autocommit request this can mean it is masked at run time: with StaticPool one DBAPI connection is shared and its '
                          'isolation level is reset when another Connection (e.g. the one of create_all) is returned to the pool'}


# =========================================================================================== engine configuration
# The bracket obligations prove "the statements between two commits are all-or-nothing" *provided* the statements
# executed on `self._connection` between two commit()/rollback() calls form ONE database transaction.  That is a
# property of how the engine / connection is configured; it is decided here on the real AST of every constructor
# path (C05.engine.transactional, C05.engine.single_connection) instead of being assumed.
ENGINE_FACTORIES = ('create_engine', 'create_async_engine')
SESSION_FACTORIES = ('sessionmaker', 'Session', 'scoped_session', 'async_sessionmaker')


def _scope_modules():
    """Non-test modules under vizier/_src/service plus every non-test repo module that builds an engine or a SQLDataStore."""
    root = os.path.join(source.REPO, 'vizier')
    out = []
    for dp, dn, fn in os.walk(root):
        dn[:] = sorted(d for d in dn if d != '__pycache__')
        for f in sorted(fn):
            if not f.endswith('.py') or f.endswith('_test.py') or f.startswith('test_'):
                continue
            full = os.path.join(dp, f)
            rel = os.path.relpath(full, source.REPO)
            in_service = rel.startswith(os.path.join('vizier', '_src', 'service') + os.sep)
            if not in_service:
                try:
                    txt = open(full, encoding='utf-8', errors='replace').read()
                except OSError:
                    continue
                if not any(k in txt for k in ('create_engine', SQL_CLASS + '(', 'sessionmaker', 'engine_from_config')):
                    continue
            out.append(source.file_to_dotted(rel))
    return out


def _full_name(mod, func):
    """Dotted name of a callee through the module's import table: `sqla.create_engine` -> 'sqlalchemy.create_engine'."""
    try:
        text = ast.unparse(func)
    except Exception:
        return None
    if '(' in text or '[' in text:
        return None
    parts = text.split('.')
    if parts[0] in mod.imports:
        return '.'.join([mod.imports[parts[0]]] + parts[1:])
    return None


def _owner_map(tree):
    """id(node) -> innermost enclosing function definition."""
    owner = {}

    def visit(node, fn):
        for ch in ast.iter_child_nodes(node):
            owner[id(ch)] = fn
            visit(ch, ch if isinstance(ch, (ast.FunctionDef, ast.AsyncFunctionDef)) else fn)
    visit(tree, None)
    return owner


class EngineScan:
    def __init__(self):
        self.violations, self.undecided, self.assumptions, self.sites = [], [], [], []

    def _where(self, mod, node):
        return '%s:%d' % (os.path.relpath(mod.path, source.REPO), node.lineno)

    @staticmethod
    def _assigned_values(name, fn, mod):
        for sc in ([fn] if fn is not None else []) + [None]:
            vals = []
            nodes = ast.walk(sc) if sc is not None else mod.tree.body
            for n in nodes:
                if isinstance(n, ast.Assign) and any(isinstance(t, ast.Name) and t.id == name for t in n.targets):
                    vals.append(n.value)
                elif isinstance(n, ast.AnnAssign) and isinstance(n.target, ast.Name) and n.target.id == name and n.value is not None:
                    vals.append(n.value)
                elif isinstance(n, ast.AugAssign) and isinstance(n.target, ast.Name) and n.target.id == name:
                    vals.append(None)
            if vals:
                return vals
        return []

    def _resolve(self, node, fn, mod, depth=0):
        """Constant value of an expression: a literal, or a local/module name with exactly one literal assignment."""
        if isinstance(node, ast.Constant):
            return True, node.value
        if isinstance(node, ast.Name) and depth < 4:
            vals = self._assigned_values(node.id, fn, mod)
            if len(vals) == 1 and vals[0] is not None:
                return self._resolve(vals[0], fn, mod, depth + 1)
        return False, None

    def _resolve_dict(self, node, fn, mod):
        if isinstance(node, ast.Dict):
            return node
        if isinstance(node, ast.Call) and isinstance(node.func, ast.Name) and node.func.id == 'dict' and not node.args:
            return ast.Dict(keys=[ast.Constant(k.arg) if k.arg else None for k in node.keywords], values=[k.value for k in node.keywords])
        if isinstance(node, ast.Name):
            vals = self._assigned_values(node.id, fn, mod)
            scope = fn if fn is not None else mod.tree
            muts = [n for n in ast.walk(scope) if isinstance(n, (ast.Subscript, ast.Attribute)) and isinstance(n.value, ast.Name)
                    and n.value.id == node.id and (isinstance(n.ctx, ast.Store) or (isinstance(n, ast.Attribute) and n.attr in ('update', 'setdefault', 'pop')))]
            if len(vals) == 1 and vals[0] is not None and not muts:
                return self._resolve_dict(vals[0], fn, mod)
        return None

    def _isolation(self, node, fn, mod, what, dbapi):
        """dbapi=True for a sqlite3-level isolation_level (None == autocommit mode)."""
        ok, v = self._resolve(node, fn, mod)
        where = self._where(mod, node)
        if not ok:
            self.undecided.append('%s: %s is not a constant (%s)' % (where, what, paths._short(node, 50)))
        elif isinstance(v, str) and v.replace('_', '').replace(' ', '').upper() == 'AUTOCOMMIT':
            self.violations.append('%s: %s = %r selects autocommit: every statement is durable on its own and commit()/rollback() do nothing'
                                   % (where, what, v))
        elif dbapi and v is None:
            self.violations.append('%s: %s = None puts the sqlite3 connection in autocommit mode (no implicit BEGIN)' % (where, what))

    def _flag(self, node, fn, mod, what, bad_value):
        ok, v = self._resolve(node, fn, mod)
        where = self._where(mod, node)
        if not ok:
            self.undecided.append('%s: %s is not a constant (%s)' % (where, what, paths._short(node, 50)))
        elif isinstance(v, (bool, int)) and bool(v) is bad_value:
            self.violations.append('%s: %s = %r selects autocommit / legacy non-transactional execution' % (where, what, v))

    def _dict_arg(self, node, fn, mod, what, dbapi):
        d = self._resolve_dict(node, fn, mod)
        where = self._where(mod, node)
        if d is None:
            self.assumptions.append('%s: %s (%s) is not a literal dict: assumed not to select autocommit' % (where, what, paths._short(node, 40)))
            return
        for k, v in zip(d.keys, d.values):
            if k is None:
                self.assumptions.append('%s: %s merges another mapping (**): assumed not to select autocommit' % (where, what))
                continue
            okk, kv = self._resolve(k, fn, mod)
            if not okk:
                self.assumptions.append('%s: %s has a non-constant key: assumed not to be an isolation option' % (where, what))
            elif kv == 'isolation_level':
                self._isolation(v, fn, mod, "%s['isolation_level']" % what, dbapi)
            elif kv == 'autocommit':
                self._flag(v, fn, mod, "%s['autocommit']" % what, True)

    def _creator(self, node, fn, mod, where):
        body = None
        if isinstance(node, ast.Lambda):
            body = node.body
        elif isinstance(node, ast.Name):
            cands = [n for n in ast.walk(mod.tree) if isinstance(n, ast.FunctionDef) and n.name == node.id]
            body = cands[0] if len(cands) == 1 else None
        if body is None:
            self.assumptions.append('%s: creator=%s not resolvable: assumed to return a transactional DBAPI connection' % (where, paths._short(node, 40)))
            return
        inner = body if isinstance(body, ast.FunctionDef) else fn
        for n in ast.walk(body):
            if isinstance(n, ast.Call):
                for kw in n.keywords:
                    if kw.arg == 'isolation_level':
                        self._isolation(kw.value, inner, mod, 'creator: connect(isolation_level)', True)
                    elif kw.arg == 'autocommit':
                        self._flag(kw.value, inner, mod, 'creator: connect(autocommit)', True)

    def _engine_factory(self, n, fn, mod, last, where):
        for kw in n.keywords:
            if kw.arg is None:
                self.assumptions.append('%s: **%s flows into %s: assumed to carry no autocommit option' % (where, paths._short(kw.value, 30), last))
            elif kw.arg == 'isolation_level':
                self._isolation(kw.value, fn, mod, '%s(isolation_level)' % last, False)
            elif kw.arg == 'execution_options':
                self._dict_arg(kw.value, fn, mod, '%s(execution_options)' % last, False)
            elif kw.arg == 'connect_args':
                self._dict_arg(kw.value, fn, mod, '%s(connect_args)' % last, True)
            elif kw.arg == 'autocommit':
                self._flag(kw.value, fn, mod, '%s(autocommit)' % last, True)
            elif kw.arg == 'future':
                self._flag(kw.value, fn, mod, '%s(future) [False = SQLAlchemy 1.x legacy autocommit of DML]' % last, False)
            elif kw.arg == 'creator':
                self._creator(kw.value, fn, mod, where)
        for a in n.args:
            if isinstance(a, ast.Starred):
                self.assumptions.append('%s: *%s flows into %s: assumed to carry no autocommit option' % (where, paths._short(a.value, 30), last))

    def scan(self):
        n_engine_sites = 0
        for dotted in _scope_modules():
            try:
                mod = source.ModuleInfo.get(dotted)
            except (FileNotFoundError, SyntaxError, UnicodeDecodeError) as e:
                self.undecided.append('%s: cannot be parsed (%r)' % (dotted, e))
                continue
            owner = _owner_map(mod.tree)
            for n in ast.walk(mod.tree):
                fn = owner.get(id(n))
                if isinstance(n, ast.Call):
                    full = _full_name(mod, n.func) or ''
                    last = paths.last_name(n.func)
                    where = self._where(mod, n)
                    is_sqla = full.split('.')[0] == 'sqlalchemy'
                    if is_sqla and last in ENGINE_FACTORIES:
                        n_engine_sites += 1
                        self.sites.append('%s %s(...)' % (where, paths._short(n.func, 40)))
                        self._engine_factory(n, fn, mod, last, where)
                    elif is_sqla and last == 'engine_from_config':
                        n_engine_sites += 1
                        self.sites.append('%s engine_from_config(...)' % where)
                        self.assumptions.append('%s: engine_from_config(...): the configuration mapping is assumed to carry no autocommit option' % where)
                    elif is_sqla and last in SESSION_FACTORIES:
                        self.sites.append('%s %s(...)' % (where, last))
                        for kw in n.keywords:
                            if kw.arg == 'autocommit':
                                self._flag(kw.value, fn, mod, '%s(autocommit)' % last, True)
                            elif kw.arg is None:
                                self.assumptions.append('%s: **%s flows into %s: assumed to carry no autocommit option' % (where, paths._short(kw.value, 30), last))
                    elif isinstance(n.func, ast.Attribute) and n.func.attr == 'execution_options':
                        self.sites.append('%s %s(...)' % (where, paths._short(n.func, 50)))
                        for kw in n.keywords:
                            if kw.arg == 'isolation_level':
                                self._isolation(kw.value, fn, mod, 'execution_options(isolation_level)', False)
                            elif kw.arg == 'autocommit':
                                self._flag(kw.value, fn, mod, 'execution_options(autocommit)', True)
                            elif kw.arg is None:
                                self.assumptions.append('%s: **%s flows into execution_options: assumed to carry no autocommit option'
                                                        % (where, paths._short(kw.value, 30)))
                    elif last == SQL_CLASS and (full.endswith('.' + SQL_CLASS) or (isinstance(n.func, ast.Name) and n.func.id in mod.classes)):
                        arg = n.args[0] if n.args else next((k.value for k in n.keywords if k.arg == 'engine'), None)
                        src_ok = False
                        if isinstance(arg, ast.Call) and paths.last_name(arg.func) in ENGINE_FACTORIES:
                            src_ok = True
                        elif isinstance(arg, ast.Name):
                            vals = self._assigned_values(arg.id, fn, mod) if fn is not None else []
                            src_ok = bool(vals) and all(isinstance(v, ast.Call) and paths.last_name(v.func) in ENGINE_FACTORIES for v in vals)
                        self.sites.append('%s %s(%s)' % (where, SQL_CLASS, paths._short(arg, 30) if arg is not None else ''))
                        if not src_ok:
                            self.assumptions.append('%s: the engine handed to %s is not built in this function: assumed transactional' % (where, SQL_CLASS))
                elif isinstance(n, (ast.Assign, ast.AnnAssign, ast.AugAssign)):
                    targets = n.targets if isinstance(n, ast.Assign) else [n.target]
                    for t in targets:
                        if isinstance(t, ast.Attribute) and t.attr in ('isolation_level', 'autocommit') and n.value is not None:
                            self.sites.append('%s %s = ...' % (self._where(mod, n), paths._short(t, 50)))
                            if t.attr == 'isolation_level':
                                self._isolation(n.value, fn, mod, paths._short(t, 50), True)
                            else:
                                self._flag(n.value, fn, mod, paths._short(t, 50), True)
        return n_engine_sites


def connection_scan(sql_cls):
    """`self._connection` is bound once, in __init__, to `<engine>.connect()`; no method opens another connection."""
    und, sites = [], []
    for mname, fn in sql_cls.methods.items():
        if not isinstance(fn, ast.FunctionDef):
            continue
        for n in ast.walk(fn):
            if isinstance(n, (ast.Assign, ast.AnnAssign)):
                targets = n.targets if isinstance(n, ast.Assign) else [n.target]
                for t in targets:
                    if is_self_attr(t, '_connection') and n.value is not None:
                        v = n.value
                        sites.append('%s line %d: self._connection = %s' % (mname, n.lineno, paths._short(v, 60)))
                        # `<expr>.connect()` optionally followed by `.execution_options(..)` (whose arguments the engine scan judges)
                        while isinstance(v, ast.Call) and isinstance(v.func, ast.Attribute) and v.func.attr == 'execution_options':
                            v = v.func.value
                        good = isinstance(v, ast.Call) and isinstance(v.func, ast.Attribute) and v.func.attr == 'connect' and not v.args and not v.keywords
                        if not good:
                            und.append('%s line %d: self._connection obtained by an unmodelled expression %s' % (mname, n.lineno, paths._short(n.value, 60)))
                        elif mname != '__init__':
                            und.append('%s line %d: self._connection re-bound outside __init__ (pending writes of the old connection are not modelled)'
                                       % (mname, n.lineno))
            if (mname != '__init__' and isinstance(n, ast.Call) and isinstance(n.func, ast.Attribute) and is_self_attr(n.func.value, '_engine')
                    and n.func.attr in ('connect', 'begin', 'execute', 'raw_connection', 'execution_options')):
                und.append('%s line %d: self._engine.%s(...) opens/uses another connection whose statements are not modelled' % (mname, n.lineno, n.func.attr))
    if not sites:
        und.append('no assignment to self._connection found in %s' % SQL_CLASS)
    return und, sites


def engine_obligations(chk, sql_cls):
    t0 = time.time()
    fq = 'create_engine / connect / execution_options call sites reaching %s' % SQL_CLASS
    sc = EngineScan()
    try:
        n_sites = sc.scan()
        cund, csites = connection_scan(sql_cls)
    except Exception as e:      # a scan failure is never a violation
        chk.obligation('C05.engine.transactional', fq, 'frame', report.UNDECIDED, time.time() - t0,
                       detail='engine configuration scan failed: %r' % (e,))
        return
    for a in sc.assumptions:
        chk.assume('engine configuration: ' + a)
    chk.assume('SQLAlchemy >= 2.0 semantics: a Connection without an AUTOCOMMIT isolation level begins a transaction at its first statement '
               '(autobegin) and keeps it until commit()/rollback(); the database URL string carries no DBAPI isolation option')
    detail = {'sites_inspected': sc.sites, 'engine_construction_sites': n_sites, 'assumptions': sc.assumptions}
    dt = time.time() - t0
    if sc.violations:
        rep, replay = confirm_rpc_crash('DeleteStudy,UpdateMetadata')
        chk.obligation('C05.engine.transactional', fq, 'frame', report.VIOLATED, dt / 2,
                       detail={'violations': sc.violations, **detail},
                       model='\n'.join(sc.violations) + '\nconsequence: the statements of one datastore method are separate transactions; a crash between '
                             'two of them tears delete_study (study row / trial rows / operation rows) and update_metadata (study row / one row per trial); '
                             'the bracket obligations of layer 1 hold only under this obligation.',
                       replay={'replay': replay}, reproduced=rep)
    elif sc.undecided:
        chk.obligation('C05.engine.transactional', fq, 'frame', report.UNDECIDED, dt / 2, detail='; '.join(sc.undecided)[:800])
    elif n_sites == 0:
        chk.obligation('C05.engine.transactional', fq, 'frame', report.UNDECIDED, dt / 2,
                       detail='no create_engine call site found in the repository: how the engine of %s is configured is not visible' % SQL_CLASS)
    else:
        chk.obligation('C05.engine.transactional', fq, 'frame', report.PROVED, dt / 2, detail=detail)
    if cund:
        chk.obligation('C05.engine.single_connection', '%s (all methods)' % SQL_CLASS, 'frame', report.UNDECIDED, dt / 2, detail='; '.join(cund)[:800])
    else:
        chk.obligation('C05.engine.single_connection', '%s (all methods)' % SQL_CLASS, 'frame', report.PROVED, dt / 2,
                       detail={'bindings': csites, 'statement': 'self._connection is bound once, in __init__, to <engine>.connect(); no other '
                                                                'method opens or uses another connection of self._engine'})


# =========================================================================================== main
def main(tier):
    chk = report.Check('C05', tier, level='proof',
                       technique='exhaustive path analysis of the real AST against transaction-bracket / datastore-call safety '
                                 'automata (loops by fixed point of the abstract state, helpers inlined); kill-and-reopen replay as '
                                 'bounded stand-in')
    chk.trust('pyvc.paths path engine and the C05 automata (contracts/c05.py)')
    chk.trust('SQLite: commit is atomic and durable, rollback discards every pending statement, a failing statement has no effect')
    chk.trust('SQLAlchemy statement effect classes: select/exists read, insert/update/delete write; builder methods keep the class; '
              'IntegrityError < DatabaseError')
    chk.assume('all syntactic paths are treated as feasible except branches decided by literal constants assigned to locals')
    chk.assume('environmental DatabaseError from a SELECT is outside the property (a crash is not an exception): reads are not forked')
    chk.assume('a call that cannot be resolved class-aware to repository source has no SQL/datastore effect and does not raise, except '
               'the classes an enclosing try has a handler for (listed per method in the evidence under unknown_calls)')
    chk.assume('vz.metadata_util.merge_study_metadata / merge_trial_metadata and proto (de)serialisation do not raise')
    chk.assume('datastore methods do not modify their arguments (the SQL methods only read .name and serialise)')
    chk.assume('SQLDataStore.__init__ (create_all on an existing file) is idempotent; exercised only by the thorough replay')

    findings = {f['obligation']: f for f in chk.findings if f.get('status', 'open') == 'open'}
    # start the witness replays of the recorded findings right away (they run while the static analysis does)
    pending = {}
    if 'C05.update_metadata.bracket' in findings:
        pending['f7'] = run_driver(['finding7'], 'finding7.json', 300)
    if 'C05.SuggestTrials.usable_after_crash' in findings:
        pending['f15'] = run_driver(['finding15'], 'finding15.json', 300)

    try:
        sql_mod = source.ModuleInfo.get(SQL_MOD)
        svc_mod = source.ModuleInfo.get(SVC_MOD)
        sql_cls = sql_mod.classes[SQL_CLASS]
        svc_cls = svc_mod.classes[SVC_CLASS]
    except (KeyError, FileNotFoundError) as e:
        chk.error('extract', 'class under contract not found: %r' % (e,))
        for h in pending.values():
            h[0].kill()
        return chk.finish(min_obligations=80)
    hierarchy = build_hierarchy()

    # ------------------------------------------------------------------ layer 0: the connection is transactional
    chk.function(SVC_MOD, '%s.__init__' % SVC_CLASS)
    chk.function(SQL_MOD, '%s.__init__' % SQL_CLASS)
    engine_obligations(chk, sql_cls)

    # ------------------------------------------------------------------ layer 1
    kf = KindFlow(sql_mod, sql_cls)
    sql_client = SqlClient(sql_mod, sql_cls, kf, RaiseResolver(sql_mod), hierarchy)
    l1 = {}
    helper_call_sites = {}
    helper_envs = {}
    sql_results = {}
    for name, fn in sql_cls.methods.items():
        if not isinstance(fn, ast.FunctionDef) or (name.startswith('__') and name.endswith('__')):
            continue
        helper = name.startswith('_')
        chk.function(SQL_MOD, '%s.%s' % (SQL_CLASS, name))
        t0 = time.time()
        if helper:
            helper = 'rolls_back' if (name == '_write_or_rollback' or any(
                isinstance(n, ast.Call) and isinstance(n.func, ast.Attribute) and n.func.attr == 'rollback' and is_self_attr(n.func.value, '_connection')
                for n in ast.walk(fn))) else 'plain'
        try:
            penv = helper_param_kinds(sql_client, sql_cls, name, fn) if helper else {}
            helper_envs[name] = penv
            data = {'kinds': sql_client.kf_clone().analyse(fn, penv), 'top': name}
            init = S1(1, True, False, 0, False, False, False, frozenset()) if helper else None
            outs = paths.Engine(sql_client).run(fn, '%s.%s' % (SQL_CLASS, name), data, init)
            sql_results[name] = (outs, None, time.time() - t0, helper)
            for o in outs:
                for b in o.state.bad:
                    if b.startswith('unlocked_in_helper:'):
                        helper_call_sites.setdefault(b.split(':', 1)[1], []).append((name, o))
        except paths.Unsupported as e:
            sql_results[name] = (None, str(e), time.time() - t0, helper)

    for name, (outs, err, dt, helper) in sql_results.items():
        fq = '%s.%s' % (SQL_CLASS, name)
        if outs is None:
            for clause in ('bracket', 'single_commit', 'lock'):
                chk.obligation('C05.%s.%s' % (name, clause), fq, 'paths', report.UNDECIDED, dt, detail='unsupported: ' + err)
            continue
        v, und = sql_violations(name, outs, helper)
        if helper:      # a call site without the lock violates the helper's lock obligation as well
            v['lock'] += [('called_without_lock_from:' + caller, o) for caller, o in helper_call_sites.get(name, [])]
        npaths = sum(o.n for o in outs)
        detail = {'paths': npaths, 'abstract_outcomes': len(outs), 'exits': exits_summary(outs),
                  'unknown_calls': sorted(sql_client.unknown.get(name, ()))}
        if helper:
            detail['helper_contract'] = ('analysed with the lock held, a pending write of the caller and the statement classes of its call sites %s; '
                                         'callers inline this body. %s' % (helper_envs.get(name), 'Contract: every exceptional exit has rolled back.' if helper == 'rolls_back'
                                                                           else 'No rollback inside: transaction control is left to the callers.'))
        bracket_proved = False
        for clause in ('bracket', 'single_commit', 'lock'):
            oname = 'C05.%s.%s' % (name, clause)
            viol = v[clause]
            if und[clause] and not viol:
                chk.obligation(oname, fq, 'paths', report.UNDECIDED, dt / 3, detail='; '.join(sorted(set(und[clause])))[:600])
                continue
            if not viol:
                chk.obligation(oname, fq, 'paths', report.PROVED, dt / 3, detail=detail)
                if clause == 'bracket':
                    bracket_proved = True
                continue
            # known finding?  (only for exactly the recorded witness class; everything else stays a violation)
            f = findings.get(oname)
            known, other = [], viol
            if f is not None:
                wc = f.get('witness_class', {})
                known = [(t, o) for t, o in viol if t == wc.get('violation') and o.kind == wc.get('exit')
                         and o.exc == wc.get('exception') and o.origin == wc.get('origin')]
                other = [(t, o) for t, o in viol if (t, o) not in known]
            if known and f is not None:
                doc, msg = wait_driver(pending.pop('f7')) if 'f7' in pending else (None, 'witness replay not started')
                if doc is None or not doc.get('reproduced'):
                    # a stale entry suppresses nothing: plain note, and the statically found exits are reported like any other
                    chk.note('known finding for %s is stale (its witness did not reproduce on the real code: %s); it suppresses nothing.'
                             % (oname, str(msg)[:200]))
                    known, other = [], viol
                else:
                    chk.obligation(oname, fq, 'paths', report.KNOWN, dt / 3, finding=f['what'],
                                   detail={'witness_replay': doc['results'], 'violating_outcomes_in_witness_class': len(known),
                                           'example_path': paths.format_trace(known[0][1]), **detail})
                    if not other:
                        chk.obligation(oname + '.residual', fq, 'paths', report.PROVED, dt / 3,
                                       detail='every exit of %s other than "%s raised by %s with a pending write" is bracketed (%d paths)'
                                              % (name, wc.get('exception'), wc.get('origin'), npaths))
            if other:
                tag, o = other[0]
                rep, replay = confirm_sql_dynamic(name, tag, o) if not helper else (None, {'note': 'helper: see the callers'})
                oname2 = oname if not (known and f is not None) else oname + '.residual'
                chk.obligation(oname2, fq, 'paths', report.VIOLATED, dt / 3,
                               detail={'violations': sorted({t for t, _ in other}), 'violating_outcomes': len(other), **detail},
                               model='\n\n'.join(describe(o2, t2) for t2, o2 in other[:4]),
                               replay={'replay': replay}, reproduced=rep)
        l1[name] = {'may_write': any(o.state.wrote for o in outs),
                    'raises': sorted({o.exc for o in outs if o.kind == paths.RAISE}),
                    'clean_on_raise': bracket_proved}

    if sql_client.summaries_used:
        chk.note('callee raise summaries derived from source: %s.' % json.dumps(sql_client.summaries_used, sort_keys=True))

    # ------------------------------------------------------------------ layer 2
    rpc_client = RpcClient(svc_mod, svc_cls, RaiseResolver(svc_mod), hierarchy, l1)
    rpcs = [n for n, fn in svc_cls.methods.items() if isinstance(fn, ast.FunctionDef) and n[:1].isupper()]
    for rpc in SINGLE_RESOURCE + MULTI_WRITE:
        if rpc not in rpcs:
            chk.error('extract %s' % rpc, 'RPC %s.%s not found in the current tree' % (SVC_CLASS, rpc))
    f15 = findings.get('C05.SuggestTrials.usable_after_crash')
    for rpc in rpcs:
        fq = '%s.%s' % (SVC_CLASS, rpc)
        chk.function(SVC_MOD, fq)
        t0 = time.time()
        try:
            outs = paths.Engine(rpc_client).run(svc_cls.methods[rpc], fq, {'top': rpc})
        except paths.Unsupported as e:
            chk.obligation('C05.%s.paths' % rpc, fq, 'paths', report.UNDECIDED, time.time() - t0, detail='unsupported: %s' % e)
            continue
        dt = time.time() - t0
        npaths = sum(o.n for o in outs)
        und = sorted({b[len('undecided:'):] for o in outs for b in o.state.bad if b.startswith('undecided:')})
        detail = {'paths': npaths, 'abstract_outcomes': len(outs), 'exits': exits_summary(outs),
                  'mutating_datastore_methods_called': sorted({m for o in outs for m in o.state.wm}),
                  'unknown_calls': sorted(rpc_client.unknown.get(rpc, ()))}

        def decide(oname, bad_outs, tag, confirm=None, n_parts=1):
            definite = sorted([o for o in bad_outs if not o.approx], key=lambda o: (o.kind != paths.RETURN, len(paths.trace_list(o.trace))))
            if und and not definite:
                chk.obligation(oname, fq, 'paths', report.UNDECIDED, dt / n_parts, detail='; '.join(und)[:600])
            elif not bad_outs:
                chk.obligation(oname, fq, 'paths', report.PROVED, dt / n_parts, detail=detail)
            elif not definite:
                chk.obligation(oname, fq, 'paths', report.UNDECIDED, dt / n_parts,
                               detail='%s only on paths with an undecided except-match' % tag)
            else:
                rep, replay = confirm() if confirm else (None, None)
                chk.obligation(oname, fq, 'paths', report.VIOLATED, dt / n_parts, detail={'violation': tag, 'violating_outcomes': len(definite), **detail},
                               model='\n\n'.join(describe(o, tag) for o in definite[:3]), replay={'replay': replay}, reproduced=rep)

        durable_bad = [o for o in outs if o.kind == paths.RETURN and o.state.dirty]
        if rpc in SINGLE_RESOURCE:
            decide('C05.%s.single_write' % rpc, [o for o in outs if o.state.nw >= 2], 'more than one mutating datastore call on one path',
                   confirm=lambda rpc=rpc: confirm_rpc_crash(rpc), n_parts=2)
            decide('C05.%s.acked_is_durable' % rpc, durable_bad, 'object modified after it was written and returned without being written again', n_parts=2)
        elif rpc == 'SuggestTrials':
            opened = sorted([o for o in outs if o.state.opened >= 1], key=lambda o: (o.kind != paths.RETURN, len(paths.trace_list(o.trace))))
            oname = 'C05.SuggestTrials.usable_after_crash'
            if not opened:
                decide(oname, [], '', n_parts=6)
            elif f15 is not None and not und:
                doc, msg = wait_driver(pending.pop('f15')) if 'f15' in pending else (None, 'witness replay not started')
                if doc is None or not doc.get('reproduced'):
                    chk.note('known finding for %s is stale (its witness did not reproduce on the real code: %s); it suppresses nothing.'
                             % (oname, str(msg)[:200]))
                    decide(oname, opened, 'a not-done suggestion operation is committed before the remaining writes: a crash there wedges the client',
                           confirm=None, n_parts=6)
                else:
                    chk.obligation(oname, fq, 'paths', report.KNOWN, dt / 6, finding=f15['what'],
                                   detail={'witness_replay': {k: doc[k] for k in ('child_exit', 'same_client_ops', 'other_client_op', 'study_readable_after_restart')},
                                           'paths_that_commit_a_not_done_operation': sum(o.n for o in opened),
                                           'example_path': paths.format_trace(opened[0]), **detail})
            else:
                decide(oname, opened, 'a not-done suggestion operation is committed before the remaining writes: a crash there wedges the client',
                       confirm=lambda: _confirm_f15(), n_parts=6)
            decide('C05.SuggestTrials.window_closed', [o for o in outs if o.kind == paths.RETURN and o.state.op_open],
                   'normal return with the committed operation still not done', n_parts=6)
            decide('C05.SuggestTrials.single_window', [o for o in outs if {'second_open', 'op_rewritten_not_done'} & o.state.bad],
                   'a second not-done operation is written / an operation is rewritten as not done', n_parts=6)
            decide('C05.SuggestTrials.ack_last', [o for o in outs if 'write_after_ack' in o.state.bad],
                   'datastore write after the operation was committed as done', n_parts=6)
            decide('C05.SuggestTrials.trial_fully_formed', [o for o in outs if 'trial_mutated_after_write' in o.state.bad],
                   'trial object modified after it was written (a crash exposes the partial record)', n_parts=6)
            decide('C05.SuggestTrials.acked_is_durable', durable_bad, 'object modified after it was written and returned without being written again', n_parts=6)
        elif rpc == 'CheckTrialEarlyStoppingState':
            decide('C05.%s.no_suggest_state_write' % rpc, [o for o in outs if o.state.wm - EARLY_STOP_ALLOWED],
                   'writes outside early-stopping operations / update_metadata', n_parts=2)
            decide('C05.%s.acked_is_durable' % rpc, durable_bad, 'object modified after it was written and returned without being written again', n_parts=2)
        else:
            writers = [o for o in outs if o.state.wm]
            if writers and not und:
                chk.obligation('C05.%s.read_only' % rpc, fq, 'paths', report.UNDECIDED, dt,
                               detail='RPC %s is not in the C05 classification table but calls mutating datastore methods %s: classify it '
                                      '(single-resource / multi-write) in contracts/c05.py' % (rpc, sorted({m for o in writers for m in o.state.wm})))
            else:
                decide('C05.%s.read_only' % rpc, writers, 'mutating datastore call in a read-only RPC')
    if rpc_client.summaries_used:
        chk.note('RPC-layer callee raise summaries derived from source: %s.' % json.dumps(rpc_client.summaries_used, sort_keys=True))
    chk.extra['layer1_summaries'] = l1
    for h in pending.values():      # a finding whose obligation is now proved: its witness replay is not needed
        try:
            h[0].kill()
        except Exception:
            pass
    for oname, f in findings.items():
        res = [o['result'] for o in chk.obligations if o['obligation'] == oname]
        if res and res[0] == report.PROVED:
            chk.note('finding listed for %s but the obligation is now proved (fixed?): the entry suppresses nothing.' % oname)

    # ------------------------------------------------------------------ thorough: kill-and-reopen replay (bounded stand-in)
    if tier == 'thorough':
        thorough_replay(chk, f15 is not None)
    return chk.finish(min_obligations=80)


def _confirm_f15():
    doc, msg = wait_driver(run_driver(['finding15'], 'finding15.json', 300))
    if doc is None:
        return None, {'driver_error': msg}
    if doc.get('reproduced'):
        return True, {'driver': '%s %s finding15' % (VENV_PY, DRIVER), 'same_client_ops': doc['same_client_ops'], 'other_client_op': doc['other_client_op']}
    return None, {'driver': 'finding15', 'observed': doc}


def thorough_replay(chk, f15_known):
    t0 = time.time()
    rpcs = SINGLE_RESOURCE + ['CreateStudyNewOwner', 'SuggestTrials']
    doc, msg = wait_driver(run_driver(['crash-enum', '--rpc', ','.join(rpcs)], 'enum_all.json', 3000))
    bound = ('one prepared history (CreateStudy; CreateTrial x2; SuggestTrials; AddTrialMeasurement) then one call of each RPC kind; a child '
             'process os._exit()s before/after every SQL statement, before/after every COMMIT/ROLLBACK and after the acknowledged return; '
             'fresh servicer on the same sqlite file under /verif/out/c05')
    if doc is None:
        chk.error('C05.crash_replay.driver', msg)
        return
    summary = {}
    for r in rpcs:
        info = doc['rpcs'].get(r, {})
        if 'error' in info or info.get('driver_errors'):
            chk.error('C05.%s.crash_replay.driver' % r, str(info.get('error') or [p.get('driver_error') for p in info['points'] if p.get('driver_error')][:2])[:500])
            continue
        summary[r] = {'crash_points': info['crash_points'], 'diverging': info['diverging_points'],
                      'wedged_in_known_window': info.get('wedged_points_in_known_window', 0)}
        bad = [p for p in info['points'] if p['problems']]
        rpcname = 'CreateStudy' if r == 'CreateStudyNewOwner' else r
        if bad:
            chk.obligation('C05.%s.crash_replay' % r, 'VizierServicer.%s' % rpcname, 'replay', report.VIOLATED, 0.0,
                           detail={'diverging_crash_points': [(p['k'], p['point'], p['problems']) for p in bad[:6]]},
                           model='crash point %d (%s): %s' % (bad[0]['k'], bad[0]['point'], bad[0]['problems']),
                           replay={'replay': {'driver': '%s %s crash-enum --rpc %s' % (VENV_PY, DRIVER, r), 'crash_point': bad[0]['point'], 'k': bad[0]['k'],
                                              'problems_after_restart': bad[0]['problems']}}, reproduced=True)
        elif r == 'SuggestTrials' and info.get('wedged_points_in_known_window') and not f15_known:
            p = [p for p in info['points'] if p.get('usable') is False][0]
            chk.obligation('C05.SuggestTrials.crash_replay', 'VizierServicer.SuggestTrials', 'replay', report.VIOLATED, 0.0,
                           detail='interrupted client wedged after restart at %d crash points' % info['wedged_points_in_known_window'],
                           model='crash point %d (%s): the interrupted client gets its not-done operation forever' % (p['k'], p['point']),
                           replay={'replay': {'driver': '%s %s crash-enum --rpc SuggestTrials' % (VENV_PY, DRIVER), 'k': p['k'], 'crash_point': p['point']}},
                           reproduced=True)
    total = sum(v['crash_points'] for v in summary.values())
    div = sum(v['diverging'] for v in summary.values())
    chk.bounded_standin('C05 kill-and-reopen replay', bound, 'held' if not div else 'diverged',
                        detail={'rpcs': summary, 'crash_points_total': total, 'wall_s': round(time.time() - t0, 1),
                                'checked_after_restart': 'all-or-nothing (image == before or == after the call; == after once acknowledged), every record '
                                                         'parses, ids unique, names match ids, legal states, a fresh client can suggest+complete+create with a larger id; '
                                                         'SuggestTrials: the same except all-or-nothing, plus the interrupted client is usable outside the known window',
                                'repo_untouched': doc.get('repo_untouched')})
    if doc.get('repo_untouched') is False:
        chk.error('C05.crash_replay.repo_touched', 'git status of the repository changed during the replay')
