"""Bounded model query for SuggestTrials (DESIGN.md 2.5 'model query', 2.6 replay).

Used ONLY to turn an undischarged obligation into a definite, replayable counterexample: the real SuggestTrials is
executed symbolically on an explicit finite datastore view (<= 2 stored trials, <= 1 earlier operation, Pythia
delivering 0..3 suggestions or raising), all loops unrolled, everything quantifier-free.  A `sat` answer is turned
into an RPC history and replayed on the REAL service (replay/service_replay.py); only a natively reproduced
violation is reported as reproduced.  Nothing here is ever counted as a proof.
"""
import json
import os
import subprocess
import time

import z3

from pyvc import engine as E, models as M, protomodel as pm, report
from pyvc.protomodel import Msg
from pyvc.source import ModuleInfo
from contracts import servicer_model as S
from contracts import suggest as SG
from contracts.servicer_model import Name, acc, is_some, some, none, val, parse, mkname

T, ST, OP = S.S_TRIAL, S.S_STUDY, S.S_OP
REQUESTED, ACTIVE, STOPPING, SUCCEEDED, INFEASIBLE = 1, 2, 3, 4, 5
STATE_NAMES = {1: 'REQUESTED', 2: 'ACTIVE', 3: 'STOPPING', 4: 'SUCCEEDED', 5: 'INFEASIBLE'}


def make_entry(ntrials, nops):
    def entry(it):
        sk, c = S.init_view_bounded(it, ntrials, nops, bound=3)
        svc = S.make_servicer(it)
        req = Msg.default(S.schema('vizier.SuggestTrialsRequest'))
        req.set('parent', S.make_name(it, sk))
        req.set('client_id', c)
        cnt = z3.Int('b_count')
        it.run.assume(z3.And(cnt >= 1, cnt <= 3))
        req.set('suggestion_count', cnt)
        it.run.req = req
        it.run.cfg = (ntrials, nops)
        cls = ModuleInfo.get(SG.SVC).classes['VizierServicer']
        return it.invoke(E.FuncVal(cls.mod, cls.methods['SuggestTrials'], cls), [svc, req, None], {})
    return entry


def post(p):
    """The same clauses as contracts/suggest.py:post, stated quantifier-free over the explicit view."""
    run = p.run
    D0, D1 = run.D0, run.ghost
    tb = run.tables
    sk, client = tb['sk'], tb['client']
    count = E.to_z3(run.req.get('suggestion_count'))
    t = T()
    kind = p.kind
    obs = []
    evs = [e for e in run.events if e[0] in ('ds', 'pythia')]
    created_op = [e for e in evs if e[1] == 'create_suggestion_operation']
    pythia_called = any(e[0] == 'pythia' for e in evs)
    D0t, D1t = D0['D.trial'], D1['D.trial']
    j = z3.Const('j!any', Name)
    if kind == 'raise' and created_op:
        return [('C06.SuggestTrials.no_exception_after_operation_created', z3.BoolVal(False))]
    for nm, f in SG.lifecycle_suggest(D0, D1, j, client).items():
        obs.append(('C01.SuggestTrials.' + nm, f))
    obs.append(('C01.SuggestTrials.frame_trials', z3.Implies(z3.Not(z3.And(Name.is_trial(j), S.study_of_trial(j) == sk)), D1t[j] == D0t[j])))
    obs.append(('C01.SuggestTrials.frame', z3.And(D1['D.eop'] == D0['D.eop'], z3.Implies(j != sk, D1['D.study'][j] == D0['D.study'][j]),
                                                  z3.Implies(z3.Not(z3.And(Name.is_sop(j), Name.study(Name.o3(j), Name.s3(j)) == sk, Name.c3(j) == client)),
                                                             D1['D.sop'][j] == D0['D.sop'][j]))))
    if kind == 'raise':
        from contracts import c01
        obs.append(('C01.SuggestTrials.error_leaves_data_unchanged', c01.unchanged(D0, D1)))
        return obs
    kk = z3.Const('k!orph', Name)
    orphan_at = lambda D, k_: z3.And(is_some(OP(), D['D.sop'][k_]), z3.Not(acc(OP(), 'done')(val(OP(), D['D.sop'][k_]))))
    obs.append(('C06.SuggestTrials.no_orphan_op', z3.Implies(orphan_at(D1, kk), orphan_at(D0, kk))))
    hyp = z3.And(*[z3.Not(orphan_at(D0, k_)) for k_ in tb['sops0']]) if tb['sops0'] else z3.BoolVal(True)
    op = p.value.pack()
    done = acc(OP(), 'done')(op)
    obs.append(('C06.SuggestTrials.returns_finished_operation', z3.Implies(hyp, done)))
    has_err = acc(OP(), 'case__result')(op) == OP().fields['error'].number
    if getattr(run, 'pythia_raised', False):
        obs.append(('C06.SuggestTrials.reported', z3.And(done, has_err)))
    if not created_op:
        return obs
    opkey = created_op[0][4]
    obs.append(('C06.SuggestTrials.returned_op_is_stored', D1['D.sop'][opkey] == some(OP(), op)))
    nops0 = len(tb['sops0'])
    obs.append(('C02.SuggestTrials.op_number', z3.Implies(hyp, z3.And(Name.is_sop(opkey), Name.c3(opkey) == client, Name.n3(opkey) == nops0 + 1))))
    if getattr(run, 'pythia_raised', False):
        return obs
    keys0 = tb['trials0']
    ts = [val(t, D0t[k_]) for k_ in keys0]
    own = [z3.And(acc(t, 'state')(x) == ACTIVE, acc(t, 'client_id')(x) == client) for x in ts]
    pool = [acc(t, 'state')(x) == REQUESTED for x in ts]
    n_own = z3.Sum([z3.If(c_, 1, 0) for c_ in own]) if own else z3.IntVal(0)
    n_pool = z3.Sum([z3.If(c_, 1, 0) for c_ in pool]) if pool else z3.IntVal(0)
    n_s = len(getattr(run, 'NT_list', [])) if pythia_called else 0
    Rn, Ra = SG.response_list(p)
    obs.append(('C02.SuggestTrials.no_error', z3.Implies(hyp, z3.Not(has_err))))
    total = n_own + n_pool + n_s
    want = z3.If(total < count, total, count)
    g = lambda f: z3.Implies(z3.And(hyp, z3.Not(has_err)), f)
    obs.append(('C02.SuggestTrials.count', g(Rn == want)))
    rn = z3.simplify(Rn)
    rn_c = rn.as_long() if z3.is_int_value(rn) else None
    idxs = range(rn_c) if rn_c is not None else range(4)
    mine = []
    for i in idxs:
        rk = SG.tkey(Ra[i])
        mine.append(z3.Implies(i < Rn, z3.And(acc(t, 'state')(Ra[i]) == ACTIVE, acc(t, 'client_id')(Ra[i]) == client,
                                              is_some(t, D1t[rk]), S.same_except_metadata_trial(val(t, D1t[rk]), Ra[i]))))
    obs.append(('C02.SuggestTrials.mine', g(z3.And(*mine) if mine else z3.BoolVal(True))))
    rank = []
    for i in range(len(ts)):
        rank.append(z3.Sum([z3.If(own[i2], 1, 0) for i2 in range(i)]) if i else z3.IntVal(0))
    own_pos = [z3.Implies(z3.And(own[i], rank[i] < Rn), Ra[rank[i]] == ts[i]) for i in range(len(ts))]
    obs.append(('C02.SuggestTrials.sticky', g(z3.Implies(n_own >= count, z3.And(D1t == D0t, Rn == count, *own_pos)))))
    obs.append(('C02.SuggestTrials.own_first', g(z3.Implies(n_own < count, z3.And(Rn >= n_own, *own_pos)))))
    stored, resp = [], []
    for i, k_ in enumerate(keys0):
        other = z3.And(acc(t, 'state')(ts[i]) == ACTIVE, acc(t, 'client_id')(ts[i]) != client)
        stored.append(z3.Implies(other, z3.And(is_some(t, D1t[k_]), S.same_except_metadata_trial(val(t, D1t[k_]), ts[i]))))
        resp.append(z3.Implies(other, z3.And(*[z3.Implies(ii < Rn, SG.tkey(Ra[ii]) != k_) for ii in idxs]) if idxs else z3.BoolVal(True)))
    obs.append(('C02.SuggestTrials.no_double_assign.stored', g(z3.And(*stored) if stored else z3.BoolVal(True))))
    obs.append(('C02.SuggestTrials.no_double_assign.response', g(z3.And(*resp) if resp else z3.BoolVal(True))))
    k2 = z3.Const('k2!p', Name)
    obs.append(('C02.SuggestTrials.fresh_ids', z3.And(
        z3.Implies(z3.And(is_some(t, D1t[j]), z3.Not(is_some(t, D0t[j]))), z3.And(Name.is_trial(j), S.study_of_trial(j) == sk, Name.t2(j) >= 1)),
        z3.Implies(z3.And(is_some(t, D1t[j]), z3.Not(is_some(t, D0t[j])), Name.is_trial(k2), S.study_of_trial(k2) == sk, is_some(t, D0t[k2])),
                   Name.t2(j) > Name.t2(k2)))))
    if pythia_called and n_s:
        n0 = len(keys0)
        cands = [Name.trial(tb['owner'], tb['study'], z3.IntVal(n0 + 1 + x)) for x in range(n_s)]
        sur = []
        for nt in run.NT_list:
            sur.append(z3.Or(*[z3.And(is_some(t, D1t[k_]),
                                      acc(t, 'parameters__arr')(val(t, D1t[k_])) == acc(t, 'parameters__arr')(nt),
                                      acc(t, 'parameters__len')(val(t, D1t[k_])) == acc(t, 'parameters__len')(nt),
                                      z3.Or(z3.And(acc(t, 'state')(val(t, D1t[k_])) == ACTIVE, acc(t, 'client_id')(val(t, D1t[k_])) == client),
                                            acc(t, 'state')(val(t, D1t[k_])) == REQUESTED)) for k_ in cands]))
        obs.append(('C02.SuggestTrials.surplus_queued', g(z3.And(*sur))))
    return obs


# ------------------------------------------------------------------------------------------ model -> history -> native check
def scenario_from_model(p, m):
    """Concrete RPC history reaching the model's datastore state, then the call under test."""
    run = p.run
    tb = run.tables
    t = T()
    ev = lambda x: m.eval(x, model_completion=True)
    count = ev(E.to_z3(run.req.get('suggestion_count'))).as_long()
    has_study = z3.is_true(ev(tb['has_study']))
    client = 'c'
    steps = [{'rpc': 'CreateStudy'}]
    other_clients = {}
    setup_ops_for_c = 0
    for k_ in tb['trials0']:
        x = val(t, run.D0['D.trial'][k_])
        st = ev(acc(t, 'state')(x)).as_long()
        same_client = z3.is_true(ev(acc(t, 'client_id')(x) == tb['client']))
        cl = client if same_client else 'other'
        steps.append({'rpc': 'CreateTrial', 'state': 'SUCCEEDED' if st == SUCCEEDED else 'REQUESTED', 'final': 1.0 if st == SUCCEEDED else None})
        tid = len([s for s in steps if s['rpc'] == 'CreateTrial'])
        if st in (ACTIVE, STOPPING, INFEASIBLE):
            steps.append({'rpc': 'SuggestTrials', 'count': 1, 'client': cl, 'setup': True})
            if cl == client:
                setup_ops_for_c += 1
            if st == STOPPING:
                steps.append({'rpc': 'StopTrial', 'trial': tid})
            if st == INFEASIBLE:
                steps.append({'rpc': 'CompleteTrial', 'trial': tid, 'infeasible': True, 'reason': 'x'})
    sstate = ev(acc(ST(), 'state')(val(ST(), run.D0['D.study'][tb['sk']]))).as_long() if has_study else 1
    if sstate in (2, 3):
        steps.append({'rpc': 'SetStudyState', 'state': {2: 'INACTIVE', 3: 'COMPLETED'}[sstate]})
    if not has_study:
        steps.append({'rpc': 'DeleteStudy'})
    n_s = len(getattr(run, 'NT_list', []))
    pythia_called = any(e[0] == 'pythia' for e in run.events)
    raised = getattr(run, 'pythia_raised', False)
    n_setup_suggest = 0   # setup SuggestTrials calls are served from the pool and never reach Pythia
    if raised:
        # pick a concrete exception class consistent with the path's decisions about the symbolic class
        dec = {k[0]: v for k, v in getattr(getattr(run, 'pythia_exc', None), 'decided', {}).items()}
        if dec.get('RuntimeError'):
            first = {'raise': 'RuntimeError', 'where': 'suggest'}
        elif dec.get('grpc.RpcError') or dec.get('RpcError'):
            first = {'raise': 'RuntimeError', 'where': 'suggest', 'note': 'RpcError needs a remote Pythia; local stand-in'}
        else:
            # not a RuntimeError: raised while the policy is built (PythiaServicer wraps only policy.suggest in RuntimeError)
            cands = [c for c in ('ValueError', 'KeyError', 'TypeError', 'ImportError', 'AttributeError') if not dec.get(c, True) is False]
            first = {'raise': (cands or ['ValueError'])[0], 'where': 'factory'}
        policy = {'suggest': [first, {'deliver': '+0'}]}
    else:
        policy = {'suggest': [{'deliver': n_s}]}
    steps.append({'rpc': 'snapshot'})
    steps.append({'rpc': 'SuggestTrials', 'count': count, 'client': client, 'under_test': True})
    steps.append({'rpc': 'snapshot'})
    steps.append({'rpc': 'SuggestTrials', 'count': count, 'client': client, 'again': True})
    return {'backend': 'ram', 'policy': policy, 'steps': steps,
            'model': {'count': count, 'n_stored_trials': len(tb['trials0']), 'n_earlier_ops_in_model': len(tb['sops0']),
                      'setup_ops_for_client': setup_ops_for_c, 'pythia_called': pythia_called, 'pythia_raises': raised,
                      'pythia_delivers': n_s, 'has_study': has_study, 'study_state': sstate}}


def native_clauses(sc, res):
    """Evaluate the property's clauses on what the REAL service did (plain Python over the replay JSON)."""
    r = res['results']
    idx = [i for i, s in enumerate(sc['steps']) if s.get('under_test')][0]
    before = r[idx - 1]['snapshot']
    after = r[idx + 1]['snapshot']
    call = r[idx]
    again = r[idx + 2]
    count = sc['model']['count']
    c = 'c'
    out = {}
    tb = {t['id']: t for t in before.get('trials', [])}
    ta = {t['id']: t for t in after.get('trials', [])}
    own = [t for t in before.get('trials', []) if t['state'] == 'ACTIVE' and t['client_id'] == c]
    pool = [t for t in before.get('trials', []) if t['state'] == 'REQUESTED']
    ops_after = after.get('ops', {}).get(c, [])
    out['C06.SuggestTrials.no_orphan_op'] = all(o['done'] for o in ops_after)
    out['C06.SuggestTrials.no_exception_after_operation_created'] = call['ok'] or len(ops_after) == len(before.get('ops', {}).get(c, []))
    if not call['ok']:
        out['C01.SuggestTrials.error_leaves_data_unchanged'] = before.get('trials') == after.get('trials')
        if before.get('study_state') in ('ACTIVE', 'STATE_UNSPECIFIED'):
            # an active, existing study must answer a suggest call with trials, not with an exception
            out['C02.SuggestTrials.count'] = False
        return out
    op = call['op']
    out['C06.SuggestTrials.returns_finished_operation'] = op['done']
    if sc['model']['pythia_raises'] and sc['model']['pythia_called']:
        out['C06.SuggestTrials.reported'] = op['done'] and op['has_error']
    # a later suggest by the same worker must reach a result, not the abandoned operation
    if again.get('ok'):
        out['C06.SuggestTrials.no_orphan_op'] = out['C06.SuggestTrials.no_orphan_op'] and again['op']['done']
    n_before_ops = len(before.get('ops', {}).get(c, []))
    out['C02.SuggestTrials.op_number'] = op['name'].endswith('/%s/%d' % (c, n_before_ops + 1))
    if op.get('has_error') or 'trials' not in op:
        return out
    R = op['trials']
    n_s = sc['model']['pythia_delivers'] if len(own) + len(pool) < count else 0
    out['C02.SuggestTrials.count'] = len(R) == min(count, len(own) + len(pool) + n_s)
    out['C02.SuggestTrials.mine'] = all(t['state'] == 'ACTIVE' and t['client_id'] == c and t['id'] in ta and ta[t['id']]['state'] == 'ACTIVE'
                                        and ta[t['id']]['client_id'] == c for t in R)
    own_ids = [t['id'] for t in own]
    out['C02.SuggestTrials.sticky'] = (len(own) < count) or ([t['id'] for t in R] == own_ids[:count] and before.get('trials') == after.get('trials'))
    out['C02.SuggestTrials.own_first'] = (len(own) >= count) or [t['id'] for t in R][:len(own)] == own_ids
    others = [t for t in before.get('trials', []) if t['state'] == 'ACTIVE' and t['client_id'] != c]
    out['C02.SuggestTrials.no_double_assign.stored'] = all(ta.get(t['id'], {}).get('client_id') == t['client_id'] and ta[t['id']]['state'] == 'ACTIVE' for t in others)
    out['C02.SuggestTrials.no_double_assign.response'] = not ({t['id'] for t in others} & {t['id'] for t in R})
    max_before = max([int(i) for i in tb] or [0])
    new_ids = [int(i) for i in ta if i not in tb]
    out['C02.SuggestTrials.fresh_ids'] = all(i > max_before for i in new_ids) and len(set(new_ids)) == len(new_ids)
    if n_s:
        out['C02.SuggestTrials.surplus_queued'] = len(new_ids) == n_s and all(ta[str(i)]['state'] in ('ACTIVE', 'REQUESTED') for i in new_ids)
    for nm in ('legal_transition', 'parameters_unchanged', 'completed_immutable', 'no_trial_disappears'):
        pass
    out['C01.SuggestTrials.no_trial_disappears'] = all(i in ta for i in tb)
    out['C01.SuggestTrials.parameters_unchanged'] = all(ta[i]['params'] == tb[i]['params'] for i in tb if i in ta)
    legal = lambda a, b: a == b or (a == 'REQUESTED' and b == 'ACTIVE')
    out['C01.SuggestTrials.legal_transition'] = all(legal(tb[i]['state'], ta[i]['state']) for i in tb if i in ta)
    out['C01.SuggestTrials.completed_immutable'] = all(ta[i] == tb[i] for i in tb if i in ta and tb[i]['state'] in ('SUCCEEDED', 'INFEASIBLE'))
    return out


def replay(sc):
    here = os.path.dirname(os.path.dirname(os.path.abspath(__file__)))
    env = dict(os.environ)
    r = subprocess.run(['/venv/bin/python', os.path.join(here, 'replay', 'service_replay.py'), '-'], input=json.dumps(sc),
                       capture_output=True, text=True, timeout=120, env=env)
    if r.returncode != 0:
        return None, r.stderr[-800:]
    line = [l for l in r.stdout.splitlines() if l.startswith('{')][-1]
    return json.loads(line), None


def on_violation(name, p, m):
    sc = scenario_from_model(p, m)
    res, err = replay(sc)
    if res is None:
        return {'scenario': sc, 'replay_error': err}, None
    cl = native_clauses(sc, res)
    ok = cl.get(name)
    failed = sorted(k for k, v in cl.items() if v is False)
    rep = {'scenario': sc, 'native_clauses': cl, 'native_clauses_failed': failed,
           'how_to_replay': '/venv/bin/python /verif/replay/service_replay.py <scenario.json>',
           'observed': [{k: v for k, v in x.items() if k != 'mro'} for x in res['results'] if x.get('rpc') != 'snapshot'][-3:]}
    if ok is False or failed:
        # the history makes the REAL service break a clause of the property (possibly a different clause than the
        # one the solver refuted on the abstract view): reproduced
        return rep, True
    return rep, False


def model_search(names, tier='quick', deadline_s=240):
    """Search the bounded configurations for a definite counterexample of any obligation in `names`.
    Returns {name: (model_text, replay_dict, reproduced)} for the obligations refuted (solver `sat`)."""
    from pyvc import verify
    found = {}
    t0 = time.time()
    chk = report.Check('CXX-bounded', tier)
    # smaller views first (cheap); the search has a time budget (an attempt to try the larger views first made failing trees
    # much slower without deciding more)
    cfgs = [(0, 0), (1, 0), (2, 0), (1, 1), (2, 1)]
    for nt, no in cfgs:
        if time.time() - t0 > deadline_s or all(n in found for n in names):
            break
        fr = verify.verify_function(chk, 'VizierServicer.SuggestTrials[bounded %d trials, %d ops]' % (nt, no), make_entry(nt, no), post,
                                    witness_terms=None, on_violation=on_violation, timeout_ms=5000, expect_paths=1, workers=12,
                                    only=lambda n: False, stop_at=t0 + deadline_s)
        for n, insts in fr.by_name.items():
            if n in found and found[n][2]:
                continue
            for i in insts:
                if i['verdict'] == 'sat':
                    cur = found.get(n)
                    if cur is None or (i.get('reproduced') and not cur[2]):
                        found[n] = (i.get('model', ''), i.get('replay'), i.get('reproduced'), (nt, no))
        if any(v[2] for v in found.values()):
            break
    return found


# ------------------------------------------------------------------------------------------ engine vs CPython cross-check
def cross_check(n=12, seed=0):
    """Run the symbolic executor on fully concrete scenarios and compare what it predicts with what the REAL service does
    (DESIGN.md 2.8).  Returns (agreements, disagreements[list])."""
    import random
    rnd = random.Random(seed)
    bad, good = [], 0
    for case in range(n):
        nt = rnd.randint(0, 2)
        states = [rnd.choice([(REQUESTED, False), (ACTIVE, True), (ACTIVE, False), (SUCCEEDED, False), (STOPPING, True)]) for _ in range(nt)]
        count = rnd.randint(1, 3)
        deliver = rnd.choice([0, 1, 2, 3, 'raise'])
        n_setup_c = sum(1 for st, mine in states if st in (ACTIVE, STOPPING) and mine)

        def entry(it, nt=nt, states=states, count=count, n_setup_c=n_setup_c):
            base = make_entry(nt, n_setup_c)
            # fix every symbolic input of the bounded view to the scenario's concrete values
            run = it.run
            orig_assume = run.assume
            res = None

            def go():
                return base(it)
            # constraints must be in place before the call: pre-register through a wrapper entry
            return go()

        def constrained(it):
            t = T()
            sk, c = S.init_view_bounded(it, nt, n_setup_c, bound=3, study_may_be_missing=False)
            run = it.run
            for i, (st, mine) in enumerate(states):
                x = val(t, run.D0['D.trial'][run.tables['trials0'][i]])
                run.assume(acc(t, 'state')(x) == st)
                run.assume((acc(t, 'client_id')(x) == c) if mine else (acc(t, 'client_id')(x) != c))
            run.assume(acc(ST(), 'state')(val(ST(), run.D0['D.study'][sk])) == 1)
            for k_ in run.tables['sops0']:
                run.assume(acc(OP(), 'done')(val(OP(), run.D0['D.sop'][k_])))
            svc = S.make_servicer(it)
            req = Msg.default(S.schema('vizier.SuggestTrialsRequest'))
            req.set('parent', S.make_name(it, sk))
            req.set('client_id', c)
            req.set('suggestion_count', count)
            run.assume(S.valid_comp(c))
            run.req = req
            cls = ModuleInfo.get(SG.SVC).classes['VizierServicer']
            return it.invoke(E.FuncVal(cls.mod, cls.methods['SuggestTrials'], cls), [svc, req, None], {})

        paths = [p for p in E.explore(constrained) if p.kind in ('return', 'raise')]
        want_raise = deliver == 'raise'
        n_own = sum(1 for st, mine in states if st == ACTIVE and mine)
        n_pool = sum(1 for st, mine in states if st == REQUESTED)
        reaches_pythia = n_own + n_pool < count

        def matches(p):
            called = any(e[0] == 'pythia' for e in p.run.events)
            if not reaches_pythia:
                return not called
            if not called:
                return False
            if want_raise:
                return getattr(p.run, 'pythia_raised', False)
            return not getattr(p.run, 'pythia_raised', False) and len(getattr(p.run, 'NT_list', [])) == deliver
        sel = [p for p in paths if matches(p)]
        # the has_pythia_endpoint / exception-class forks do not change the observable outcome: compare the set
        pred = set()
        for p in sel:
            if p.kind == 'raise':
                pred.add(('raise', E.class_name(p.value.cls)))
                continue
            op = p.value
            done = z3.simplify(E.to_z3(op.get('done')))
            case_ = z3.simplify(E.to_z3(op.get_case('result')) if not isinstance(op.get_case('result'), int) else z3.IntVal(op.get_case('result')))
            has_err = z3.is_int_value(case_) and case_.as_long() == OP().fields['error'].number
            ntr = None
            if not has_err:
                Rn, Ra = SG.response_list(p)
                s = z3.Solver()
                for c_ in p.run.pc:
                    s.add(c_)
                if s.check() == z3.sat:
                    ntr = s.model().eval(Rn, model_completion=True).as_long()
            pred.add(('return', z3.is_true(done), has_err, ntr))
        # native
        steps = [{'rpc': 'CreateStudy'}]
        for st, mine in states:
            steps.append({'rpc': 'CreateTrial', 'state': 'SUCCEEDED' if st == SUCCEEDED else 'REQUESTED', 'final': 1.0 if st == SUCCEEDED else None})
            tid = len([x for x in steps if x['rpc'] == 'CreateTrial'])
            if st in (ACTIVE, STOPPING):
                steps.append({'rpc': 'SuggestTrials', 'count': 1, 'client': 'c' if mine else 'other'})
                if st == STOPPING:
                    steps.append({'rpc': 'StopTrial', 'trial': tid})
        steps += [{'rpc': 'snapshot'}, {'rpc': 'SuggestTrials', 'count': count, 'client': 'c', 'under_test': True}, {'rpc': 'snapshot'}]
        sc = {'backend': 'ram', 'policy': {'suggest': [{'raise': 'RuntimeError'}] if want_raise else [{'deliver': deliver}]}, 'steps': steps}
        res, err = replay(sc)
        if res is None:
            bad.append({'case': case, 'error': err})
            continue
        call = [r for r, s_ in zip(res['results'], steps) if s_.get('under_test')][0]
        if call['ok']:
            nat = ('return', call['op']['done'], call['op']['has_error'], len(call['op'].get('trials', [])) if not call['op']['has_error'] else None)
        else:
            nat = ('raise', call['error_class'])
        if nat in pred and len(pred) == 1:
            good += 1
        else:
            bad.append({'case': case, 'scenario': {'states': states, 'count': count, 'deliver': deliver}, 'engine': sorted(map(str, pred)), 'native': str(nat)})
    return good, bad
