"""C11 -- optimal trials are exactly the non-dominated completed trials.

One specification, reused for every Pareto routine (values are XReal: +-inf ordinary, NaN explicit):
    dom(p, q)  =  (forall k < d. p[k] >= q[k])  and  (exists k < d. p[k] > q[k])
    opt(P, i)  =  not exists j < n. dom(P[j], P[i])

Every obligation is generated from the REAL AST of the current $VERIF_REPO by the pyvc engine (pyvc/np_model.py supplies
the numpy fragment).  Each function is run twice by the same engine:
  * proof query  : symbolic n, d (loops by invariant, recursion by callee contract at smaller size -> partial correctness);
  * model query  : only for obligations that are not `unsat`: concrete small sizes, loops unrolled, quantifier-free;
                   a `sat` model is turned into floats and replayed on the real function (replay/c11_replay.py).
Only a `sat` is a violation; `unknown` is undecided.
"""
import json
import os
import time

import z3

from pyvc import engine as E, models as M, protomodel as pm, report, source, verify, xreal, ckit
from pyvc import np_model as NP
from pyvc.np_model import NDArray, QA, QE, QA2, conc, zi
from pyvc.engine import Obj, ExcObj, PyRaise, Builtin, Unsupported
from pyvc.source import ModuleInfo

PO = 'vizier._src.pyvizier.multimetric.pareto_optimal'
NSGA = 'vizier._src.algorithms.evolution.nsga2'
XLA = 'vizier._src.jax.xla_pareto'
SVC = 'vizier._src.service.vizier_service'
LPS = 'vizier._src.pythia.local_policy_supporters'

NOT_NAN = 'objective values are not NaN (precondition of the library Pareto routines; +-inf allowed)'


# ------------------------------------------------------------------------------------------ the specification
def dom(A, a, B, b, d):
    """A[a] dominates B[b] (rank-2 arrays as total functions, d = number of coordinates)."""
    return z3.And(QA(d, lambda k: xreal.ge(A.at(a, k), B.at(b, k))), QE(d, lambda k: xreal.gt(A.at(a, k), B.at(b, k))))


def weak(A, a, B, b, d):
    """A[a] >= B[b] in every coordinate."""
    return QA(d, lambda k: xreal.ge(A.at(a, k), B.at(b, k)))


def opt(P, i, n, d):
    return z3.Not(QE(n, lambda j: dom(P, j, P, i, d)))


def opt_against(P, i, A, m, d, strict):
    """no point of A (m rows) dominates P[i]; strict=False: no point of A is >= P[i] everywhere."""
    if strict:
        return z3.Not(QE(m, lambda a: dom(A, a, P, i, d)))
    return z3.Not(QE(m, lambda a: weak(A, a, P, i, d)))


def fresh_points(run, name, n, d, nan_free=True):
    """an arbitrary (n, d) float array; NaN-freedom is a precondition on the whole total function (values outside
    the shape are irrelevant to the code, so this does not restrict the inputs)."""
    P = NP.fresh_array(run, name, (n, d), 'float')
    if nan_free:
        i, k = z3.Int('i!nf'), z3.Int('k!nf')
        if conc(n) is not None and conc(d) is not None:
            NP.fact(run, z3.And([z3.Not(xreal.is_nan(P.at(a, b))) for a in range(conc(n)) for b in range(conc(d))] + [z3.BoolVal(True)]))
        else:
            run.axiom(z3.ForAll([i, k], z3.Not(xreal.is_nan(P.at(i, k)))))
    return P


def sizes(run, sz, names=('n', 'd'), lows=(0, 0)):
    """symbolic (None) or concrete sizes"""
    out = []
    for nm, lo, c in zip(names, lows, sz if sz is not None else (None,) * len(names)):
        if c is None:
            v = z3.Int(nm)
            run.assume(v >= lo)
            out.append(v)
        else:
            out.append(c)
    return out


def param(fr, k):
    """value of the k-th positional parameter of the function executing in frame `fr` (robust to renaming)."""
    f = fr
    while f is not None and f.func is None:
        f = f.parent
    return f.env[f.func.node.args.args[k].arg]


def local_where(fr, pred, what):
    """the unique local of the frame satisfying pred (locals are found by role, not by name)."""
    hits = [v for k, v in fr.env.items() if pred(v)]
    uniq = []
    for h in hits:
        if not any(h is u for u in uniq):
            uniq.append(h)
    if len(uniq) != 1:
        raise Unsupported('loop contract: expected exactly one %s among the locals, found %d' % (what, len(uniq)))
    return uniq[0]


def entry_local(fr, ctx, pred, what):
    """the unique local that existed at loop entry and satisfies pred (found by role, not by name)"""
    names = [k for k, v in ctx.entry_env.items() if pred(v)]
    objs = []
    for k in names:
        if not any(ctx.entry_env[k] is o for o in objs):
            objs.append(ctx.entry_env[k])
    if len(objs) != 1:
        raise Unsupported('loop contract: expected exactly one %s among the locals at loop entry, found %d' % (what, len(objs)))
    return fr.env[[k for k in names if ctx.entry_env[k] is objs[0]][0]]


def method(modname, qual):
    mod = ModuleInfo.get(modname)
    cls, node = mod.find(qual)
    return E.FuncVal(mod, node, cls)


def invoke_real(it, fv, args, kw):
    """execute the real body of fv (like Interp.invoke, but never replaced by a registered contract)."""
    env = it.bind(fv, args, kw)
    fr = E.Frame(fv.mod, env, func=fv, parent=fv.closure)
    it.run.inlined.add('%s:%s' % (fv.mod.dotted, fv.qualname))
    it.depth += 1
    it.stack.append(fv)
    try:
        it.block(fr, fv.node.body)
    except E.PyReturn as r:
        return r.v
    finally:
        it.stack.pop()
        it.depth -= 1
    return None


# ------------------------------------------------------------------------------------------ proof + model query driver
_engine_discharge = E.discharge
RETRY_SEEDS = (0, 1, 2)
NEEDS = {}          # formula id -> set of fact tags the obligation is allowed to use ('def', 'sorted'); absent: everything


def need(f, *tags):
    """proof engineering: this obligation is discharged WITHOUT the tagged facts it does not list (dropping hypotheses is
    sound).  Tags: 'def' = definitions of GE/GT (they unfold into coordinate quantifiers), 'sorted' = argsort order facts."""
    if z3.is_expr(f):
        NEEDS[f.get_id()] = (f, set(tags))
    return f


EXPECT_OPEN = {}    # formula id -> formula: obligations recorded as open known findings (their proof query is not expected to succeed)


def expect_open(f):
    if z3.is_expr(f):
        EXPECT_OPEN[f.get_id()] = f
    return f


def _needs_of(formula):
    if not z3.is_expr(formula):
        return None
    e = NEEDS.get(formula.get_id())
    if e is None and z3.is_or(formula) and formula.num_args() == 2:
        e = NEEDS.get(formula.arg(0).get_id())        # the residual obligation `f or in_finding_class` built by pyvc.verify
    return e[1] if e is not None else None


RLIMIT_PER_MS = 2500      # as pyvc.engine.discharge: the budget is z3's deterministic resource limit; the wall clock is a safety net only


def _discharge_once(run, formula, npc, nax, timeout_ms, extra):
    t0 = time.time()
    s = z3.Solver()
    s.set('rlimit', int(timeout_ms) * RLIMIT_PER_MS)
    s.set('timeout', max(int(timeout_ms) * 15, 120000))
    allowed = _needs_of(formula)
    tags = {}
    tags.update(getattr(run, 'np_fact_tags', {}))
    tags.update(getattr(run, 'c11_fact_tags', {}))
    for c in (run.pc if npc is None else run.pc[:npc]):
        s.add(c)
    for c in (run.axioms if nax is None else run.axioms[:nax]):
        tg = tags.get(c.get_id()) if z3.is_expr(c) else None
        if allowed is not None and npc is None and tg is not None and tg not in allowed:
            continue
        s.add(c)
    for c in extra:
        s.add(c)
    lits = pm.all_str_lits()
    if len(lits) > 1:
        s.add(z3.Distinct(*lits))
    s.add(z3.Not(formula) if not isinstance(formula, bool) else z3.BoolVal(not formula))
    r = s.check()
    dt = time.time() - t0
    if r == z3.unsat:
        return 'unsat', None, dt
    if r == z3.sat:
        return 'sat', s.model(), dt
    return 'unknown', s.reason_unknown(), dt


def _discharge_with_retries(run, formula, npc=None, nax=None, timeout_ms=10000, extra=(), rlimit=None):
    """engine.discharge with (1) the relevance filter above and (2) retries: z3's quantifier instantiation is sensitive to
    term numbering; an `unknown` is retried with other random seeds (an `unknown` never becomes a verdict, so retrying
    only reduces undecided results)."""
    total = 0.0
    last = None
    if z3.is_expr(formula) and formula.get_id() in EXPECT_OPEN:
        # an open known finding: one short attempt (the residual obligation gets the full budget)
        return _discharge_once(run, formula, npc, nax, min(timeout_ms, 1500), extra)
    for k, seed in enumerate(RETRY_SEEDS):
        if k:
            z3.set_param('smt.random_seed', seed)
        try:
            v, m, dt = _discharge_once(run, formula, npc, nax, timeout_ms if k == 0 else max(timeout_ms // 2, 2000), extra)
        finally:
            if k:
                z3.set_param('smt.random_seed', 0)
        total += dt
        last = (v, m)
        if v != 'unknown':
            break
    return last[0], last[1], total


E.discharge = _discharge_with_retries


class Collector:
    """stands in for report.Check while a function is verified; verdicts are forwarded after the model queries."""

    def __init__(self):
        self.obs, self.assumptions = [], []

    def obligation(self, name, function, backend, result, time_s=0.0, detail=None, model=None, replay=None, reproduced=None, finding=None):
        self.obs.append(dict(name=name, function=function, backend=backend, result=result, time_s=time_s, detail=detail,
                             model=model, replay=replay, reproduced=reproduced, finding=finding))

    def assume(self, t):
        if t not in self.assumptions:
            self.assumptions.append(t)


def run_replay(args, payload=None, timeout=300):
    out, raw = ckit.run_replay('c11_replay.py', args, payload, timeout=timeout)
    return out, raw


class Fn:
    """one real function under contract."""

    def __init__(self, chk, tier, fname, entry_of, post, replay_of=None, bounded_sizes=(), known=None, workers=8,
                 timeout_ms=None, expect_paths=1, rename=None):
        self.chk, self.tier, self.fname, self.entry_of, self.post = chk, tier, fname, entry_of, post
        self.replay_of, self.bounded_sizes, self.known = replay_of, bounded_sizes, known
        self.workers, self.expect_paths, self.rename = workers, expect_paths, rename
        self.timeout_ms = timeout_ms or (10000 if tier == 'quick' else 60000)

    def _on_violation(self, sz):
        seen = set()

        def cb(name, path, model):
            if self.replay_of is None or name in seen:
                return None, None      # one native replay per obligation (and per worker): the first failing path
            seen.add(name)
            payload = self.replay_of(name, path, model, sz)
            if payload is None:
                return None, None
            out, raw = run_replay([payload['mode']], payload)
            rep = dict(payload)
            rep['replay_cmd'] = '/venv/bin/python /verif/replay/c11_replay.py %s < payload (this file)' % payload['mode']
            rep['replay_output'] = out if out is not None else raw[-1500:]
            return rep, (bool(out.get('reproduced')) if out is not None and 'reproduced' in out else None)
        return cb

    def run(self):
        chk = self.chk
        col = Collector()
        # proof queries: array extensionality off (z3 otherwise drowns in extensionality over the arrays nested in the
        # protobuf datatypes).  That only weakens the solver: `unsat` stays sound; a `sat` of a proof query is therefore NOT
        # taken as definite here -- it must be confirmed by a model query (default parameters) or it is `undecided`.
        z3.set_param('smt.array.extensional', False)
        verify.verify_function(col, self.fname, self.entry_of(None), self.post, timeout_ms=self.timeout_ms,
                               expect_paths=self.expect_paths, known=self.known, workers=self.workers, rename=self.rename,
                               on_violation=self._on_violation(None), path_timeout_ms=3000)
        z3.set_param('smt.array.extensional', True)
        for a in col.assumptions:
            chk.assume(a)
        open_ = [o for o in col.obs if o['result'] in (report.UNDECIDED, report.VIOLATED) and not o['reproduced']]
        refuted = {}
        if self.bounded_sizes and (open_ or self.tier == 'thorough'):
            # thorough tier: the model queries always run -- the same engine at concrete sizes must agree with the
            # specification for ALL values (engine cross-check, DESIGN 2.8); recorded as a bounded stand-in
            refuted = self.model_queries(stop_early=bool(open_))
            if not open_:
                chk.bounded_standin((self.rename or (lambda x: x))('VizierC11.engine_at_concrete_sizes'), 'sizes %s, all values (quantifier-free queries)' % (list(self.bounded_sizes),),
                                    'agrees with the specification' if not refuted else 'DISAGREES: %s' % sorted(refuted))
        for o in col.obs:
            n = o['name']
            if n in refuted:
                # definite counter-model at a small concrete size (a postcondition "proved" from a loop invariant whose
                # preservation step is open is refuted here too: its proof was conditional on that invariant)
                r = refuted.pop(n)
                det = {'proof_query': o['result'], 'model_query': 'sat at sizes %s' % (r['sizes'],)}
                chk.obligation(n, self.fname, 'z3', report.VIOLATED, o['time_s'] + r['time_s'], detail=det, model=r['model'],
                               replay=r['replay'], reproduced=r['reproduced'])
                continue
            if o['result'] == report.VIOLATED and not o['reproduced']:
                det = dict(o['detail'] or {})
                det['reason'] = 'proof query sat (array extensionality off: not definite); no counter-model at the bounded sizes %s' % (list(self.bounded_sizes),)
                det['solver_output'] = (o['model'] or '')[:1500]
                chk.obligation(n, o['function'], o['backend'], report.UNDECIDED, o['time_s'], detail=det)
                continue
            chk.obligation(n, o['function'], o['backend'], o['result'], o['time_s'], detail=o['detail'], model=o['model'],
                           replay=o['replay'], reproduced=o['reproduced'], finding=o['finding'])
        for n, r in refuted.items():
            chk.obligation(n, self.fname, 'z3', report.VIOLATED, r['time_s'], detail={'model_query': 'sat at sizes %s' % (r['sizes'],)},
                           model=r['model'], replay=r['replay'], reproduced=r['reproduced'])
        return col

    def model_queries(self, stop_early=True):
        """same engine, same real AST, concrete small sizes: quantifier-free => definite sat/unsat."""
        refuted = {}
        for sz in self.bounded_sizes:
            col = Collector()
            verify.verify_function(col, self.fname, self.entry_of(sz), self.post, timeout_ms=20000, expect_paths=0,
                                   known=self.known, workers=2, rename=self.rename, on_violation=self._on_violation(sz),
                                   allow_end_only=True)      # workers >= 2: forked, the parent's z3 state stays pristine
            for o in col.obs:
                if o['result'] == report.VIOLATED and o['name'] not in refuted:
                    refuted[o['name']] = dict(sizes=sz, model=o['model'], replay=o['replay'], reproduced=o['reproduced'], time_s=o['time_s'])
            if stop_early and refuted and all(r['reproduced'] for r in refuted.values()):
                break
        return refuted


def array_values(model, A, n, d):
    return [[xreal.model_value(model, A.at(i, k)) for k in range(d)] for i in range(n)]


def jsonable(rows):
    def f(x):
        return 'nan' if x != x else 'inf' if x == float('inf') else '-inf' if x == float('-inf') else x
    return [[f(x) for x in r] for r in rows]


def prove_closed(chk, name, function, formula, hyps=(), timeout_ms=10000):
    """a closed lemma about the specification itself"""
    s = z3.Solver()
    s.set('timeout', timeout_ms)
    for h in hyps:
        s.add(h)
    s.add(z3.Not(formula))
    t0 = time.time()
    r = s.check()
    dt = time.time() - t0
    res = report.PROVED if r == z3.unsat else report.VIOLATED if r == z3.sat else report.UNDECIDED
    chk.obligation(name, function, 'z3', res, dt, detail={'role': 'lemma about the specification (closed formula)'},
                   model=str(s.model())[:2000] if r == z3.sat else None)
    return r == z3.unsat


# ------------------------------------------------------------------------------------------ 1. NaiveParetoOptimalAlgorithm
def _is_mask(v):
    return isinstance(v, NDArray) and v.rank == 1 and v.dtype == 'bool' and v.kind == 'ndarray'


def _inv_naive_optimal(it, fr, ctx):
    """for i, point in enumerate(points): if is_optimal[i]: is_optimal[is_optimal] = ...        (Appendix F)
    J(i):  forall j < n. is_optimal[j]  <=>  not exists t < i. dom(P[t], P[j])"""
    run = it.run
    P = param(fr, 1)
    io = entry_local(fr, ctx, _is_mask, 'boolean mask')
    n, d = P.shape
    f = io.fn
    J = lambda fn_, i_, j: fn_(j) == z3.Not(QE(i_, lambda t: dom(P, t, P, j, d)))
    if ctx.phase == 'init':
        return [('J', QA(n, lambda j: J(f, ctx.i, j))), ('len', zi(io.shape[0]) == zi(n))]
    if ctx.phase == 'head':
        ctx.head_fn, ctx.i0 = f, ctx.i
        return [('J', QA(n, lambda j: J(f, ctx.i, j))), ('len', zi(io.shape[0]) == zi(n))]
    # preserve: proof script (every hint is itself an obligation; DESIGN 2.3)
    h, i0 = ctx.head_fn, ctx.i0
    #  obtain u < i with dom(P[u], P[i]) when point i was already known to be dominated
    wit = z3.Implies(z3.Not(h(i0)), QE(i0, lambda t: dom(P, t, P, i0, d)))
    run.oblige('VizierC11.naive.hint.obtain_dominator', wit)
    u = run.fresh('u', z3.IntSort())
    run.axiom(z3.Implies(z3.Not(h(i0)), z3.And(u >= 0, u < i0, dom(P, u, P, i0, d))))
    #  use dom_transitive at (u, i, c) for all c
    c = z3.Int('c!tr')
    tr = z3.ForAll([c], z3.Implies(z3.And(dom(P, u, P, i0, d), dom(P, i0, P, c, d)), dom(P, u, P, c, d)))
    run.oblige('VizierC11.naive.hint.transitivity_instance', tr)
    run.axiom(tr)
    #  pointwise jj
    jj = run.fresh('jj', z3.IntSort())
    return [('J', z3.Implies(z3.And(jj >= 0, jj < zi(n)), J(f, ctx.i, jj))), ('len', zi(io.shape[0]) == zi(n))]


def _inv_naive_against(it, fr, ctx):
    """for i, point in enumerate(points): ... is_optimal[i] = True      (result[j] correct for j < i, False beyond)"""
    P, A = param(fr, 1), param(fr, 2)
    strict = fr.env[fr.func.node.args.kwonlyargs[0].arg] if fr.func.node.args.kwonlyargs else param(fr, 3)
    io = entry_local(fr, ctx, _is_mask, 'boolean mask')
    n, d = P.shape
    m = A.shape[0]
    f = io.fn
    if ctx.phase in ('init', 'head'):
        return [('done', QA(ctx.i, lambda j: f(j) == opt_against(P, j, A, m, d, strict))),
                ('rest', QA(n, lambda j: z3.Not(f(j)), lo=ctx.i)), ('len', zi(io.shape[0]) == zi(n))]
    jj = it.run.fresh('jj', z3.IntSort())
    return [('done', z3.Implies(z3.And(jj >= 0, jj < ctx.i), f(jj) == opt_against(P, jj, A, m, d, strict))),
            ('rest', z3.Implies(z3.And(jj >= ctx.i, jj < zi(n)), z3.Not(f(jj)))), ('len', zi(io.shape[0]) == zi(n))]


E.LOOPS[(PO, 'NaiveParetoOptimalAlgorithm.is_pareto_optimal', 1)] = E.LoopSpec(_inv_naive_optimal)
E.LOOPS[(PO, 'NaiveParetoOptimalAlgorithm.is_pareto_optimal_against', 1)] = E.LoopSpec(_inv_naive_against)


def result_shape_ok(res, n):
    if not (isinstance(res, NDArray) and res.rank == 1 and res.dtype == 'bool'):
        return z3.BoolVal(False)
    return zi(res.shape[0]) == zi(n)


def naive_entry_optimal(sz):
    def entry(it):
        run = it.run
        n, d = sizes(run, sz)
        P = fresh_points(run, 'P', n, d)
        run.c11 = dict(P=P, n=n, d=d)
        cls = ModuleInfo.get(PO).classes['NaiveParetoOptimalAlgorithm']
        return it.invoke(E.FuncVal(cls.mod, cls.methods['is_pareto_optimal'], cls), [Obj(cls, {}), P.copy()], {})
    return entry


def post_optimal(prefix):
    def post(p):
        g = p.run.c11
        P, n, d = g['P'], g['n'], g['d']
        if p.kind != 'return':
            return [(prefix + '.no_exception', z3.BoolVal(False))]
        res = p.value
        obs = [(prefix + '.shape', result_shape_ok(res, n))]
        if isinstance(res, NDArray) and res.rank == 1:
            c = z3.Int('c!post')
            if conc(n) is not None:
                obs.append((prefix + '.iff', QA(n, lambda i: res.at(i) == opt(P, i, n, d))))
            else:
                obs.append((prefix + '.iff', z3.Implies(z3.And(c >= 0, c < zi(n)), res.at(c) == opt(P, c, n, d))))
        return obs
    return post


def replay_points(mode, extra=None):
    def mk(name, path, model, sz):
        g = path.run.c11
        n, d = conc(g['n']), conc(g['d'])
        if n is None or d is None:
            return None
        payload = {'mode': mode, 'obligation': name, 'points': jsonable(array_values(model, g['P'], n, d))}
        if 'A' in g:
            payload['against'] = jsonable(array_values(model, g['A'], conc(g['m']), d))
        for k in ('strict', 'threshold'):
            if k in g:
                v = g[k]
                payload[k] = v if isinstance(v, (bool, int)) else (z3.is_true(model.eval(v, model_completion=True)) if v.sort() == z3.BoolSort()
                                                                   else model.eval(v, model_completion=True).as_long())
        if extra:
            payload.update(extra)
        return payload
    return mk


def naive_entry_against(strict):
    def entry_of(sz):
        def entry(it):
            run = it.run
            n, m, d = sizes(run, sz, names=('n', 'm', 'd'), lows=(0, 0, 0))
            P = fresh_points(run, 'P', n, d)
            A = fresh_points(run, 'A', m, d)
            run.c11 = dict(P=P, A=A, n=n, m=m, d=d, strict=strict)
            cls = ModuleInfo.get(PO).classes['NaiveParetoOptimalAlgorithm']
            return it.invoke(E.FuncVal(cls.mod, cls.methods['is_pareto_optimal_against'], cls), [Obj(cls, {}), P.copy(), A.copy()], {'strict': strict})
        return entry
    return entry_of


def post_against(prefix):
    def post(p):
        g = p.run.c11
        P, A, n, m, d, strict = g['P'], g['A'], g['n'], g['m'], g['d'], g['strict']
        if p.kind != 'return':
            return [(prefix + '.no_exception', z3.BoolVal(False))]
        res = p.value
        obs = [(prefix + '.shape', result_shape_ok(res, n))]
        if isinstance(res, NDArray) and res.rank == 1:
            if isinstance(strict, bool):
                spec = lambda i: opt_against(P, i, A, m, d, strict)
            else:
                spec = lambda i: z3.If(strict, opt_against(P, i, A, m, d, True), opt_against(P, i, A, m, d, False))
            if conc(n) is not None:
                obs.append((prefix + '.iff', QA(n, lambda i: res.at(i) == spec(i))))
            else:
                c = z3.Int('c!post')
                obs.append((prefix + '.iff', z3.Implies(z3.And(c >= 0, c < zi(n)), res.at(c) == spec(c))))
        return obs
    return post


def support_rename(prefix):
    """loop / hint / library-precondition obligations get the property prefix"""
    def rn(n):
        if n.startswith('C11.'):
            return n
        n = n.replace('VizierC11.', '')
        for cut in ('NaiveParetoOptimalAlgorithm.', 'FastParetoOptimalAlgorithm.', 'VizierServicer.'):
            n = n.replace(cut, '')
        return '%s.support.%s' % (prefix, n)
    return rn


SMALL_ND = [(2, 1), (2, 2), (3, 2)]
SMALL_NMD = [(1, 1, 1), (1, 1, 2), (2, 2, 2)]


def check_naive(chk, tier):
    chk.function(PO, 'NaiveParetoOptimalAlgorithm.is_pareto_optimal')
    chk.function(PO, 'NaiveParetoOptimalAlgorithm.is_pareto_optimal_against')
    chk.assume(NOT_NAN)
    # lemma: dom is transitive (closed formula over two arbitrary arrays; used only through checked instances)
    X = NP.NDArray((3, z3.Int('d')), 'float', (lambda f: (lambda i, k: f(i, k)))(z3.Function('X!lem', z3.IntSort(), z3.IntSort(), xreal.XReal)))
    dd = z3.Int('d')
    prove_closed(chk, 'C11.lemma.dom_transitive', 'specification',
                 z3.Implies(z3.And(dom(X, 0, X, 1, dd), dom(X, 1, X, 2, dd)), dom(X, 0, X, 2, dd)), hyps=[dd >= 0])
    prove_closed(chk, 'C11.lemma.dom_irreflexive', 'specification', z3.Not(dom(X, 0, X, 0, dd)), hyps=[dd >= 0])
    pre = 'C11.Naive.is_pareto_optimal'
    Fn(chk, tier, 'NaiveParetoOptimalAlgorithm.is_pareto_optimal', naive_entry_optimal, post_optimal(pre),
       replay_of=replay_points('naive_optimal'), bounded_sizes=SMALL_ND, rename=support_rename(pre), workers=4).run()
    for strict in (True, False):
        pre = 'C11.Naive.is_pareto_optimal_against.%s' % ('strict' if strict else 'nonstrict')
        Fn(chk, tier, 'NaiveParetoOptimalAlgorithm.is_pareto_optimal_against', naive_entry_against(strict), post_against(pre),
           replay_of=replay_points('naive_against'), bounded_sizes=SMALL_NMD, rename=support_rename(pre), workers=4).run()


# ------------------------------------------------------------------------------------------ 2. nsga2._pareto_rank
def rank_entry(sz):
    def entry(it):
        run = it.run
        n, d = sizes(run, sz)
        P = fresh_points(run, 'P', n, d, nan_free=False)
        run.c11 = dict(P=P, n=n, d=d)
        return it.invoke(method(NSGA, '_pareto_rank'), [P.copy()], {})
    return entry


def rank_post(p):
    return rank_post_for('C11._pareto_rank')(p)


def rank_post_for(pre):
    return lambda p: _rank_post(p, pre)


def _rank_post(p, pre):
    g = p.run.c11
    P, n, d = g['P'], g['n'], g['d']
    if p.kind != 'return':
        return [(pre + '.no_exception', z3.BoolVal(False))]
    res = p.value
    ok = isinstance(res, NDArray) and res.rank == 1
    obs = [(pre + '.shape', zi(res.shape[0]) == zi(n) if ok else z3.BoolVal(False))]
    if not ok:
        return obs
    val = (lambda i: res.at(i)) if res.dtype == 'int' else (lambda i: xreal.r(res.at(i)) if res.dtype == 'float' else zi(res.at(i)))
    zero = (lambda i: val(i) == 0)
    c, j = z3.Int('c!post'), z3.Int('j!post')
    if conc(n) is not None:
        obs.append((pre + '.spec', QA(n, lambda i: zero(i) == opt(P, i, n, d))))
        obs.append((pre + '.rank_is_number_of_dominators', QA(n, lambda i: val(i) == NP._count_terms([dom(P, t, P, i, d) for t in range(conc(n))]))))
    else:
        obs.append((pre + '.spec', z3.Implies(z3.And(c >= 0, c < zi(n)), zero(c) == opt(P, c, n, d))))
        cnt = getattr(res, 'count_of', None)
        if cnt is not None:
            gfn, red = cnt
            # rank[i] is the boolean sum over j < n of an indicator that is exactly dom(P[j], P[i])
            obs.append((pre + '.rank_is_number_of_dominators', z3.And(zi(red) == zi(n), z3.Implies(z3.And(c >= 0, c < zi(n), j >= 0, j < zi(n)), gfn(c, j) == dom(P, j, P, c, d)))))
        elif p.run.pc is not None:
            obs.append((pre + '.rank_is_number_of_dominators', z3.BoolVal(conc(n) == 0) if conc(n) is not None else (zi(n) == 0)))
    return obs


def check_rank(chk, tier):
    chk.function(NSGA, '_pareto_rank')
    Fn(chk, tier, '_pareto_rank', rank_entry, rank_post, replay_of=replay_points('pareto_rank'), bounded_sizes=SMALL_ND,
       rename=support_rename('C11._pareto_rank'), workers=2, expect_paths=2).run()


# ------------------------------------------------------------------------------------------ 3. VizierServicer.ListOptimalTrials
import ast as _ast

from pyvc import symdict as SD
from contracts import servicer_model as S
from pyvc.protomodel import Msg, SymList, Str

LOT = 'VizierServicer.ListOptimalTrials'
SUCCEEDED, MINIMIZE = 4, 2
T_, ST_ = S.S_TRIAL, S.S_STUDY
sch = S.schema
acc = pm.accessor


def lot_roles():
    """The lists and loops of the current ListOptimalTrials, found by ROLE in the AST (robust to renaming, to helper
    extraction and to the way the final selection is written):
      loop1      the top-level `for` whose body appends its own loop target to a list          -> `considered`
      vectors    the other list appended to in that loop (a vector built in place or by a helper)
      loop3      a later top-level `for` that appends to a list (the selection by the optimal mask) -> `optimal`;
                 absent when the selection is a comprehension / numpy mask indexing (handled as a definitional filter)."""
    cls = ModuleInfo.get(SVC).classes['VizierServicer']
    fn = cls.methods['ListOptimalTrials']
    loops = sorted([n for n in _ast.walk(fn) if isinstance(n, (_ast.For, _ast.While))], key=lambda n: (n.lineno, n.col_offset))
    top = [l for l in loops if not any(l is not o and any(l is x for x in _ast.walk(o)) for o in loops)]

    def appends(loop):
        out = []
        for n in _ast.walk(loop):
            if isinstance(n, _ast.Call) and isinstance(n.func, _ast.Attribute) and n.func.attr == 'append' and isinstance(n.func.value, _ast.Name) \
                    and len(n.args) == 1:
                out.append((n.func.value.id, n.args[0]))
        return out
    roles = {'loop3': None}
    first = None
    for l in top:
        tgt = l.target.id if isinstance(l, _ast.For) and isinstance(l.target, _ast.Name) else None
        aps = appends(l)
        own = [x for x, a in aps if isinstance(a, _ast.Name) and a.id == tgt]
        if tgt is not None and own:
            first = l
            roles['loop1'] = loops.index(l) + 1
            roles['considered'] = own[0]
            # a list of vectors: appended to in the same loop, but not itself appended anywhere (the in-place vector is)
            appended_values = {a.id for _, a in aps if isinstance(a, _ast.Name)}
            others = [x for x, a in aps if x != own[0] and x not in appended_values]
            if len(set(others)) != 1:
                raise Unsupported('ListOptimalTrials: cannot identify the list of objective vectors by role (candidates: %s)' % sorted(set(others)))
            roles['vectors'] = others[0]
            break
    if first is None:
        raise Unsupported('ListOptimalTrials: no top-level loop that collects its own loop target into a list')
    for l in top[top.index(first) + 1:]:
        aps = appends(l)
        if isinstance(l, _ast.For) and aps:
            roles['loop3'] = loops.index(l) + 1
            roles['optimal'] = aps[0][0]
            break
    return roles


# ---- language model: {key(m): value(m) for m in xs} over an array-list of symbolic length is a function of the list
_DC = {}


def _dictcomp_fns(tag, arr_sort, ksort, vsort):
    if tag not in _DC:
        h = abs(hash(tag)) % 10 ** 8
        _DC[tag] = (z3.Function('dictcomp_dom_%d' % len(_DC), arr_sort, z3.IntSort(), z3.ArraySort(ksort, z3.BoolSort())),
                    z3.Function('dictcomp_val_%d' % len(_DC), arr_sort, z3.IntSort(), z3.ArraySort(ksort, vsort)))
    return _DC[tag]


def pinned_length(it, n):
    """concrete length of an array-list when the path condition determines it (bounded model queries pin lengths)"""
    if it.pure:
        return None
    for c in range(0, 5):
        if NP.implied(it, n == c):
            return c
    return None


_prev_comprehension = M.comprehension


def _comprehension(it, fr, e, kind):
    """list / set / dict comprehensions with one generator over an array-list of symbolic length:
      * length determined by the path condition (bounded model queries pin lengths; study_spec.metrics is pinned to d):
        evaluated element by element, exactly like a comprehension over a concrete list (filters fork);
      * otherwise, dict / set without a filter: the function dictcomp(xs) of the list (see below);
      * otherwise, list: the engine's definitional filter/map encoding (pyvc.models.symbolic_filter_map)."""
    gens = e.generators
    if kind in ('dict', 'set', 'list') and len(gens) == 1:
        gen = gens[0]
        first = it.eval(fr, gen.iter)
        if isinstance(first, SymList) and not isinstance(first, NP.EnumList) and M.try_iterate(it, first) is None:
            c = pinned_length(it, first.n)
            if c is not None:
                out = []
                for i in range(c):
                    fr2 = E.Frame(fr.mod, {}, parent=fr)
                    it.assign(fr2, gen.target, first.get(z3.IntVal(i)))
                    if all(it.truth(it.eval(fr2, cnd)) for cnd in gen.ifs):
                        out.append((it.eval(fr2, e.key), it.eval(fr2, e.value)) if kind == 'dict' else it.eval(fr2, e.elt))
                if kind == 'list':
                    return out
                if kind == 'set':
                    return M.make_set(it, out)
                d = M.PyDict()
                for k_, v_ in out:
                    d.set(it, k_, v_)
                return d
            if kind in ('dict', 'set') and not gen.ifs:
                if it.pure:
                    raise Unsupported('%s comprehension over a symbolic list in pure mode' % kind)
                J = it.run.fresh('dj', z3.IntSort())
                fr2 = E.Frame(fr.mod, {}, parent=fr)
                it.pure += 1
                try:
                    it.assign(fr2, gen.target, first.get(J))
                    kt = E.to_z3(it.eval(fr2, e.key if kind == 'dict' else e.elt))
                    vt = E.to_z3(it.eval(fr2, e.value)) if kind == 'dict' else kt
                finally:
                    it.pure -= 1
                kinds = {Str: 'str', z3.IntSort(): 'int', xreal.XReal: 'float', z3.BoolSort(): 'bool'}
                if kt.sort() not in kinds or vt.sort() not in kinds:
                    raise Unsupported('%s comprehension with key/value sorts %s/%s' % (kind, kt.sort(), vt.sort()))
                # the dictcomp function is named by what is computed per element (not by source text or local names)
                e0 = z3.Const('elem!canon', first.arr.sort().range())
                canon = lambda t: str(z3.substitute(t, (z3.Select(first.arr, J), e0)))
                tag = (canon(kt), canon(vt), str(first.arr.sort()))
                DOM, VAL = _dictcomp_fns(tag, first.arr.sort(), kt.sort(), vt.sort())
                it.run.assumed.add('{k(m): v(m) for m in xs} / {k(m) for m in xs} over a list of symbolic length is the function dictcomp(xs) of the list: '
                                   'key set = {k(m)}, value of a key = v of its last occurrence (language semantics; exact in the bounded model queries)')
                if kind == 'set':
                    return SD.SymSet(kinds[kt.sort()], mem=DOM(first.arr, first.n))
                return SD.SymMap(kinds[kt.sort()], kinds[vt.sort()], dom=DOM(first.arr, first.n), val=VAL(first.arr, first.n))
    return _prev_comprehension(it, fr, e, kind)


M.comprehension = _comprehension

_orig_contains = M.contains


def _contains(it, container, x):
    """`x in s` for a concrete-spine set/dict with symbolic elements inside a quantified context (comprehension filter over a
    symbolic list): the disjunction of the equalities instead of forking"""
    if it.pure and isinstance(container, (M.PySet, M.PyDict)):
        keys = container.elems if isinstance(container, M.PySet) else container.keys()
        return E.zor(*[E.eq_values(x, y) for y in keys])
    return _orig_contains(it, container, x)


M.contains = _contains

_orig_set = M.BUILTINS['set'].fn


def _b_set(it, args, kw):
    if args and isinstance(args[0], SD.SymMapView) and args[0].what == 'keys':
        return SD.SymSet(args[0].m.kspec, mem=args[0].m.dom)
    return _orig_set(it, args, kw)


M.BUILTINS['set'] = Builtin('set', _b_set)

# ---- append provenance (DESIGN 2.4): `out.append(v)` inside iteration i of the enclosing loop records src(out)[len(out)] = i
_orig_symlist_append = M.symlist_append


def _symlist_append(it, lst, v):
    prov = getattr(lst, 'prov', None)
    if prov is not None and prov in it.run.ghost:
        it.run.ghost[prov] = z3.Store(it.run.ghost[prov], lst.n, getattr(it.run, 'c11_clock', z3.IntVal(-1)))
    return _orig_symlist_append(it, lst, v)


M.symlist_append = _symlist_append


# ---- specification over a stored trial term
def metrics_of(t):
    fm = acc(T_(), 'final_measurement')(t)
    M_ = sch('vizier.Measurement')
    return acc(M_, 'metrics__len')(fm), acc(M_, 'metrics__arr')(fm)


def trial_has(g, t, mid):
    n, arr = metrics_of(t)
    MT = sch('vizier.Measurement.Metric')
    if g['mlen'] is not None:
        return z3.Or([acc(MT, 'metric_id')(arr[j]) == mid for j in range(g['mlen'])] + [z3.BoolVal(False)])
    DOM, VAL = lot_dictcomp(arr)
    return z3.Select(DOM(arr, n), mid)


def trial_val(g, t, mid):
    n, arr = metrics_of(t)
    MT = sch('vizier.Measurement.Metric')
    if g['mlen'] is not None:
        out = xreal.lit(0.0)
        for j in range(g['mlen']):
            out = z3.If(acc(MT, 'metric_id')(arr[j]) == mid, acc(MT, 'value')(arr[j]), out)     # last occurrence wins
        return out
    DOM, VAL = lot_dictcomp(arr)
    return z3.Select(VAL(arr, n), mid)


def lot_dictcomp(arr):
    """the dictcomp functions {m.metric_id: m.value for m in metrics} (named by the per-element key/value terms)"""
    MT = sch('vizier.Measurement.Metric')
    e0 = z3.Const('elem!canon', arr.sort().range())
    tag = (str(acc(MT, 'metric_id')(e0)), str(acc(MT, 'value')(e0)), str(arr.sort()))
    return _dictcomp_fns(tag, arr.sort(), Str, xreal.XReal)


def cons(g, t):
    """the considered trials of the property statement: successfully completed, reports every configured metric, and no
    objective value is NaN"""
    return z3.And([acc(T_(), 'state')(t) == SUCCEEDED] + [trial_has(g, t, mid) for mid, _ in g['metrics']]
                  + [z3.Not(xreal.is_nan(trial_val(g, t, mid))) for mid, _ in g['metrics']])


def vec(g, t, k):
    mid, goal = g['metrics'][k]
    v = trial_val(g, t, mid)
    return z3.If(goal == MINIMIZE, xreal.neg(v), v)


def dom_trials(g, a, b):
    d = len(g['metrics'])
    return z3.And(z3.And([xreal.ge(vec(g, a, k), vec(g, b, k)) for k in range(d)] + [z3.BoolVal(True)]),
                  z3.Or([xreal.gt(vec(g, a, k), vec(g, b, k)) for k in range(d)] + [z3.BoolVal(False)]))


def spec_reported(g, raw, i):
    """raw[i] must be reported: considered and not dominated by a considered trial"""
    t = raw.arr[i]
    return z3.And(cons(g, t), z3.Not(QE(raw.n, lambda j: z3.And(cons(g, raw.arr[j]), dom_trials(g, raw.arr[j], t)))))


# ---- loop contracts (Appendix F)
def _lst(v, what):
    """(n, arr) of an array-list; a python list that is still concrete must be empty (before the first havoc)"""
    if isinstance(v, list):
        if v:
            raise Unsupported('ListOptimalTrials: %s is a non-empty concrete list at a symbolic loop' % what)
        return z3.IntVal(0), None
    if isinstance(v, SymList):
        return v.n, v.arr
    raise Unsupported('ListOptimalTrials: %s is %r' % (what, v))


def _inv_lot1(it, fr, ctx):
    run = it.run
    g, roles = run.c11, run.c11['roles']
    raw, i = ctx.iter, ctx.i
    d = len(g['metrics'])
    nc, carr = _lst(fr.env[roles['considered']], 'considered')
    V = fr.env[roles['vectors']]
    src = run.ghost['c11.src1']
    if ctx.phase == 'init':
        if not (isinstance(V, list) and not V) and not isinstance(V, NDArray):
            raise Unsupported('ListOptimalTrials: objective-vector list is %r' % (V,))
        return [('sizes', z3.And(nc == 0, (V.shape[0] if isinstance(V, NDArray) else 0) == nc))]
    if ctx.phase == 'head':
        run.c11_clock = i
        g.update(C=M.snapshot(fr.env[roles['considered']]), V=M.snapshot(V), src1=src, raw=raw)
    inv = [('sizes', z3.And(nc >= 0, nc <= i, zi(V.shape[0]) == nc, zi(V.shape[1]) == d))]
    if ctx.phase == 'preserve':
        jj, x = run.fresh('jj', z3.IntSort()), run.fresh('xx', z3.IntSort())
        all_j = lambda body: z3.Implies(z3.And(jj >= 0, jj < nc), body(jj))
        all_x = lambda body: z3.Implies(z3.And(x >= 0, x < i), body(x))
        j2 = run.fresh('jj2', z3.IntSort())
        mono = z3.Implies(z3.And(jj >= 0, jj < j2, j2 < nc), src[jj] < src[j2])
    else:
        all_j = lambda body: QA(nc, body)
        all_x = lambda body: QA(i, body)
        mono = QA2(nc, lambda a, b: src[a] < src[b])
    inv.append(('provenance', all_j(lambda j: z3.And(src[j] >= 0, src[j] < i, carr[j] == raw.arr[src[j]], cons(g, raw.arr[src[j]])))))
    inv.append(('order', mono))
    if ctx.phase == 'preserve':
        # explicit witness: either the element appended in this iteration, or an earlier one (stronger than exists j < nc)
        nh = g['C'].n
        inv.append(('complete', all_x(lambda y: z3.Implies(cons(g, raw.arr[y]), z3.Or(
            z3.And(nc == nh + 1, src[nh] == y), QE(nh, lambda j: z3.And(j < nc, src[j] == y)))))))
    else:
        inv.append(('complete', all_x(lambda y: z3.Implies(cons(g, raw.arr[y]), QE(nc, lambda j: src[j] == y)))))
    inv.append(('vectors', all_j(lambda j: z3.And([V.at(j, k) == vec(g, carr[j], k) for k in range(d)] + [z3.BoolVal(True)]))))
    return inv


def _bool_of(item):
    """the boolean of one element of the selection loop's iterator: enumerate(list(mask)) -> (i, b); zip(xs, mask) -> (x, b)"""
    items = item if isinstance(item, tuple) else (item,)
    bs = [x for x in items if z3.is_expr(x) and x.sort() == z3.BoolSort()]
    if len(bs) != 1:
        raise Unsupported('ListOptimalTrials selection loop: cannot identify the optimality flag among the loop targets')
    return bs[0]


def _inv_lot3(it, fr, ctx):
    run = it.run
    g, roles = run.c11, run.c11['roles']
    en, i = ctx.iter, ctx.i
    ob = lambda y: _bool_of(en.get(y))
    C = fr.env[roles['considered']]
    no, oarr = _lst(fr.env[roles['optimal']], 'optimal')
    src = run.ghost['c11.src3']
    if ctx.phase == 'init':
        return [('sizes', no == 0)]
    if ctx.phase == 'head':
        run.c11_clock = i
        g.update(O=M.snapshot(fr.env[roles['optimal']]), src3=(lambda j, src=src: src[j]), OBf=ob, C3=M.snapshot(C))
    inv = [('sizes', z3.And(no >= 0, no <= i))]
    if ctx.phase == 'preserve':
        jj, x, j2 = run.fresh('jj', z3.IntSort()), run.fresh('xx', z3.IntSort()), run.fresh('jj2', z3.IntSort())
        all_j = lambda body: z3.Implies(z3.And(jj >= 0, jj < no), body(jj))
        all_x = lambda body: z3.Implies(z3.And(x >= 0, x < i), body(x))
        mono = z3.Implies(z3.And(jj >= 0, jj < j2, j2 < no), src[jj] < src[j2])
    else:
        all_j = lambda body: QA(no, body)
        all_x = lambda body: QA(i, body)
        mono = QA2(no, lambda a, b: src[a] < src[b])
    inv.append(('provenance', all_j(lambda j: z3.And(src[j] >= 0, src[j] < i, oarr[j] == C.arr[src[j]], ob(src[j])))))
    inv.append(('order', mono))
    if ctx.phase == 'preserve':
        nh = g['O'].n
        inv.append(('complete', all_x(lambda y: z3.Implies(ob(y), z3.Or(z3.And(no == nh + 1, src[nh] == y),
                                                                       QE(nh, lambda j: z3.And(j < no, src[j] == y)))))))
    else:
        inv.append(('complete', all_x(lambda y: z3.Implies(ob(y), QE(no, lambda j: src[j] == y)))))
    return inv


def lot_register():
    roles = lot_roles()
    E.LOOPS[(SVC, LOT, roles['loop1'])] = E.LoopSpec(_inv_lot1, ghost=('c11.src1',))
    if roles['loop3'] is not None:
        E.LOOPS[(SVC, LOT, roles['loop3'])] = E.LoopSpec(_inv_lot3, ghost=('c11.src3',))

    def mk_trials(prov):
        def mk(it, v):
            if v:
                raise Unsupported('ListOptimalTrials: list is not empty at loop entry')
            r = SymList(z3.IntVal(0), z3.K(z3.IntSort(), pm._default_term(pm.msg_sort(T_()))), T_())
            r.prov = prov
            return r
        return mk

    def mk_vectors(it, v):
        if v:
            raise Unsupported('ListOptimalTrials: list is not empty at loop entry')
        return NDArray((0, len(it.run.c11['metrics'])), 'float', lambda j, k: xreal.lit(0.0), kind='list')
    NP.declare_list(SVC, LOT, roles['considered'], mk_trials('c11.src1'))
    if roles['loop3'] is not None:
        NP.declare_list(SVC, LOT, roles['optimal'], mk_trials('c11.src3'))
    NP.declare_list(SVC, LOT, roles['vectors'], mk_vectors)
    return roles


_orig_list_trials = S.DS_METHODS['list_trials']


def _list_trials(it, args, kw):
    """bounded model queries: the list has a concrete length and carries no quantified facts (the link between the
    list and the datastore view is not needed by the C11 clauses, which relate the response to this list)"""
    run = it.run
    pin = getattr(run, 'c11', {}).get('pin_n')
    k0 = len(run.axioms)
    L = _orig_list_trials(it, args, kw)
    if hasattr(run, 'c11'):
        # the C11 clauses relate the response to the list returned by list_trials; that this list is the study's stored
        # trials in creation order is the DataStore contract itself (Appendix A).  Its quantified statement is not used
        # here (dropping hypotheses is sound) -- together with the provenance invariants it forms a matching loop.
        del run.axioms[k0:]
        run.c11['raw'] = M.snapshot(L)
    if pin is not None:
        run.assume(L.n == pin)
        L.n = z3.IntVal(pin)
        run.c11['raw'] = M.snapshot(L)
        c = run.c11['mlen']
        MT = sch('vizier.Measurement.Metric')
        mids = [m for m, _ in run.c11['metrics']]
        other = z3.Const('other_metric_id', Str)
        for m in mids:
            run.assume(other != m)
        for i in range(pin):
            ln, arr = metrics_of(L.arr[i])
            run.assume(ln == c)
            # the model search is restricted (it only has to find replayable inputs): a trial reports the configured
            # metrics in order, except that the last one may carry another name (a missing metric); in the second search
            # stage ('perm') the trials after the first report them in any order
            tids = [acc(MT, 'metric_id')(arr[j]) for j in range(min(c, len(mids)))]
            if run.c11.get('search') == 'perm' and i > 0 and len(mids) > 1:
                for t_ in tids:
                    run.assume(z3.Or([t_ == m for m in mids] + [t_ == other]))
                run.assume(z3.Distinct(*tids))
                continue
            for j, mid in enumerate(tids):
                run.assume(mid == mids[j] if j < len(mids) - 1 else z3.Or(mid == mids[j], mid == other))
    return L


S.DS_METHODS['list_trials'] = _list_trials


def lot_entry(d):
    def entry_of(sz):
        def entry(it):
            run = it.run
            S.init_view(run)
            svc = S.make_servicer(it)
            req = S.symbolic_msg('vizier.ListOptimalTrialsRequest', 'req')
            sk = S.parse(E.to_z3(req.get('parent')))
            ST = ST_()
            spec = acc(ST, 'study_spec')(S.val(ST, run.ghost['D.study'][sk]))
            SP, MS = sch('vizier.StudySpec'), sch('vizier.StudySpec.MetricSpec')
            run.assume(acc(SP, 'metrics__len')(spec) == d)
            marr = acc(SP, 'metrics__arr')(spec)
            metrics = [(acc(MS, 'metric_id')(marr[k]), acc(MS, 'goal')(marr[k])) for k in range(d)]
            if d > 1:
                run.assume(z3.Distinct(*[m for m, _ in metrics]))
            run.ghost['c11.src1'] = z3.K(z3.IntSort(), z3.IntVal(0))
            run.ghost['c11.src3'] = z3.K(z3.IntSort(), z3.IntVal(0))
            run.np_defer_facts = True
            run.c11 = dict(nan_finding_open=LOT_NAN_OPEN, metrics=metrics, roles=LOT_ROLES, sk=sk, req=req, mlen=None if sz is None else sz[1], pin_n=None if sz is None else sz[0],
                           search=None if sz is None or len(sz) < 3 else sz[2])
            cls = ModuleInfo.get(SVC).classes['VizierServicer']
            return it.invoke(E.FuncVal(cls.mod, cls.methods['ListOptimalTrials'], cls), [svc, req, None], {})
        return entry
    return entry_of


LOT_KNOWN_NAN = ('ListOptimalTrials reports a SUCCEEDED trial whose objective value is NaN as optimal '
                 '(a NaN is never dominated; DESIGN 10 row 9)')


def lot_post(d):
    pre = 'C11.ListOptimalTrials'

    def post(p):
        run = p.run
        g = run.c11
        D0, D1 = run.D0, run.ghost
        sk = g['sk']
        ST = ST_()
        present = z3.And(S.Name.is_study(sk), S.is_some(ST, D0['D.study'][sk]))
        obs = [(pre + '.frame', z3.And(*[D1[x] == D0[x] for x in S.GHOSTS]))]
        if p.kind == 'raise':
            return obs + [(pre + '.raises_only_if_study_absent', z3.Not(present))]
        resp, raw = p.value, g.get('raw')
        if not isinstance(resp, Msg) or raw is None:
            return obs + [(pre + '.response', z3.BoolVal(False))]
        R = resp.get('optimal_trials')
        nr, ra = R.n, R.arr
        n = raw.n
        nan_free = lambda t: z3.And([z3.Not(xreal.is_nan(vec(g, t, k))) for k in range(d)] + [z3.BoolVal(True)])
        if g['pin_n'] is not None:
            # model query: the response is exactly the filter of the stored list by the specification, in order
            N = g['pin_n']
            sp = [spec_reported(g, raw, z3.IntVal(i)) for i in range(N)]
            pos = [NP._count_terms(sp[:i]) for i in range(N)]
            exact = z3.And([nr == NP._count_terms(sp)] + [z3.Implies(sp[i], ra[pos[i]] == raw.arr[i]) for i in range(N)])
            obs.append((pre + '.iff', exact))       # includes the storage order (the unbounded run states `order` separately)
            obs.append((pre + '.considered', z3.And([z3.Implies(j < nr, cons(g, ra[j])) for j in range(N)] + [z3.BoolVal(True)])))
            obs.append((pre + '.no_nan_objective', z3.And([z3.Implies(j < nr, nan_free(ra[j])) for j in range(N)] + [z3.BoolVal(True)])))
            return obs
        j0, i0, j1 = z3.Int('j0!p'), z3.Int('i0!p'), z3.Int('j1!p')
        in_r = z3.And(j0 >= 0, j0 < nr)
        sel3 = selection_of(run, g, R)
        if sel3 is None:
            # early return: nothing is reported, so nothing may satisfy the specification
            obs.append((pre + '.iff', z3.And(nr == 0, z3.Implies(z3.And(i0 >= 0, i0 < n), z3.Not(spec_reported(g, raw, i0))))))
            obs.append((pre + '.order', nr == 0))
            obs.append((pre + '.considered', nr == 0))
            obs.append((pre + '.no_nan_objective', nr == 0))
            return obs
        C, V, src1 = g['C'], g['V'], g['src1']
        s3, OBf, complete_at = sel3
        nc = C.n
        if complete_at is not None and not g.get('filter_instance_added'):
            g['filter_instance_added'] = True
            NP.fact(run, complete_at(z3.Int('c1!p')))
        if not g.get('deferred_added'):
            g['deferred_added'] = True
            for f in getattr(run, 'np_deferred', []):      # list(optimal_booleans)[j] == optimal_booleans[j]
                NP.fact(run, f)
        w = lambda j: src1[s3(j)]
        # lemmas (cut rule: each proved from the loop-exit invariants, then available to the clauses below)
        obs.append((pre + '.lemma.numpy_block_is_dominance',
                    QA(nc, lambda c: OBf(c) == z3.Not(QE(nc, lambda j2: dom_trials(g, C.arr[j2], C.arr[c])))), 'lemma'))
        obs.append((pre + '.lemma.considered_complete',
                    QA(n, lambda x: z3.Implies(cons(g, raw.arr[x]), QE(nc, lambda j: z3.And(C.arr[j] == raw.arr[x], src1[j] == x)))), 'lemma'))
        obs.append((pre + '.lemma.considered_sound',
                    QA(nc, lambda c: z3.And(src1[c] >= 0, src1[c] < n, C.arr[c] == raw.arr[src1[c]], cons(g, C.arr[c]))), 'lemma'))
        obs.append((pre + '.lemma.response_is_filtered',
                    z3.Implies(in_r, z3.And(s3(j0) >= 0, s3(j0) < nc, ra[j0] == C.arr[s3(j0)], OBf(s3(j0)))), 'lemma'))
        obs.append((pre + '.considered', z3.Implies(in_r, cons(g, ra[j0]))))
        obs.append((pre + '.iff.reported_meets_spec', z3.Implies(in_r, z3.And(w(j0) >= 0, w(j0) < n, ra[j0] == raw.arr[w(j0)], spec_reported(g, raw, w(j0))))))
        # proof script for "every trial meeting the specification is reported" (each step is an obligation; DESIGN 2.3):
        #   obtain c1 < nc with considered[c1] = raw[i0]; use numpy_block_is_dominance at c1; use loop-3 completeness at c1
        c1 = z3.Int('c1!p')
        hyp0 = z3.And(i0 >= 0, i0 < n, cons(g, raw.arr[i0]))
        K = lambda c: z3.And(c >= 0, c < nc, src1[c] == i0, C.arr[c] == raw.arr[i0])
        obs.append((pre + '.iff.spec_is_reported.obtain_considered_index', z3.Implies(hyp0, QE(nc, K)), 'lemma'))
        obs.append((pre + '.iff.spec_is_reported.use_numpy_block', z3.Implies(K(c1), OBf(c1) == z3.Not(QE(nc, lambda j2: dom_trials(g, C.arr[j2], C.arr[c1])))), 'lemma'))
        obs.append((pre + '.iff.spec_is_reported.use_filter_complete', z3.Implies(z3.And(K(c1), OBf(c1)), QE(nr, lambda j: s3(j) == c1)), 'lemma'))
        obs.append((pre + '.iff.spec_is_reported', z3.Implies(z3.And(hyp0, spec_reported(g, raw, i0), K(c1)), QE(nr, lambda j: w(j) == i0))))
        obs.append((pre + '.order', z3.Implies(z3.And(j0 >= 0, j0 < j1, j1 < nr), w(j0) < w(j1))))
        obs.append((pre + '.no_nan_objective', z3.Implies(in_r, nan_free(ra[j0]))))
        if g.get('nan_finding_open'):
            expect_open(obs[-1][1])
        return obs
    return post


def selection_of(run, g, R):
    """(src3, flag): response[j] is considered[src3(j)] and flag(c) is the optimality flag of considered[c] -- from the selection
    loop's ghost provenance, or from the definitional encoding of a filtering comprehension / boolean-mask indexing."""
    if 'src3' in g:
        return g['src3'], g['OBf'], None
    for f in reversed(getattr(run, 'filters', [])):
        if f.arr.eq(R.arr):
            # third component: the completeness axiom of the definitional encoding instantiated at a given index (an
            # instance of a fact that is already among the hypotheses; it has no trigger when the flag is constant)
            inst = lambda c, f=f: z3.Implies(z3.And(c >= 0, c < f.parent.n, f.cond_at(c)), QE(f.n, lambda j: f.src[j] == c))
            return (lambda j, f=f: f.src[j]), f.cond_at, inst
    for f in reversed(getattr(run, 'np_filters', [])):
        if f['arr'].eq(R.arr):
            return f['src'], f['cond'], f['complete_at']
    return None


def lot_known(d):
    def cls(p):
        """the finding's witness class: some reported trial is a considered trial with a NaN objective"""
        g = p.run.c11
        R = p.value.get('optimal_trials') if isinstance(p.value, Msg) else None
        if R is None:
            return False
        bad = lambda t: z3.And(cons(g, t), z3.Or([xreal.is_nan(vec(g, t, k)) for k in range(d)] + [z3.BoolVal(False)]))
        return QE(R.n if g['pin_n'] is None else g['pin_n'], lambda j: z3.And(j < R.n, bad(R.arr[j])))
    return {'C11.ListOptimalTrials.no_nan_objective': (LOT_KNOWN_NAN, cls)}


def lot_replay(d):
    def mk(name, path, model, sz):
        g = path.run.c11
        if g['pin_n'] is None:
            return None
        ev = lambda t: model.eval(t, model_completion=True)
        ids = {}

        def sid(t):
            v = ev(t)
            return ids.setdefault(str(v), 'm%d' % len(ids))
        metrics = [{'id': sid(m), 'goal': 'MINIMIZE' if ev(goal).as_long() == MINIMIZE else 'MAXIMIZE'} for m, goal in g['metrics']]
        MT = sch('vizier.Measurement.Metric')
        trials = []
        raw = g['raw']
        for i in range(g['pin_n']):
            t = raw.arr[i]
            n, arr = metrics_of(t)
            ms = [{'id': sid(acc(MT, 'metric_id')(arr[j])), 'value': jsonable([[xreal.model_value(model, acc(MT, 'value')(arr[j]))]])[0][0]}
                  for j in range(g['mlen'])]
            trials.append({'succeeded': ev(acc(T_(), 'state')(t)).as_long() == SUCCEEDED, 'metrics': ms})
        return {'mode': 'list_optimal', 'obligation': name, 'metrics': metrics, 'trials': trials}
    return mk


LOT_ROLES = None
LOT_NAN_OPEN = False


# ------------------------------------------------------------------------------------------ 4. FastParetoOptimalAlgorithm
# The same specification with its two sub-formulas named (a conservative extension by definitions):
#     GE(x, y) :<=> forall k in columns. A[x][k] >= P[y][k]        GT(x, y) :<=> exists k in columns. A[x][k] > P[y][k]
#     dom(A[x], P[y]) = GE(x, y) and GT(x, y)
# x, y are ROW INDICES OF THE INPUT ARRAYS: every array the algorithm builds (sorted copies, halves, column slices) consists of
# rows of the inputs (ghost `origin` of pyvc.np_model), so the contracts of the recursive calls are stated over input rows.
# Naming the inner quantifiers is what makes the outer (exists a row) reasoning go through by E-matching.
FAST_AG = 'FastParetoOptimalAlgorithm.is_pareto_optimal_against'
FAST_OP = 'FastParetoOptimalAlgorithm.is_pareto_optimal'


def norm_sum(a, b):
    return NP.norm(z3.simplify(zi(a) + zi(b)))


def origin_of(X):
    """(root fn, row map on local row indices, column offset): X[i, k] == root(rowmap(i), k + cofs)"""
    return X.origin if X.origin is not None else (X.fn, (lambda t: t), 0)


def row_preds(run, rootA, rootP, cofs, d):
    cache = run.__dict__.setdefault('c11_preds', {})
    key = (id(rootA), id(rootP), str(cofs), str(d))
    if key not in cache:
        i = len(cache)
        GE = z3.Function('GE!%d' % i, z3.IntSort(), z3.IntSort(), z3.BoolSort())
        GT = z3.Function('GT!%d' % i, z3.IntSort(), z3.IntSort(), z3.BoolSort())
        x, y = z3.Int('x!pd'), z3.Int('y!pd')
        hi = norm_sum(cofs, d)
        for df in (z3.ForAll([x, y], GE(x, y) == QA(hi, lambda k: xreal.ge(rootA(x, k), rootP(y, k)), lo=cofs), patterns=[GE(x, y)]),
                   z3.ForAll([x, y], GT(x, y) == QE(hi, lambda k: xreal.gt(rootA(x, k), rootP(y, k)), lo=cofs), patterns=[GT(x, y)])):
            run.axiom(df)
            run.__dict__.setdefault('c11_fact_tags', {})[df.get_id()] = 'def'
        cache[key] = (GE, GT, rootA, rootP)
    return cache[key][0], cache[key][1]


def body_of(GE, GT, strict):
    def body(x, y):
        if isinstance(strict, bool):
            return z3.And(GE(x, y), GT(x, y)) if strict else GE(x, y)
        return z3.If(strict, z3.And(GE(x, y), GT(x, y)), GE(x, y))
    return body


def contract_result(it, P, A, strict, who):
    """callee contract of BaseParetoOptimalAlgorithm.is_pareto_optimal_against (A = `against`) and, with A = P and
    strict = True, of is_pareto_optimal:   result[i]  <=>  not exists row a of A. body(a, row i of P).
    Returns the result array; the fact is instantiated on demand at result terms."""
    run = it.run
    n, d = P.shape
    m = A.shape[0]
    bn = run.c11.get('bounds')
    # precondition of the library Pareto routines: no NaN (a NaN row makes the naive algorithm mark every point dominated)
    nan_free = lambda X: (z3.And([z3.Implies(t < zi(X.shape[0]), z3.Not(xreal.is_nan(X.at(t, k)))) for t in range(bn[0] if X is P else bn[1]) for k in range(conc(d))]
                                 + [z3.BoolVal(True)]) if bn is not None and conc(d) is not None else
                          QA(X.shape[0], lambda t: QA(X.shape[1], lambda k: z3.Not(xreal.is_nan(X.at(t, k))))))
    run.oblige('VizierC11.callee_pre.%s.no_nan' % who, z3.And(nan_free(P), nan_free(A)) if A is not P else nan_free(P))
    if bn is not None:
        return contract_result_bounded(it, P, A, strict, who, bn)
    rootP, rmP, cP = origin_of(P)
    rootA, rmA, cA = origin_of(A)
    if conc(z3.simplify(zi(cP) - zi(cA))) != 0:
        raise Unsupported('%s: the two arguments are different column windows of their inputs' % who)
    GE, GT = row_preds(run, rootA, rootP, cP, d)
    body = body_of(GE, GT, strict)
    prl = P.win[1] if P.win is not None else 0
    arl = A.win[1] if A.win is not None else 0
    rowP = lambda t: z3.simplify(rmP(z3.simplify(t - zi(prl))))       # base (window) index -> input row
    rowA = lambda a: z3.simplify(rmA(z3.simplify(a - zi(arl))))
    g = NP.fresh_fn(run, 'res_' + who.replace('.', '_'), 1, z3.BoolSort())
    pz = zi(prl)
    R = NDArray((n,), 'bool', (lambda i: g(i)) if conc(prl) == 0 else (lambda i: g(z3.simplify(i + pz))))
    t, a = z3.Int('t!cf%d' % next(NP._uid)), z3.Int('a!cf%d' % next(NP._uid))
    rng = z3.And(t >= pz, t < z3.simplify(pz + zi(n)))
    arng = z3.And(a >= zi(arl), a < z3.simplify(zi(arl) + zi(m)))
    run.axiom(z3.ForAll([t], z3.Implies(rng, g(t) == z3.Not(z3.Exists([a], z3.And(arng, body(rowA(a), rowP(t)))))), patterns=[g(t)]))
    # ... and its universal half with an explicit trigger (a consequence of the line above, stated for E-matching)
    run.axiom(z3.ForAll([t, a], z3.Implies(z3.And(rng, arng, g(t)), z3.Not(body(rowA(a), rowP(t)))),
                        patterns=[z3.MultiPattern(g(t), GE(rowA(a), rowP(t)))]))
    # the same statement with the existential named by a witness function (Skolem form of the line above: conservative)
    w = NP.fresh_fn(run, 'dominator', 1, z3.IntSort())
    run.axiom(z3.ForAll([t], z3.Implies(z3.And(rng, z3.Not(g(t))), z3.And(w(t) >= zi(arl), w(t) < z3.simplify(zi(arl) + zi(m)), body(rowA(w(t)), rowP(t)))),
                        patterns=[g(t)]))
    run.c11.setdefault('calls', []).append(dict(who=who, n=n, m=m, d=d, strict=strict, g=g, w=w, prl=prl, arl=arl, rowP=rowP, rowA=rowA,
                                                GE=GE, GT=GT, body=body))
    return R


def contract_result_bounded(it, P, A, strict, who, bn):
    """bounded model query: the same contract with every quantifier expanded over the concrete sizes of the inputs"""
    run = it.run
    n, d = P.shape
    m = A.shape[0]
    prl = P.win[1] if P.win is not None else 0
    arl = A.win[1] if A.win is not None else 0
    pf = P.win[0] if P.win is not None else P.fn
    af = A.win[0] if A.win is not None else A.fn
    pc_ = P.win[2] if P.win is not None else 0
    ac_ = A.win[2] if A.win is not None else 0
    dd = conc(d)
    if dd is None or conc(pc_) is None or conc(ac_) is None:
        raise Unsupported('%s: symbolic number of columns in a bounded model query' % who)
    ge_all = lambda a, t: z3.And([xreal.ge(af(a, z3.IntVal(k + conc(ac_))), pf(t, z3.IntVal(k + conc(pc_)))) for k in range(dd)] + [z3.BoolVal(True)])
    gt_some = lambda a, t: z3.Or([xreal.gt(af(a, z3.IntVal(k + conc(ac_))), pf(t, z3.IntVal(k + conc(pc_)))) for k in range(dd)] + [z3.BoolVal(False)])

    def body(a, t):
        if isinstance(strict, bool):
            return z3.And(ge_all(a, t), gt_some(a, t)) if strict else ge_all(a, t)
        return z3.If(strict, z3.And(ge_all(a, t), gt_some(a, t)), ge_all(a, t))
    g = NP.fresh_fn(run, 'res_' + who.replace('.', '_'), 1, z3.BoolSort())
    pz, az = zi(prl), zi(arl)
    R = NDArray((n,), 'bool', (lambda i: g(i)) if conc(prl) == 0 else (lambda i: g(z3.simplify(i + pz))))
    for t in range(bn[0]):
        dominated = z3.Or([z3.And(az <= a, a < az + zi(m), body(z3.IntVal(a), z3.IntVal(t))) for a in range(bn[1])] + [z3.BoolVal(False)])
        NP.fact(run, z3.Implies(z3.And(pz <= t, t < pz + zi(n)), g(z3.IntVal(t)) == z3.Not(dominated)))
    run.c11.setdefault('calls', []).append(dict(who=who, n=n, m=m, d=d, strict=strict, g=g, prl=prl, arl=arl))
    return R


def check_rank2(who, *arrays):
    for X in arrays:
        if not (isinstance(X, NDArray) and X.rank == 2):
            raise Unsupported('%s called with %r' % (who, X))


def _bind_args(names, args, kw):
    out = dict(zip(names, args))
    out.update(kw)
    return out


def fast_register(top):
    """contracts replacing: the base algorithm (any implementation of the abstract class) and the recursive calls;
    `top` is the qualified name of the function whose real body is executed (its first invocation)."""
    def against(it, P, A, strict, who):
        check_rank2(who, P, A)
        it.run.oblige('VizierC11.callee_pre.%s.same_columns' % who, zi(P.shape[1]) == zi(A.shape[1]))
        return contract_result(it, P, A, strict, who)

    def base_against(it, args, kw):
        b = _bind_args(['self', 'points', 'against', 'strict'], args, kw)
        return against(it, b['points'], b['against'], b['strict'], 'base.is_pareto_optimal_against')

    def base_optimal(it, args, kw):
        b = _bind_args(['self', 'points'], args, kw)
        check_rank2('base.is_pareto_optimal', b['points'])
        return contract_result(it, b['points'], b['points'], True, 'base.is_pareto_optimal')

    def fast_against(it, args, kw):
        run = it.run
        if top == FAST_AG and not run.c11.get('entered'):
            run.c11['entered'] = True
            return invoke_real(it, method(PO, FAST_AG), args, kw)
        b = _bind_args(['self', 'points', 'against', 'strict'], args, kw)
        P = b['points']
        check_rank2('self.is_pareto_optimal_against', P, b['against'])
        if top == FAST_AG:
            # recursion: partial correctness by the callee contract at a strictly smaller number of points (variant)
            run.oblige('VizierC11.recursion.variant_decreases', z3.And(zi(P.shape[0]) >= 0, zi(P.shape[0]) < zi(run.c11['n'])))
            run.oblige('VizierC11.recursion.columns_at_least_one', zi(P.shape[1]) >= 1)
        return against(it, P, b['against'], b['strict'], 'self.is_pareto_optimal_against')

    def fast_optimal(it, args, kw):
        run = it.run
        if top == FAST_OP and not run.c11.get('entered'):
            run.c11['entered'] = True
            return invoke_real(it, method(PO, FAST_OP), args, kw)
        b = _bind_args(['self', 'points'], args, kw)
        P = b['points']
        check_rank2('self.is_pareto_optimal', P)
        if top == FAST_OP:
            run.oblige('VizierC11.recursion.variant_decreases', z3.And(zi(P.shape[0]) >= 0, zi(P.shape[0]) < zi(run.c11['n'])))
        return contract_result(it, P, P, True, 'self.is_pareto_optimal')

    E.MODELS[PO + ':NaiveParetoOptimalAlgorithm.is_pareto_optimal_against'] = base_against
    E.MODELS[PO + ':NaiveParetoOptimalAlgorithm.is_pareto_optimal'] = base_optimal
    E.MODELS[PO + ':' + FAST_AG] = fast_against
    E.MODELS[PO + ':' + FAST_OP] = fast_optimal


def _split_loop_names():
    """(S, idx, v): names in the test of the split loop `while S[idx][0] == v`, found in the AST"""
    node = ModuleInfo.get(PO).classes['FastParetoOptimalAlgorithm'].methods['is_pareto_optimal_against']
    loops = sorted([n for n in _ast.walk(node) if isinstance(n, _ast.While)], key=lambda n: n.lineno)
    if len(loops) != 1:
        raise Unsupported('Fast.is_pareto_optimal_against: expected one while loop')
    t = loops[0].test
    try:
        assert isinstance(t, _ast.Compare) and len(t.ops) == 1 and isinstance(t.ops[0], _ast.Eq)
        l, r = t.left, t.comparators[0]
        if isinstance(l, _ast.Name):
            l, r = r, l
        return l.value.value.id, l.value.slice.id, r.id
    except (AssertionError, AttributeError):
        raise Unsupported('Fast.is_pareto_optimal_against: split loop test has an unexpected shape: %s' % _ast.unparse(t))


def _inv_fast_split(it, fr, ctx):
    """while sorted_points[split_index][0] == split_value: split_index += 1 ...
    s0 <= split_index < n  and  forall a in [s0, split_index). S[a][0] == v"""
    sn, ixn, vn = it.run.c11['split_names']
    S, ix, v = fr.env[sn], fr.env[ixn], fr.env[vn]
    s0 = ctx.entry_vals[ixn]
    n = S.shape[0]
    it.run.c11['split'] = dict(S=S.copy(), s0=s0, v=v, ix=ix)
    inv = [('range', z3.And(zi(s0) <= zi(ix), zi(ix) < zi(n)))]
    if ctx.phase == 'preserve':
        a = it.run.fresh('aa', z3.IntSort())
        inv.append(('plateau', z3.Implies(z3.And(a >= zi(s0), a < zi(ix)), xreal.eq(S.at(a, 0), v))))
    elif conc(n) is not None:
        inv.append(('plateau', QA(n, lambda a: z3.Implies(z3.And(a >= zi(s0), a < zi(ix)), xreal.eq(S.at(a, 0), v)))))
    else:
        inv.append(('plateau', QA(ix, lambda a: xreal.eq(S.at(a, 0), v), lo=s0)))
    return inv


E.LOOPS[(PO, FAST_AG, 1)] = E.LoopSpec(_inv_fast_split)


def fast_self(t):
    mod = ModuleInfo.get(PO)
    fast, naive = mod.classes['FastParetoOptimalAlgorithm'], mod.classes['NaiveParetoOptimalAlgorithm']
    return Obj(fast, {'_base_algorithm': Obj(naive, {}), '_recursive_threshold': t})


def fast_against_entry(strict):
    def entry_of(sz):
        def entry(it):
            run = it.run
            n, m, d = sizes(run, None if sz is None else sz[:3], names=('n', 'm', 'd'), lows=(0, 0, 1))
            if sz is None:
                t = z3.Int('threshold')
                run.assume(t >= 1)
            else:
                t = sz[3]
            P = fresh_points(run, 'P', n, d)
            A = fresh_points(run, 'A', m, d)
            run.c11 = dict(P=P, A=A, n=n, m=m, d=d, strict=strict, threshold=t, split_names=_split_loop_names())
            if sz is not None:
                run.c11['bounds'] = (sz[0], sz[1])
            return it.call(it.getattr(fast_self(t), 'is_pareto_optimal_against'), [P.copy(), A.copy()], {'strict': strict})
        return entry
    return entry_of


def fast_optimal_entry(sz):
    def entry(it):
        run = it.run
        n, d = sizes(run, None if sz is None else sz[:2], names=('n', 'd'), lows=(0, 1))
        if sz is None:
            t = z3.Int('threshold')
            run.assume(t >= 1)
        else:
            t = sz[2]
        P = fresh_points(run, 'P', n, d)
        run.c11 = dict(P=P, n=n, d=d, threshold=t, finding_open=FAST_FINDING_OPEN)
        if sz is not None:
            run.c11['bounds'] = (sz[0], sz[0])
        return it.call(it.getattr(fast_self(t), 'is_pareto_optimal'), [P.copy()], {})
    return entry


def has_tie_in_coordinate_0(P, n):
    """the witness class of finding 8: two distinct points share their first coordinate"""
    return QE(n, lambda i: QE(n, lambda j: z3.And(i != j, P.at(i, 0) == P.at(j, 0))))


def fast_post(pre, kind):
    """kind: 'against' | 'optimal'.  Bounded model queries use the expanded specification (post_against/post_optimal);
    the proof query states the same specification with GE/GT named, plus the proof script of the D&C path."""
    expanded = post_against(pre) if kind == 'against' else post_optimal(pre)

    def post(p):
        run = p.run
        g = run.c11
        if p.kind != 'return':
            return [(pre + '.no_exception', z3.BoolVal(False))]
        if conc(g['n']) is not None:
            return expanded(p)
        P, n, d = g['P'], g['n'], g['d']
        A, m, strict = (g['A'], g['m'], g['strict']) if kind == 'against' else (P, n, True)
        res = p.value
        obs = [(pre + '.shape', result_shape_ok(res, n))]
        if not (isinstance(res, NDArray) and res.rank == 1):
            return obs
        GEf, GTf = row_preds(run, A.fn, P.fn, 0, d)
        body = body_of(GEf, GTf, strict)
        c, a1 = z3.Int('c!post'), z3.Int('a!post')
        rng = z3.And(c >= 0, c < zi(n))
        spec = z3.Not(z3.Exists([a1], z3.And(a1 >= 0, a1 < zi(m), body(a1, c))))
        iff = (pre + '.iff', z3.Implies(rng, res.at(c) == spec))
        calls = [x for x in g.get('calls', []) if x['who'].startswith('self.')]
        sorts = getattr(run, 'np_argsorts', [])
        if kind == 'optimal':
            # the recursive calls by role: halves (is_pareto_optimal on the rows from 0 / from the split) and cross checks
            # (is_pareto_optimal_against of one half against the other; the one for the higher half exists since 14d2f74)
            halves = [x for x in calls if x['who'] == 'self.is_pareto_optimal']
            cross = [x for x in calls if x['who'] == 'self.is_pareto_optimal_against']
            lo_h, hi_h = [x for x in halves if conc(x['prl']) == 0], [x for x in halves if conc(x['prl']) != 0]
            lo_x, hi_x = [x for x in cross if conc(x['prl']) == 0], [x for x in cross if conc(x['prl']) != 0]
            if len(lo_h) != 1 or len(hi_h) != 1 or len(lo_x) != 1 or len(hi_x) > 1 or len(sorts) != 1:
                return obs + [iff]
            calls = [hi_h[0], lo_h[0], lo_x[0]]
            upper_cross = hi_x[0]['g'] if hi_x else None
        else:
            upper_cross = None
            if len(calls) != 3 or len(sorts) != 2:
                return obs + [iff]
        # ---- the divide-and-conquer path: proof script (Appendix F); every step is an obligation (cut rule)
        L = lambda name, f, *tags: (pre + '.' + name, need(f, *tags), 'lemma')       # default: neither definitions nor order facts
        t, t2, a, y = z3.Int('t!fp'), z3.Int('t2!fp'), z3.Int('a!fp'), z3.Int('y!fp')
        pp, pq = sorts[0][1], sorts[0][2]
        up, lo, cr = calls
        sp_ = zi(lo['n'])
        S0 = lambda t_: P.at(pp(t_), 0)
        t0 = pq(c)
        gU, gL, gC = up['g'], lo['g'], cr['g']
        nz = zi(n)
        if kind == 'against':
            ap, aq = sorts[1][1], sorts[1][2]
            ds_, mz = zi(lo['m']), zi(m)
            v = g['split']['v']
            SA0 = lambda a_: A.at(ap(a_), 0)
            GE1 = cr['GE']
            obs += [
                L('lemma.split_below', z3.ForAll([t], z3.Implies(z3.And(t >= 0, t < sp_), xreal.le(S0(t), v)), patterns=[pp(t)]), 'sorted'),
                L('lemma.split_above', z3.ForAll([t], z3.Implies(z3.And(t >= sp_, t < nz), xreal.gt(S0(t), v)), patterns=[pp(t)]), 'sorted'),
                L('lemma.against_below', z3.ForAll([a], z3.Implies(z3.And(a >= 0, a < ds_), xreal.le(SA0(a), v)), patterns=[ap(a)]), 'sorted'),
                L('lemma.against_above', z3.ForAll([a], z3.Implies(z3.And(a >= ds_, a < mz), xreal.gt(SA0(a), v)), patterns=[ap(a)]), 'sorted'),
                L('lemma.upper_against_beats_lower_point_in_coordinate_0',
                  z3.ForAll([t, a], z3.Implies(z3.And(t >= 0, t < sp_, a >= ds_, a < mz), xreal.gt(SA0(a), S0(t))), patterns=[z3.MultiPattern(pp(t), ap(a))])),
                L('lemma.lower_against_cannot_dominate_upper_point',
                  z3.ForAll([t, a], z3.Implies(z3.And(t >= sp_, t < nz, a >= 0, a < ds_), z3.Not(GEf(ap(a), pp(t)))), patterns=[GEf(ap(a), pp(t))]), 'def'),
                # Appendix F lemma (ii): an upper `against` row dominates a lower point iff it is >= in the coordinates 1..d-1
                L('lemma.cross_dominance_drops_coordinate_0',
                  z3.ForAll([t, a], z3.Implies(z3.And(t >= 0, t < sp_, a >= ds_, a < mz),
                                               z3.And(GE1(ap(a), pp(t)) == GEf(ap(a), pp(t)), z3.Implies(GE1(ap(a), pp(t)), GTf(ap(a), pp(t))))),
                            patterns=[GE1(ap(a), pp(t)), GEf(ap(a), pp(t))]), 'def'),
                # (the hypothesis GE(a, y) keeps y in the body: z3 drops unused bound variables together with their patterns)
                L('lemma.against_is_permuted', z3.ForAll([a, y], z3.Implies(z3.And(a >= 0, a < mz, GEf(a, y)), z3.And(aq(a) >= 0, aq(a) < mz, ap(aq(a)) == a)),
                                                         patterns=[GEf(a, y)])),
            ]
            strict_sorted = None
        else:
            tie = has_tie_in_coordinate_0(P, n)
            obs += [
                L('lemma.points_are_permuted', z3.ForAll([a, y], z3.Implies(z3.And(a >= 0, a < nz, GEf(a, y)), z3.And(pq(a) >= 0, pq(a) < nz, pp(pq(a)) == a)),
                                                         patterns=[GEf(a, y)])),
            ]
            # the clean-split step (Appendix F, lemma (i)) holds only without ties in coordinate 0
            strict_sorted = L('lemma.lower_point_cannot_dominate_upper_point_without_ties',
                              z3.Or(tie, z3.ForAll([t, t2], z3.Implies(z3.And(t >= 0, t < sp_, t2 >= sp_, t2 < nz), z3.Not(GEf(pp(t), pp(t2)))),
                                                   patterns=[GEf(pp(t), pp(t2))])), 'def', 'sorted')
        uparts = [gU] + ([upper_cross] if upper_cross is not None else [])
        obs += [
            L('step.position', z3.Implies(rng, z3.And(t0 >= 0, t0 < nz, pp(t0) == c))),
            L('step.result_upper', z3.Implies(z3.And(rng, t0 >= sp_), res.at(c) == z3.And(*[p_(t0) for p_ in uparts]))),
            L('step.result_lower', z3.Implies(z3.And(rng, t0 < sp_), res.at(c) == z3.And(gL(t0), gC(t0)))),
            L('step.upper.dominated_in_part_is_dominated', z3.Implies(z3.And(rng, t0 >= sp_, z3.Not(gU(t0))), z3.Not(spec))),
        ] + ([L('step.upper.cross_dominated_is_dominated', z3.Implies(z3.And(rng, t0 >= sp_, z3.Not(upper_cross(t0))), z3.Not(spec)))] if upper_cross is not None else []) + [
            L('step.lower.dominated_in_part_is_dominated', z3.Implies(z3.And(rng, t0 < sp_, z3.Not(gL(t0))), z3.Not(spec))),
            L('step.lower.cross_dominated_is_dominated', z3.Implies(z3.And(rng, t0 < sp_, z3.Not(gC(t0))), z3.Not(spec))),
            # converse steps: for every dominating input row a1 (universally, triggered by GE(a1, c)) ...
            L('step.lower.dominated_is_dominated_in_part_or_cross.pointwise',
              z3.ForAll([a1], z3.Implies(z3.And(rng, t0 < sp_, a1 >= 0, a1 < zi(m), body(a1, c)), z3.Or(z3.Not(gL(t0)), z3.Not(gC(t0)))), patterns=[GEf(a1, c)])),
            # ... then in the form used by the conclusion (one instantiation of the line above at the dominating row)
            L('step.lower.dominated_is_dominated_in_part_or_cross', z3.Implies(z3.And(rng, t0 < sp_, gL(t0), gC(t0)), spec)),
        ]
        tie_open = kind == 'optimal' and g.get('finding_open') and upper_cross is None
        if strict_sorted is not None and tie_open:
            obs.append(strict_sorted)
        if tie_open:
            expect_open(iff[1])
        obs.append(L('step.upper.dominated_is_dominated_in_part.pointwise',
                     z3.ForAll([a1], z3.Implies(z3.And(rng, t0 >= sp_, a1 >= 0, a1 < zi(m), body(a1, c)), z3.Or(*[z3.Not(p_(t0)) for p_ in uparts])),
                               patterns=[GEf(a1, c)])))
        obs.append(L('step.upper.dominated_is_dominated_in_part', z3.Implies(z3.And(*([rng, t0 >= sp_] + [p_(t0) for p_ in uparts])), spec)))
        if tie_open:
            expect_open(obs[-1][1])
            expect_open(obs[-2][1])
        # the conclusion is a propositional combination of the steps above
        need(iff[1])
        return obs + [iff]
    return post


FAST_KNOWN = ('FastParetoOptimalAlgorithm.is_pareto_optimal is wrong when two points share their first coordinate and n > recursive_threshold: '
              'the split after argsort is not clean, a lower-half point can dominate an upper-half point with the same first coordinate '
              '(e.g. [[1,5],[1,3]], threshold 1 -> both optimal; DESIGN 10 row 8)')


def fast_known(chk):
    if not open_finding(chk, 'C11.Fast.is_pareto_optimal.iff'):
        return None
    cls = lambda p: has_tie_in_coordinate_0(p.run.c11['P'], p.run.c11['n'])
    return {'C11.Fast.is_pareto_optimal.iff': (FAST_KNOWN, cls),
            'C11.Fast.is_pareto_optimal.step.upper.dominated_is_dominated_in_part': (FAST_KNOWN, cls),
            'C11.Fast.is_pareto_optimal.step.upper.dominated_is_dominated_in_part.pointwise': (FAST_KNOWN, cls)}


def check_fast_against(chk, tier, strict):
    fast_register(FAST_AG)
    pre = 'C11.Fast.is_pareto_optimal_against.%s' % ('strict' if strict else 'nonstrict')
    Fn(chk, tier, FAST_AG, fast_against_entry(strict), fast_post(pre, 'against'), replay_of=replay_points('fast_against'),
       bounded_sizes=[(4, 1, 2, 1), (4, 2, 2, 1), (4, 2, 3, 2)], rename=support_rename(pre), workers=3, expect_paths=5,
       timeout_ms=8000 if tier == 'quick' else 60000).run()


FAST_FINDING_OPEN = False


def check_fast_optimal(chk, tier):
    global FAST_FINDING_OPEN
    FAST_FINDING_OPEN = fast_known(chk) is not None
    fast_register(FAST_OP)
    pre = 'C11.Fast.is_pareto_optimal'
    Fn(chk, tier, FAST_OP, fast_optimal_entry, fast_post(pre, 'optimal'), replay_of=replay_points('fast_optimal'), known=fast_known(chk),
       bounded_sizes=[(2, 2, 1), (3, 2, 1), (3, 2, 2)], rename=support_rename(pre), workers=2, expect_paths=2,
       timeout_ms=5000 if tier == 'quick' else 60000).run()


def fast_preamble(chk, tier):
    chk.function(PO, FAST_AG)
    chk.function(PO, FAST_OP)
    chk.assume(NOT_NAN)
    chk.assume('FastParetoOptimalAlgorithm: recursive_threshold >= 1 (with a threshold <= 0 the real recursion does not terminate on 1 point) '
               'and at least one column; the base algorithm is ANY implementation satisfying the BaseParetoOptimalAlgorithm contract '
               '(the naive one is verified against the same contract above)')
    chk.assume('recursion is handled modularly: recursive calls are replaced by the contract at a strictly smaller number of points '
               '(variant obligation recursion.variant_decreases): partial correctness + termination of the recursion scheme')


# ------------------------------------------------------------------------------------------ 5a. xla_pareto (jnp modelled)
def xla_spy(it, args, kw):
    """`_is_pareto_optimal_against` called from is_frontier: the REAL body is executed; arguments and result are recorded
    (ghost) so that the per-shard lemmas of Appendix F can be stated."""
    b = _bind_args(['yy', 'baseline', 'strict'], args, kw)
    r = invoke_real(it, method(XLA, '_is_pareto_optimal_against'), args, kw)
    it.run.c11.setdefault('shards', []).append(dict(cand=b['yy'].copy(), base=b['baseline'].copy(), res=r.copy() if isinstance(r, NDArray) else r))
    return r


def xla_is_dominated_contract(it, args, kw):
    """`_is_dominated(y1, y2, strict)` by contract when both arguments are rows of arrays (verified against the expanded
    specification as C11.xla._is_dominated.*): the result is stated with the named sub-formulas GE / GT."""
    b = _bind_args(['y1', 'y2', 'strict'], args, kw)
    y1, y2, strict = b['y1'], b['y2'], b.get('strict', True)
    run = it.run
    if conc(run.c11['n']) is not None or not (isinstance(y1, NDArray) and isinstance(y2, NDArray) and y1.rowof and y2.rowof):
        return invoke_real(it, method(XLA, '_is_dominated'), args, kw)
    (r1, i1, c1), (r2, i2, c2) = y1.rowof, y2.rowof
    if conc(z3.simplify(zi(c1) - zi(c2))) != 0:
        return invoke_real(it, method(XLA, '_is_dominated'), args, kw)
    it.run.oblige('VizierC11.callee_pre._is_dominated.same_length', zi(y1.shape[0]) == zi(y2.shape[0]))
    GE, GT = row_preds(run, r2, r1, c1, y1.shape[0])
    return body_of(GE, GT, strict)(i2, i1)


def _inv_frontier(it, fr, ctx):
    """for begin, end in zip(idx[1:], idx[:-1]) over a boundary list of SYMBOLIC length (Appendix F, is_frontier):
         contiguous, ordered slices:  end(i+1) == begin(i),  0 <= begin(i) <= end(i) <= B          (checked at loop entry)
         frontier[j]  <=>  no point of the rows [low_i, end(0)) dominates ys[j],   low_i = begin(i-1)  (low_0 = end(0))
    The coverage clause -- the processed rows are all of [0, B) -- is an obligation of the postcondition."""
    run = it.run
    g = run.c11
    ys = param(fr, 0)
    F = entry_local(fr, ctx, _is_mask, 'boolean mask')
    en, i = ctx.iter, ctx.i
    B, d = ys.shape
    Bz = zi(B)
    pair = lambda x: en.get(x)
    begin, end = (lambda x: zi(pair(x)[0])), (lambda x: zi(pair(x)[1]))
    m = en.n
    GEf, GTf = row_preds(run, ys.fn, ys.fn, 0, d)
    hi0 = end(z3.IntVal(0))
    low = lambda ii: z3.If(ii == 0, hi0, begin(ii - 1))
    f = F.fn
    dominated = lambda j, lo_: QE(hi0, lambda t: z3.And(GEf(t, j), GTf(t, j)), lo=lo_)
    g['sym_loop'] = dict(m=m, begin=begin, end=end, hi0=hi0, B=B)
    shape = [('contiguous', QA(m - 1, lambda x: end(x + 1) == begin(x))),
             ('ordered', QA(m, lambda x: z3.And(0 <= begin(x), begin(x) <= end(x), end(x) <= Bz)))]
    if ctx.phase == 'init':
        return shape + [('frontier', QA(B, lambda j: f(j) == z3.Not(dominated(j, low(i))))), ('len', zi(F.shape[0]) == Bz)]
    if ctx.phase == 'head':
        return shape + [('frontier', QA(B, lambda j: f(j) == z3.Not(dominated(j, low(i))))), ('len', zi(F.shape[0]) == Bz)]
    jj = run.fresh('jj', z3.IntSort())
    return [('frontier', z3.Implies(z3.And(jj >= 0, jj < Bz), f(jj) == z3.Not(dominated(jj, z3.simplify(low(i)))))), ('len', zi(F.shape[0]) == Bz)]


E.LOOPS[(XLA, 'is_frontier', 1)] = E.LoopSpec(_inv_frontier)


def xla_frontier_entry(k, via_class=False):
    def entry_of(sz):
        def entry(it):
            run = it.run
            n, d = sizes(run, sz)
            P = fresh_points(run, 'P', n, d, nan_free=False)
            run.c11 = dict(P=P, n=n, d=d, k=k)
            run.np_name_writes = True
            if via_class:
                cls = ModuleInfo.get(XLA).classes['JaxParetoOptimalAlgorithm']
                return it.invoke(E.FuncVal(cls.mod, cls.methods['is_pareto_optimal'], cls), [Obj(cls, {}), P.copy()], {})
            return it.invoke(method(XLA, 'is_frontier'), [P.copy()], {'num_shards': k})
        return entry
    return entry_of


def xla_frontier_post(pre):
    def post(p):
        g = p.run.c11
        P, n, d = g['P'], g['n'], g['d']
        if p.kind != 'return':
            return [(pre + '.no_exception', z3.BoolVal(False))]
        res = p.value
        obs = [(pre + '.shape', result_shape_ok(res, n))]
        if not (isinstance(res, NDArray) and res.rank == 1):
            return obs
        if conc(n) is not None:
            return obs + [(pre + '.iff', QA(n, lambda i: res.at(i) == opt(P, i, n, d)))]
        c = z3.Int('c!post')
        rng = z3.And(c >= 0, c < zi(n))
        shards = g.get('shards', [])
        masks = [v[1] for v in getattr(p.run, 'np_masks', {}).values()]
        GEf, GTf = row_preds(p.run, P.fn, P.fn, 0, d)
        if 'sym_loop' in g:
            # the shard boundaries are a list of symbolic length: loop contract _inv_frontier; what remains is the coverage clause
            sl = g['sym_loop']
            m, nz = sl['m'], zi(n)
            covered = z3.Or(nz == 0, z3.And(m >= 1, sl['begin'](m - 1) <= 0, sl['hi0'] >= nz))
            obs.append((pre + '.shards_cover_all_points', covered, 'lemma'))
            obs.append((pre + '.iff', z3.Implies(rng, res.at(c) == z3.Not(QE(n, lambda t_: z3.And(GEf(t_, c), GTf(t_, c)))))))
            return obs
        if len(masks) == len(shards) and shards:
            # per-shard lemmas (Appendix F):  frontier_r[j] <=> frontier_{r-1}[j] and no point of shard r dominates ys[j]
            front = lambda j: z3.BoolVal(True)
            cover = []
            named = getattr(p.run, 'np_named', [])
            for r, (sh, (cnt, sel, rnk)) in enumerate(zip(shards, masks)):
                base = sh['base']
                bf, lo, _ = base.win if base.win is not None else (base.fn, 0, 0)
                lo_, hi_ = zi(lo), zi(lo) + zi(base.shape[0])
                cover.append((lo_, hi_))
                tt = sh['res']
                prev = front
                if len(named) == len(shards):
                    nxt = (lambda j, F=named[r][0]: F(j))          # the content written by `frontier[frontier] = tt` in iteration r
                else:
                    nxt = (lambda j, prev=prev, tt=tt, rnk=rnk: z3.If(prev(j), tt.at(rnk(j)), prev(j)))
                dominated_by_shard = lambda j, lo_=lo_, hi_=hi_: QE(hi_, lambda t: z3.And(GEf(t, j), GTf(t, j)), lo=lo_)
                obs.append((pre + '.lemma.shard%d' % (r + 1),
                            need(QA(n, lambda j: nxt(j) == z3.And(prev(j), z3.Not(dominated_by_shard(j)))), 'mask%d' % (r + 1), 'name%d' % (r + 1)), 'lemma'))
                front = nxt
            t = z3.Int('t!cov')
            obs.append((pre + '.lemma.result_is_last_frontier', need(z3.Implies(rng, res.at(c) == front(c))), 'lemma'))
            obs.append((pre + '.lemma.shards_cover_all_points',
                        need(z3.ForAll([t], z3.Implies(z3.And(t >= 0, t < zi(n)), z3.Or([z3.And(a <= t, t < b_) for a, b_ in cover])))), 'lemma'))
            # the specification with GE/GT named (section 4): opt(P, c) = not exists t < n. GE(t, c) and GT(t, c)
            obs.append((pre + '.iff', need(z3.Implies(rng, res.at(c) == z3.Not(QE(n, lambda t_: z3.And(GEf(t_, c), GTf(t_, c))))))))
            return obs
        obs.append((pre + '.iff', z3.Implies(rng, res.at(c) == opt(P, c, n, d))))
        return obs
    return post


XLA_KNOWN = ('xla_pareto.is_frontier(ys, num_shards=1) compares against no shard and returns all True: np.linspace(0, B, 1) yields one '
             'boundary, i.e. zero intervals (DESIGN 10 row 19)')


def check_xla_frontier(chk, tier, k, via_class=False):
    E.MODELS[XLA + ':_is_pareto_optimal_against'] = xla_spy
    E.MODELS[XLA + ':_is_dominated'] = xla_is_dominated_contract
    name = 'JaxParetoOptimalAlgorithm.is_pareto_optimal' if via_class else 'is_frontier'
    pre = 'C11.xla.%s' % name
    tag = '' if via_class else '[num_shards=%d]' % k
    rn = support_rename(pre)
    known = None
    if k == 1 and open_finding(chk, 'C11.xla.is_frontier.iff[num_shards=1]'):
        known = {pre + '.iff': (XLA_KNOWN, lambda p: True)}
    Fn(chk, tier, name, xla_frontier_entry(k, via_class), xla_frontier_post(pre), replay_of=replay_points('xla', {'fn': name, 'num_shards': k}),
       known=known, bounded_sizes=[(2, 1), (2, 2), (3, 2)] + ([(2 * k + 1, 1)] if k >= 2 else []),      # 2k+1 points: not a multiple of the shard count
       rename=(lambda x: rn(x) + tag), workers=1, expect_paths=1,
       timeout_ms=8000 if tier == 'quick' else 60000).run()


def xla_simple_entry(fn, strict):
    def entry_of(sz):
        def entry(it):
            run = it.run
            n, m, d = sizes(run, sz, names=('n', 'm', 'd'), lows=(0, 0, 0))
            P = fresh_points(run, 'P', n, d, nan_free=False)
            A = fresh_points(run, 'A', m, d, nan_free=False)
            run.c11 = dict(P=P, A=A, n=n, m=m, d=d, strict=strict)
            if fn == '_is_pareto_optimal_against':
                return invoke_real(it, method(XLA, fn), [P.copy(), A.copy()], {'strict': strict})
            if fn == 'pareto_rank':
                return it.invoke(method(XLA, fn), [P.copy()], {})
            i, a = z3.Int('i!row'), z3.Int('a!row')
            run.c11.update(i=i, a=a)
            return it.invoke(method(XLA, '_is_dominated'), [P.row(i), A.row(a)], {'strict': strict})
        return entry
    return entry_of


def xla_simple_post(fn, pre):
    def post(p):
        g = p.run.c11
        P, A, n, m, d, strict = g['P'], g['A'], g['n'], g['m'], g['d'], g['strict']
        if p.kind != 'return':
            return [(pre + '.no_exception', z3.BoolVal(False))]
        res = p.value
        if fn == '_is_dominated':
            i, a = g['i'], g['a']
            want = dom(A, a, P, i, d) if strict else weak(A, a, P, i, d)
            return [(pre + '.spec', E.zbool(res) == want if not isinstance(res, NDArray) else z3.BoolVal(False))]
        if fn == '_is_pareto_optimal_against':
            return post_against(pre)(p)
        return rank_post_for(pre)(p)
    return post


def replay_is_dominated(name, path, model, sz):
    """_is_dominated(y1, y2, strict) is replayed through the real _is_pareto_optimal_against on the two single rows"""
    g = path.run.c11
    n, m, d = conc(g['n']), conc(g['m']), conc(g['d'])
    if None in (n, m, d):
        return None
    i = model.eval(g['i'], model_completion=True).as_long()
    a = model.eval(g['a'], model_completion=True).as_long()
    row = lambda X, r: [xreal.model_value(model, X.at(r, k)) for k in range(d)]
    return {'mode': 'xla', 'fn': '_is_pareto_optimal_against', 'obligation': name, 'points': jsonable([row(g['P'], i)]),
            'against': jsonable([row(g['A'], a)]), 'strict': bool(g['strict'])}


def check_xla_simple(chk, tier):
    for strict in (True, False):
        sfx = 'strict' if strict else 'nonstrict'
        pre = 'C11.xla._is_dominated.' + sfx
        Fn(chk, tier, '_is_dominated', xla_simple_entry('_is_dominated', strict), xla_simple_post('_is_dominated', pre),
           replay_of=replay_is_dominated, bounded_sizes=[(1, 1, 1), (1, 1, 2)], rename=support_rename(pre), workers=1).run()
        pre = 'C11.xla._is_pareto_optimal_against.' + sfx
        Fn(chk, tier, '_is_pareto_optimal_against', xla_simple_entry('_is_pareto_optimal_against', strict),
           xla_simple_post('_is_pareto_optimal_against', pre), replay_of=replay_points('xla', {'fn': '_is_pareto_optimal_against'}),
           bounded_sizes=SMALL_NMD, rename=support_rename(pre), workers=1).run()
    pre = 'C11.xla.pareto_rank'
    Fn(chk, tier, 'pareto_rank', xla_simple_entry('pareto_rank', True), xla_simple_post('pareto_rank', pre),
       replay_of=replay_points('xla', {'fn': 'pareto_rank'}), bounded_sizes=[(2, 2, 1), (2, 2, 2), (3, 3, 2)], rename=support_rename(pre), workers=1).run()


def xla_preamble(chk, tier):
    for f in ('_is_dominated', '_is_pareto_optimal_against', 'is_frontier', 'pareto_rank', 'JaxParetoOptimalAlgorithm.is_pareto_optimal'):
        chk.function(XLA, f)
    chk.assume('jax.numpy is modelled like numpy on the comparison-only fragment; jax.vmap is the pointwise map, jax.jit the identity '
               '(pyvc/np_model.py); is_frontier is verified for every number of points and columns and for the enumerated shard counts '
               '1, 2, 3, 4, 5 and the default 10 (the loop over the shard intervals is unrolled for each count)')


# ------------------------------------------------------------------------------------------ 5c. InRamPolicySupporter.GetBestTrials
GBT = 'InRamPolicySupporter.GetBestTrials'
CONV_CORE = 'vizier.pyvizier.converters.core'
SAFETY = 'vizier._src.pyvizier.multimetric.safety'


def gbt_register():
    """externals of GetBestTrials (all stated in the evidence):
      * self.trials                          an arbitrary list of n trials (opaque objects);
      * SafetyChecker(...).warp_unsafe_trials identity on the list positions (it rewrites measurements in place, C11 assumes it from safety.py);
      * TrialToArrayConverter.to_labels      an arbitrary (n, d) float array: row i = the sign-flipped objective values of trial i,
                                             NaN for a trial without objective values (infeasible / not completed) -- C15;
      * FastParetoOptimalAlgorithm().is_pareto_optimal   by its contract (verified above for all point sets)."""
    fast_register(None)

    def trials_prop(it, obj):
        T = it.run.c11['T']
        return SymList(T.n, T.arr, T.elem)
    E.PROPERTIES[LPS + ':InRamPolicySupporter.trials'] = trials_prop

    def safety_ctor(it, args, kw):
        return Obj('opaque:SafetyChecker', {'warp_unsafe_trials': Builtin('warp_unsafe_trials', lambda it_, a, k: a[0])})
    E.MODELS[SAFETY + ':SafetyChecker'] = safety_ctor

    def from_study_config(it, args, kw):
        def to_labels(it_, a, k):
            g = it_.run.c11
            ts = a[0]
            if not (isinstance(ts, SymList) and ts.arr.eq(g['T'].arr) and ts.n.eq(g['T'].n)):
                raise Unsupported('to_labels called on something else than the (warped copy of the) trial list')
            return g['L'].copy()
        return Obj('opaque:TrialToArrayConverter', {'to_labels': Builtin('to_labels', to_labels)})
    E.MODELS[CONV_CORE + ':TrialToArrayConverter.from_study_config'] = from_study_config


def gbt_entry(single, with_count=False):
    def entry_of(sz):
        def entry(it):
            run = it.run
            if sz is None:
                n = z3.Int('n')
                run.assume(n >= 0)
                if single:
                    d = 1
                else:
                    d = z3.Int('d')
                    run.assume(d >= 2)
            else:
                n, d = sz
            L = fresh_points(run, 'L', n, d, nan_free=False)
            T = SymList(zi(n), z3.Const('trials', z3.ArraySort(z3.IntSort(), pm.PyObj)), 'pyobj')
            run.c11 = dict(L=L, T=T, n=n, d=d, single=single)
            if sz is not None:
                run.c11['bounds'] = (n, n)
                tid = z3.Function('trial_id', pm.PyObj, z3.IntSort())      # the trials are pairwise different objects
                for i_ in range(n):
                    run.assume(tid(T.arr[i_]) == i_)
            has_objective = z3.Bool('has_objective_metric')
            mi = Obj('opaque:MetricsConfig', {'of_type': Builtin('of_type', lambda it_, a, k: has_objective),
                                              'exclude_type': Builtin('exclude_type', lambda it_, a, k: Obj('opaque:MetricsConfig', {}))})
            cfg = Obj('opaque:ProblemStatement', {'metric_information': mi, 'is_single_objective': single})
            cls = ModuleInfo.get(LPS).classes['InRamPolicySupporter']
            self_ = Obj(cls, {'study_config': cfg})
            kw = {}
            if with_count:
                # precondition of the count-set contract: count is a non-negative int (the docstring's "top `count` trials")
                cnt = z3.Int('count')
                run.assume(cnt >= 0)
                run.c11['count'] = cnt
                kw['count'] = cnt
            return it.invoke(E.FuncVal(cls.mod, cls.methods['GetBestTrials'], cls), [self_], kw)
        return entry
    return entry_of


def gbt_post(p):
    pre = 'C11.GetBestTrials'
    run = p.run
    g = run.c11
    L, T, n, d = g['L'], g['T'], g['n'], g['d']
    if p.kind == 'raise':
        return [(pre + '.raises_only_without_objective', z3.Not(z3.Bool('has_objective_metric')))]
    R = p.value
    if not isinstance(R, SymList):
        return [(pre + '.result_is_a_list', z3.BoolVal(False))]
    fs = getattr(run, 'np_filters', [])
    if conc(n) is None and (len(fs) != 2 or not fs[1]['arr'].eq(R.arr)):
        # the proof script below is written for `candidates = trials[has_labels]; result = candidates[mask]`; anything else
        # leaves the supported shape: a checker error, never a verdict (the bounded model query does not need the script)
        raise Unsupported('GetBestTrials: the selection is not two boolean-mask filters of the trial list')
    if conc(n) is not None:
        fs = [dict(src=None, n=None, cond=None), dict(src=None, n=None, cond=None)]
    f1, f2 = fs
    s1, s2 = f1['src'], f2['src']
    nr, ra, n1 = R.n, R.arr, f1['n']
    w = lambda j: s1(s2(j))
    dd = conc(d)
    valid = lambda i: z3.Not(QE(d, lambda k: xreal.is_nan(L.at(i, k))))
    if dd == 1:
        better = lambda j, i: xreal.gt(L.at(j, 0), L.at(i, 0))
    elif dd is not None:
        better = lambda j, i: dom(L, j, L, i, d)
    else:
        GEf, GTf = row_preds(run, L.fn, L.fn, 0, d)
        better = lambda j, i: z3.And(GEf(j, i), GTf(j, i))
    j1 = z3.Int('j!sp')
    if conc(n) is not None:
        spec = lambda i: z3.And(valid(i), z3.Not(QE(n, lambda j: z3.And(valid(j), better(j, i)))))
    else:
        spec = lambda i: z3.And(valid(i), z3.Not(z3.Exists([j1], z3.And(j1 >= 0, j1 < zi(n), valid(j1), better(j1, i)))))
    j0, i0, c1, jb = z3.Int('j0!p'), z3.Int('i0!p'), z3.Int('c1!p'), z3.Int('jb!p')
    in_r = z3.And(j0 >= 0, j0 < nr)
    Lm = lambda name, f: (pre + '.' + name, f, 'lemma')
    if conc(n) is not None:
        # model query: the result is exactly the filter of the trial list by the specification, in order
        N = conc(n)
        sp = [spec(z3.IntVal(i)) for i in range(N)]
        pos = [NP._count_terms(sp[:i]) for i in range(N)]
        exact = z3.And([nr == NP._count_terms(sp)] + [z3.Implies(sp[i], ra[pos[i]] == T.arr[i]) for i in range(N)])
        return [(pre + '.iff', exact)]
    obs = [
        Lm('lemma.candidates_are_the_trials_with_labels',
           QA(n1, lambda c: z3.And(s1(c) >= 0, s1(c) < zi(n), valid(s1(c))))),
        Lm('lemma.every_trial_with_labels_is_a_candidate', z3.Implies(z3.And(i0 >= 0, i0 < zi(n), valid(i0)), QE(n1, lambda c: s1(c) == i0))),
        Lm('lemma.result_is_filtered', z3.Implies(in_r, z3.And(s2(j0) >= 0, s2(j0) < n1, ra[j0] == T.arr[w(j0)], f2['cond'](s2(j0))))),
    ]
    NP.fact(run, f1['complete_at'](i0))
    NP.fact(run, f2['complete_at'](c1))
    K = lambda c: z3.And(c >= 0, c < n1, s1(c) == i0)
    obs += [
        (pre + '.infeasible_never_reported', z3.Implies(in_r, valid(w(j0)))),
        (pre + '.iff.reported_meets_spec', z3.Implies(in_r, z3.And(w(j0) >= 0, w(j0) < zi(n), ra[j0] == T.arr[w(j0)], spec(w(j0))))),
        Lm('iff.spec_is_reported.obtain_candidate', z3.Implies(z3.And(i0 >= 0, i0 < zi(n), valid(i0)), QE(n1, K))),
        Lm('iff.spec_is_reported.candidate_is_selected', z3.Implies(z3.And(i0 >= 0, i0 < zi(n), spec(i0), K(c1)), f2['cond'](c1))),
        (pre + '.iff.spec_is_reported', z3.Implies(z3.And(i0 >= 0, i0 < zi(n), spec(i0), K(c1)), QE(nr, lambda j: w(j) == i0))),
        (pre + '.order', z3.Implies(z3.And(j0 >= 0, j0 < jb, jb < nr), w(j0) < w(jb))),
    ]
    return obs


def gbt_post_count(p):
    """GetBestTrials(count=c), c >= 0 (DESIGN 5 C11, count-set contract).
       multi-objective : the result is the first min(c, |Pareto set|) trials of the count-unset answer (so: only Pareto-optimal
                         trials with labels, in storage order, no duplicates, and ALL of them when fewer than c exist);
       single-objective: min(c, #trials with labels) pairwise different trials with labels, and no trial left out has a strictly
                         better label than a reported one (top-c, ties broken arbitrarily)."""
    pre = 'C11.GetBestTrials.count'
    run = p.run
    g = run.c11
    L, T, n, d, c = g['L'], g['T'], g['n'], g['d'], g['count']
    if p.kind == 'raise':
        return [(pre + '.raises_only_without_objective', z3.Not(z3.Bool('has_objective_metric')))]
    R = p.value
    if not isinstance(R, SymList):
        return [(pre + '.result_is_a_list', z3.BoolVal(False))]
    nr, ra = R.n, R.arr
    valid = lambda i: z3.Not(QE(d, lambda k: xreal.is_nan(L.at(i, k))))
    dd = conc(d)
    if conc(n) is not None:
        # model query at a concrete size: everything stated over the trial list, the labels and the result only
        N = conc(n)
        I = [z3.IntVal(i) for i in range(N)]
        if g['single']:
            better = lambda j, i: xreal.gt(L.at(j, 0), L.at(i, 0))
            nvalid = NP._count_terms([valid(i) for i in I])
            reported = lambda k: z3.Or([z3.And(j < nr, ra[j] == T.arr[k]) for j in range(N)] + [z3.BoolVal(False)])
            top = z3.And([z3.Implies(j < nr, z3.Or([z3.And(ra[j] == T.arr[i], valid(I[i]),
                                                           z3.And([z3.Implies(z3.And(valid(I[k]), z3.Not(reported(k))), z3.Not(better(I[k], I[i]))) for k in range(N)] + [z3.BoolVal(True)]))
                                                    for i in range(N)] + [z3.BoolVal(False)])) for j in range(N)] + [z3.BoolVal(True)])
            distinct = z3.And([z3.Implies(jb < nr, ra[ja] != ra[jb]) for ja in range(N) for jb in range(ja + 1, N)] + [z3.BoolVal(True)])
            return [(pre + '.len', nr == z3.If(c < nvalid, c, nvalid)), (pre + '.top', top), (pre + '.no_duplicates', distinct)]
        better = lambda j, i: dom(L, j, L, i, d)
        spec = lambda i: z3.And(valid(i), z3.Not(QE(n, lambda j: z3.And(valid(j), better(j, i)))))
        sp = [spec(i) for i in I]
        pos = [NP._count_terms(sp[:i]) for i in range(N)]
        tot = NP._count_terms(sp)
        exact = z3.And([nr == z3.If(c < tot, c, tot)] + [z3.Implies(z3.And(sp[i], pos[i] < c), ra[pos[i]] == T.arr[i]) for i in range(N)])
        return [(pre + '.prefix_of_pareto_set', exact)]
    fs = getattr(run, 'np_filters', [])
    j0, jb, i0, c1 = z3.Int('j0!p'), z3.Int('jb!p'), z3.Int('i0!p'), z3.Int('c1!p')
    in_r = z3.And(j0 >= 0, j0 < nr)
    Lm = lambda name, f: (pre + '.' + name, f, 'lemma')
    if g['single']:
        sorts = getattr(run, 'np_argsorts', [])
        if len(fs) != 1 or len(sorts) != 1:
            raise Unsupported('GetBestTrials(count): the single-objective selection is not one mask filter followed by one argsort')
        f1 = fs[0]
        s1, n1 = f1['src'], f1['n']
        _x, pp, qq, _n = sorts[0]
        lab = lambda i: L.at(i, 0)
        w = lambda j: s1(pp(j))
        NP.fact(run, f1['complete_at'](i0))
        return [
            Lm('lemma.candidates_are_the_trials_with_labels', QA(n1, lambda k: z3.And(s1(k) >= 0, s1(k) < zi(n), valid(s1(k))))),
            (pre + '.len', nr == z3.If(c < n1, c, n1)),
            (pre + '.reported_has_labels', z3.Implies(in_r, z3.And(pp(j0) >= 0, pp(j0) < n1, w(j0) >= 0, w(j0) < zi(n), ra[j0] == T.arr[w(j0)], valid(w(j0))))),
            (pre + '.no_duplicates', z3.Implies(z3.And(j0 >= 0, j0 < jb, jb < nr), w(j0) != w(jb))),
            # a candidate that is not reported sits at a sorted position >= nr: its label is not better than any reported one
            (pre + '.top', z3.Implies(z3.And(in_r, c1 >= 0, c1 < n1, qq(c1) >= nr), xreal.le(lab(s1(c1)), lab(w(j0))))),
            (pre + '.every_trial_with_labels_is_a_candidate', z3.Implies(z3.And(i0 >= 0, i0 < zi(n), valid(i0)), QE(n1, lambda k: s1(k) == i0))),
        ]
    if len(fs) != 2 or not fs[1]['arr'].eq(ra):
        raise Unsupported('GetBestTrials(count): the multi-objective selection is not a prefix of two boolean-mask filters of the trial list')
    f1, f2 = fs
    s1, s2, n1, n2 = f1['src'], f2['src'], f1['n'], f2['n']
    w = lambda j: s1(s2(j))
    if dd is not None:
        better = lambda j, i: dom(L, j, L, i, d)
    else:
        GEf, GTf = row_preds(run, L.fn, L.fn, 0, d)
        better = lambda j, i: z3.And(GEf(j, i), GTf(j, i))
    j1 = z3.Int('j!sp')
    spec = lambda i: z3.And(valid(i), z3.Not(z3.Exists([j1], z3.And(j1 >= 0, j1 < zi(n), valid(j1), better(j1, i)))))
    obs = [
        (pre + '.len', nr == z3.If(c < n2, c, n2)),
        Lm('lemma.result_is_a_prefix', z3.And(nr >= 0, nr <= n2)),
        Lm('lemma.candidates_are_the_trials_with_labels', QA(n1, lambda k: z3.And(s1(k) >= 0, s1(k) < zi(n), valid(s1(k))))),
        Lm('lemma.every_trial_with_labels_is_a_candidate', z3.Implies(z3.And(i0 >= 0, i0 < zi(n), valid(i0)), QE(n1, lambda k: s1(k) == i0))),
        Lm('lemma.result_is_filtered', z3.Implies(in_r, z3.And(s2(j0) >= 0, s2(j0) < n1, ra[j0] == T.arr[w(j0)], f2['cond'](s2(j0))))),
    ]
    NP.fact(run, f1['complete_at'](i0))
    NP.fact(run, f2['complete_at'](c1))
    K = lambda k: z3.And(k >= 0, k < n1, s1(k) == i0)
    obs += [
        (pre + '.infeasible_never_reported', z3.Implies(in_r, valid(w(j0)))),
        (pre + '.reported_is_pareto_optimal', z3.Implies(in_r, z3.And(w(j0) >= 0, w(j0) < zi(n), ra[j0] == T.arr[w(j0)], spec(w(j0))))),
        Lm('all_reported_when_short.obtain_candidate', z3.Implies(z3.And(i0 >= 0, i0 < zi(n), valid(i0)), QE(n1, K))),
        Lm('all_reported_when_short.candidate_is_selected', z3.Implies(z3.And(i0 >= 0, i0 < zi(n), spec(i0), K(c1)), f2['cond'](c1))),
        (pre + '.all_reported_when_short', z3.Implies(z3.And(c >= n2, i0 >= 0, i0 < zi(n), spec(i0), K(c1)), QE(nr, lambda j: w(j) == i0))),
        (pre + '.order_no_duplicates', z3.Implies(z3.And(j0 >= 0, j0 < jb, jb < nr), w(j0) < w(jb))),
    ]
    return obs


def gbt_replay(name, path, model, sz):
    g = path.run.c11
    n, d = conc(g['n']), conc(g['d'])
    if n is None or d is None:
        return None
    rows = array_values(model, g['L'], n, d)
    # a NaN label = the trial does not report that metric; all NaN = a trial without objective values (infeasible)
    trials = [None if all(x != x for x in r) else [None if x != x else jsonable([[x]])[0][0] for x in r] for r in rows]
    return {'mode': 'best_trials', 'obligation': name, 'goals': ['MAXIMIZE'] * d, 'trials': trials}


def gbt_replay_count(name, path, model, sz):
    payload = gbt_replay(name, path, model, sz)
    if payload is None:
        return None
    cv = model.eval(path.run.c11['count'], model_completion=True)
    payload['count'] = cv.as_long()
    return payload


def check_best_trials(chk, tier):
    gbt_register()
    for single in (True, False):
        pre = 'C11.GetBestTrials'
        tag = '[single-objective]' if single else '[multi-objective]'
        rn = support_rename(pre)
        Fn(chk, tier, GBT, gbt_entry(single), gbt_post, replay_of=gbt_replay, bounded_sizes=[(2, 1), (3, 1)] if single else [(2, 2), (3, 2)], rename=(lambda x, rn=rn, tag=tag: rn(x) + tag), workers=1,
           expect_paths=2, timeout_ms=8000 if tier == 'quick' else 60000).run()
    for single in (True, False):
        tag = '[single-objective]' if single else '[multi-objective]'
        Fn(chk, tier, GBT, gbt_entry(single, with_count=True), gbt_post_count, replay_of=gbt_replay_count,
           bounded_sizes=[(2, 1), (3, 1)] if single else [(2, 2), (3, 2)], rename=(lambda x, tag=tag: x + tag), workers=1,
           expect_paths=2, timeout_ms=8000 if tier == 'quick' else 60000).run()


def gbt_preamble(chk, tier):
    chk.function(LPS, GBT)
    chk.assume('GetBestTrials (count unset) is verified for every number of trials and objectives against its externals: self.trials is any list; '
               'SafetyChecker.warp_unsafe_trials keeps the list positions; TrialToArrayConverter.to_labels returns an arbitrary (n, d) array whose '
               'row i holds the sign-flipped objective values of trial i, NaN for a trial without objective values (C15, safety.py); '
               'is_single_objective <=> d == 1; FastParetoOptimalAlgorithm.is_pareto_optimal by its contract (proved in this check)')


# ------------------------------------------------------------------------------------------ 5b. bounded stand-ins (never counted as proved)
def start_bounded(pool, tier):
    q = tier == 'quick'
    pool.start('enum_fast', 'c11_replay.py', ['enum_fast'],
               {'n_max': 3 if q else 4, 'd_max': 2, 't_max': 3, 'm_max': 1 if q else 2, 'n_max_against': 3, 'values': [0, 1, 2]})
    pool.start('enum_xla', 'c11_replay.py', ['enum_xla'], {'n_max': 3 if q else 4, 'd_max': 2, 'values': [0, 1, 2], 'shards': [1, 2, 3, 4, 10]})
    pool.start('best_trials', 'c11_replay.py', ['best_trials'], {'n_max': 3 if q else 4, 'values': [0, 1]})


def collect_bounded(chk, pool, tier):
    """exhaustive small scopes on the REAL code (replay driver).  They are recorded with chk.bounded_standin; a failure
    outside the recorded findings' classes is a violation (it was observed on the real code)."""
    def violation(name, fn, rec, what):
        chk.obligation(name, fn, 'bounded-enumeration', report.VIOLATED, 0.0, detail={'bounded': what}, model=json.dumps(rec)[:3000],
                       replay={'mode': 'enumeration', 'failing_input': rec}, reproduced=True)

    # FastParetoOptimalAlgorithm: independent confirmation of the deductive result and of the finding's class
    out, raw = pool.get('enum_fast', timeout=600)
    scope = 'all point sets n <= %d, d <= 2 over {0,1,2}, thresholds 1..3 (against: m <= %d)' % ((3, 1) if tier == 'quick' else (4, 2))
    if out is None or 'checked' not in out:
        chk.error('C11.bounded.Fast.exhaustive_small_scope', 'the enumeration driver failed: %s' % raw[-800:])
    else:
        bad = out['optimal_failures_without_tie'] + out['against_failures']
        if 'C11.Fast.is_pareto_optimal.iff' not in ACTIVE_FINDINGS:
            bad = out['example_tie'] + bad          # no open finding: a failure on a tie in coordinate 0 is a failure like any other
        chk.bounded_standin('C11.bounded.Fast.exhaustive_small_scope', scope, 'held' if not bad else 'failed',
                            detail={'checked': out['checked'], 'is_pareto_optimal failures with a tie in coordinate 0': out['optimal_failures_with_tie_in_coordinate_0'],
                                    'failures': len(bad)})
        if bad:
            violation('C11.bounded.Fast.exhaustive_small_scope', 'FastParetoOptimalAlgorithm', bad[0], scope)
    # xla_pareto.is_frontier
    out, raw = pool.get('enum_xla', timeout=600)
    scope = 'all point sets n <= %d, d <= 2 over {0,1,2}, num_shards in {1,2,3,4,10}' % (3 if tier == 'quick' else 4)
    if out is None or 'checked' not in out:
        chk.error('C11.bounded.xla.is_frontier.exhaustive_small_scope', 'the enumeration driver failed: %s' % raw[-800:])
    else:
        skip = {'1'} if 'C11.xla.is_frontier.iff[num_shards=1]' in ACTIVE_FINDINGS else set()
        bad = [r for k, v in out['failures_by_num_shards'].items() if k not in skip for r in v]
        chk.bounded_standin('C11.bounded.xla.is_frontier.exhaustive_small_scope', scope, 'held' if not bad else 'failed',
                            detail={'checked': out['checked'], 'failures': len(bad)})
        if bad:
            violation('C11.bounded.xla.is_frontier.exhaustive_small_scope', 'is_frontier', bad[0], scope)
    # InRamPolicySupporter.GetBestTrials: the selection step is checked ONLY by this bounded enumeration (label conversion goes
    # through converters/jax code that the verifier cannot execute symbolically)
    chk.function(LPS, 'InRamPolicySupporter.GetBestTrials', role='bounded stand-in only (selection step)')
    out, raw = pool.get('best_trials', timeout=600)
    scope = ('all studies with 1 (MAX or MIN) or 2 (MAX, MIN) objectives and <= %d completed trials, each infeasible or with values in {0,1}, '
             'count unset' % (3 if tier == 'quick' else 4))
    if out is None or 'checked' not in out:
        chk.error('C11.bounded.GetBestTrials.selection', 'the enumeration driver failed: %s' % raw[-800:])
        return
    classes = [('C11.bounded.GetBestTrials.single_objective_returns_all_tied_best', 'single_objective_tie_returns_one', 'example_tie'),
               ('C11.bounded.GetBestTrials.infeasible_never_reported', 'infeasible_only_returns_infeasible', 'example_infeasible_only'),
               ('C11.bounded.GetBestTrials.multi_objective_pareto_set', 'multi_objective_with_infeasible_returns_nothing', 'example_multi_objective')]
    detail = {'checked': out['checked'], 'failures outside the recorded classes': len(out['other_failures'])}
    for name, key, ex in classes:
        detail[key] = out[key]
    failed = bool(out['other_failures']) or any(out[key] and name not in ACTIVE_FINDINGS for name, key, ex in classes)
    chk.bounded_standin('C11.bounded.GetBestTrials.selection', scope, 'held' if not failed else 'failed', detail=detail)
    for name, key, ex in classes:
        f = open_finding(chk, name)
        if out[key] and f is not None:
            chk.obligation(name, 'InRamPolicySupporter.GetBestTrials', 'bounded-enumeration', report.KNOWN, 0.0,
                           detail={'bounded': scope, 'failing inputs in the recorded class': out[key], 'failures outside the recorded classes': len(out['other_failures'])},
                           finding='[bounded check] ' + f['what'])
        elif out[key]:
            violation(name, 'InRamPolicySupporter.GetBestTrials', (out.get(ex) or [out])[0], scope)
    if out['other_failures']:
        violation('C11.bounded.GetBestTrials.selection', 'InRamPolicySupporter.GetBestTrials', out['other_failures'][0], scope)


# ------------------------------------------------------------------------------------------ main
def _child(conn, fn, tier, args):
    try:
        os.setsid()        # own process group: the parent can kill the task together with its solver workers
    except OSError:
        pass
    try:
        sub = report.Check('C11', tier)
        fn(sub, tier, *args)
        state = {k: getattr(sub, k) for k in ('obligations', 'functions', 'assumptions', 'trusted', 'bounded', 'notes', 'violations',
                                               'known_lines', 'errors', 'backends', 'solver_time')}
        conn.send(('ok', state))
    except BaseException:      # a traceback in a task is a checker error, never a verdict
        import traceback
        conn.send(('error', traceback.format_exc()[-3000:]))
    finally:
        conn.close()


def run_parallel(chk, tier, tasks, budget_s):
    """each task (name, fn, args) runs in its own forked process with its own Check; the states are merged in task order"""
    import multiprocessing
    ctx = multiprocessing.get_context('fork')
    procs = []
    for name, fn, args in tasks:
        a, b = ctx.Pipe(duplex=False)
        pr = ctx.Process(target=_child, args=(b, fn, tier, args))
        pr.start()
        b.close()
        procs.append((name, pr, a))
    t_end = time.time() + budget_s
    for name, pr, a in procs:
        msg = None
        try:
            if a.poll(max(t_end - time.time(), 1.0)):
                msg = a.recv()
        except EOFError:
            msg = None
        if msg is None:
            try:
                import signal
                os.killpg(pr.pid, signal.SIGKILL)
            except OSError:
                pr.terminate()
            chk.error('C11.%s.task' % name, 'the verification task did not finish within the budget (%ds) or died' % budget_s)
            continue
        pr.join(10)
        if msg[0] == 'error':
            chk.error('C11.%s.task' % name, 'uncaught exception in the checker (not a violation):\n' + msg[1])
            continue
        st = msg[1]
        chk.obligations += st['obligations']
        chk.functions.update(st['functions'])
        for k in ('assumptions', 'trusted', 'known_lines', 'violations', 'errors', 'notes'):
            for x in st[k]:
                if x not in getattr(chk, k) or k in ('violations', 'errors'):
                    getattr(chk, k).append(x)
        chk.bounded += st['bounded']
        for k, v in st['backends'].items():
            chk.backends[k] = chk.backends.get(k, 0) + v
        chk.solver_time += st['solver_time']


def check_list_optimal_d(chk, tier, d):
    global LOT_ROLES
    try:
        LOT_ROLES = lot_register()
    except Unsupported as u:
        chk.error('VizierServicer.ListOptimalTrials.supported', str(u))
        return
    tag = '[d=%d]' % d
    rn = support_rename('C11.ListOptimalTrials')
    global LOT_NAN_OPEN
    known = lot_known(d) if open_finding(chk, 'C11.ListOptimalTrials.no_nan_objective') else None
    LOT_NAN_OPEN = known is not None
    Fn(chk, tier, LOT, lot_entry(d), lot_post(d), replay_of=lot_replay(d), known=known,
       bounded_sizes=([(2, d)] + ([(2, d, 'perm')] if d == 2 else []) + ([(3, d)] if d == 2 else []) if d > 1 else [(2, 1), (3, 1)]) if d else [(2, 1)],
       rename=(lambda n, rn=rn, tag=tag: rn(n) + tag), workers=3, expect_paths=3,
       timeout_ms=4000 if tier == 'quick' else 60000).run()


def lot_preamble(chk, tier):
    chk.function(SVC, LOT)
    chk.assume('the metric ids configured in study_spec.metrics are pairwise distinct')
    chk.assume('ListOptimalTrials is verified for every number of stored trials and for 0..%d configured metrics (the dimension is '
               'enumerated: the loop over the configured metrics is unrolled); datastore as the abstract DataStore contract (Appendix A); '
               'the C11 clauses are stated relative to the list returned by datastore.list_trials' % (2 if tier == 'quick' else 4))


ACTIVE_FINDINGS = set()     # obligations of findings that are listed as open AND whose witness reproduces on the current tree


def confirm_open_findings(chk):
    """Only a finding that is listed as open and still reproduces suppresses anything.  A listed finding whose witness no
    longer reproduces is stale: a NOTE is printed and its obligation is checked like any other (never a checker error).
    Entries with status 'fixed' are not replayed at all."""
    pool = ckit.ReplayPool()
    todo = []
    for f in chk.findings:
        w = f.get('witness') or {}
        if f.get('status', 'open') == 'open' and w.get('driver') == 'replay/c11_replay.py':
            pool.start(f['obligation'], 'c11_replay.py', w['args'])
            todo.append(f)
    for f in todo:
        out, raw = pool.get(f['obligation'], timeout=180)
        if out and out.get('reproduced'):
            ACTIVE_FINDINGS.add(f['obligation'])
            chk.note('finding witness for %s re-confirmed on the real code.' % f['obligation'])
        else:
            msg = 'NOTE: property=C11 the recorded finding for %s no longer reproduces on the current tree (stale entry): the obligation is checked like any other' % f['obligation']
            print(msg)
            chk.note(msg)


def open_finding(chk, name):
    return chk.finding_for(name) if name in ACTIVE_FINDINGS else None


def main(tier):
    chk = report.Check('C11', tier, level='proof',
                       technique='contract-based deductive verification: VCs from the real AST (pyvc symbolic execution, numpy fragment as '
                                 'total functions with symbolic shape, loop invariants, recursion by callee contract), z3; bounded model '
                                 'query + native replay for refutations')
    for t in ('pyvc VC generator and its Python models (DESIGN 2, 4)', 'z3 5.1.0',
              'numpy/jax fragment of pyvc/np_model.py (mask enumeration, argsort = sorting permutation, searchsorted, max, boolean sum, vmap = pointwise map)'):
        chk.trust(t)
    chk.assume('floats are extended reals (XReal): comparisons exact, inputs range over all reals, not only doubles')
    pool = ckit.ReplayPool()
    start_bounded(pool, tier)
    confirm_open_findings(chk)
    lot_preamble(chk, tier)
    fast_preamble(chk, tier)
    xla_preamble(chk, tier)
    gbt_preamble(chk, tier)
    tasks = [('xla_simple', check_xla_simple, ()), ('best_trials', check_best_trials, ())]
    for k in (1, 2, 3, 4, 5):
        tasks.append(('xla_frontier_%d' % k, check_xla_frontier, (k,)))
    tasks.append(('xla_class', check_xla_frontier, (10, True)))
    tasks += [('naive', check_naive, ()), ('rank', check_rank, ()), ('fast_against_strict', check_fast_against, (True,)),
             ('fast_against_nonstrict', check_fast_against, (False,)), ('fast_optimal', check_fast_optimal, ())]
    for d in ((0, 1, 2) if tier == 'quick' else (0, 1, 2, 3, 4)):
        tasks.append(('ListOptimalTrials.d%d' % d, check_list_optimal_d, (d,)))
    run_parallel(chk, tier, tasks, budget_s=600 if tier == 'quick' else 3000)
    collect_bounded(chk, pool, tier)
    return chk.finish(min_obligations=5)
