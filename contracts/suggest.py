"""SuggestTrials under contract (shared by C02, C06, C01, C04): models of the algorithm side, loop contracts
(DESIGN.md Appendix C), and the postconditions taken from the property statements.

The body is the real VizierServicer.SuggestTrials; Pythia is 'any list of suggestions or any Exception'.
"""
import z3

from pyvc import engine as E, models as M, protomodel as pm
from pyvc.engine import Obj, ExcObj, PyRaise, Builtin, Unsupported, model
from pyvc.protomodel import Msg, SymList, Str
from pyvc.source import ModuleInfo
from contracts import servicer_model as S
from contracts.servicer_model import Name, acc, is_some, some, none, val, parse, mkname

T, ST, OP = S.S_TRIAL, S.S_STUDY, S.S_OP
REQUESTED, ACTIVE, STOPPING, SUCCEEDED, INFEASIBLE = 1, 2, 3, 4, 5
SVC = S.SVC
CONV = 'vizier._src.pyvizier.oss.proto_converters'
MDU = 'vizier._src.pyvizier.oss.metadata_util'

KV = lambda: S.schema('vizier.KeyValue')
UMU = lambda: S.schema('vizier.UnitMetadataUpdate')


# ------------------------------------------------------------------------------------------ algorithm-side models
@model('vizier._src.pyvizier.oss.study_config:StudyConfig.from_proto')
def _sc_from_proto(it, args, kw):
    # the stored study_spec was accepted by CreateStudy's caller; conversion of a stored spec is assumed total
    it.run.assumed.add('StudyConfig.from_proto does not raise on a stored study_spec')
    ep = None
    if it.run.choose(z3.Bool('has_pythia_endpoint!%d' % it.run.cursor)):
        ep = it.run.fresh('pythia_endpoint', Str)
    return Obj('opaque:StudyConfig', {'pythia_endpoint': ep})


def _opaque_ctor(tag):
    def ctor(it, args, kw):
        return Obj('opaque:' + tag, dict(kw))
    return ctor


E.MODELS['vizier._src.pyvizier.pythia.study:StudyDescriptor'] = _opaque_ctor('StudyDescriptor')
E.MODELS['vizier._src.pythia.policy:SuggestRequest'] = _opaque_ctor('SuggestRequest')
E.MODELS['vizier._src.pythia.policy:EarlyStopRequest'] = _opaque_ctor('EarlyStopRequest')


@model(CONV + ':SuggestConverter.to_request_proto')
def _to_request_proto(it, args, kw):
    req = args[-1]
    m = S.symbolic_msg('vizier.SuggestRequest', 'suggest_request_proto!%d' % it.run.fresh_n)
    m.set('count', req.attrs['count'])
    return m


@model('vizier._src.service.stubs_util:create_pythia_server_stub')
def _stub(it, args, kw):
    return S.PythiaRef('remote')


def pythia_call(kind):
    def call(it, args, kw):
        run = it.run
        run.event('pythia', kind)
        if run.choose(z3.Bool('pythia_raises!%d' % run.cursor)):
            run.pythia_raised = True
            run.pythia_exc = E.AnyExc('pythia')
            raise PyRaise(ExcObj(run.pythia_exc, {'args': ()}))
        fq = 'vizier.SuggestDecision' if kind == 'Suggest' else 'vizier.EarlyStopDecisions'
        return S.symbolic_msg(fq, 'pythia_%s_result' % kind)
    return call


_prev = M.value_getattr_hook


def _hook(it, v, a):
    if isinstance(v, S.PythiaRef):
        if a in ('Suggest', 'EarlyStop'):
            return Builtin('pythia.' + a, pythia_call(a))
        raise Unsupported('pythia method %s' % a)
    return _prev(it, v, a)


M.value_getattr_hook = _hook

sugg_of = z3.Function('suggestions_of', pm.msg_sort(S.schema('vizier.SuggestDecision')), z3.ArraySort(z3.IntSort(), pm.PyObj))
md_study_of = z3.Function('md_on_study_of', pm.PyObj, z3.ArraySort(z3.IntSort(), pm.msg_sort(KV())))
md_study_n = z3.Function('md_on_study_n', pm.PyObj, z3.IntSort())
md_trials_of = z3.Function('md_on_trials_of', pm.PyObj, z3.ArraySort(z3.IntSort(), pm.msg_sort(UMU())))
md_trials_n = z3.Function('md_on_trials_n', pm.PyObj, z3.IntSort())
decision_md = z3.Function('decision_metadata', pm.msg_sort(S.schema('vizier.SuggestDecision')), pm.PyObj)
to_trial_proto = z3.Function('suggestion_to_trial_proto', pm.PyObj, pm.msg_sort(T()))


@model(CONV + ':SuggestConverter.from_decision_proto')
def _from_decision_proto(it, args, kw):
    proto = args[-1]
    it.run.assumed.add('SuggestConverter.from_decision_proto does not raise on the decision returned by Pythia')
    t = proto.pack()
    n = proto.get('suggestions').n
    sugg = SymList(n, sugg_of(t), 'pyobj')
    if it.run.bounded:
        it.concretize_len(sugg)
    md = M.OpaqueObj(decision_md(t))
    it.run.S = sugg
    return Obj('opaque:SuggestDecision', {'suggestions': sugg, 'metadata': md})


@model(MDU + ':make_key_value_list')
def _make_kv(it, args, kw):
    o = args[0]
    n = md_study_n(o.term)
    if it.run.bounded:
        n = z3.IntVal(0)      # bounded model query: the algorithm sends no metadata
    it.run.assume(n >= 0)
    return SymList(n, md_study_of(o.term), KV())


@model(MDU + ':trial_metadata_to_update_list')
def _make_umu(it, args, kw):
    o = args[0]
    n = md_trials_n(o.term)
    if it.run.bounded:
        n = z3.IntVal(0)
    it.run.assume(n >= 0)
    return SymList(n, md_trials_of(o.term), UMU())


@model(CONV + ':TrialConverter.to_protos')
def _to_protos(it, args, kw):
    xs = args[-1]
    run = it.run
    if run.bounded:
        items = M.iterate(it, xs)
        out = [Msg.from_term(T(), to_trial_proto(E.to_z3(x))) for x in items]
        run.NT_list = [m.pack() for m in out]
        return out
    if not isinstance(xs, SymList):
        raise Unsupported('TrialConverter.to_protos of a non-symbolic list')
    arr = run.fresh('new_trials', z3.ArraySort(z3.IntSort(), pm.msg_sort(T())))
    j = z3.Int('j!tp')
    run.axiom(z3.ForAll([j], z3.Implies(z3.And(j >= 0, j < xs.n), arr[j] == to_trial_proto(xs.arr[j]))))
    r = SymList(xs.n, arr, T())
    run.NT = M.snapshot(r)
    return r


# ------------------------------------------------------------------------------------------ spec helpers
def upd_assigned(t, client, start):
    """pool trial handed out: ACTIVE, client_id, start_time := now ; nothing else."""
    return with_fields(T(), t, {'state': z3.IntVal(ACTIVE), 'client_id': client, 'start_time': start, 'has__start_time': z3.BoolVal(True)})


def with_fields(sch, term, repl):
    layout = pm.msg_layout(sch)
    args = [repl[zn] if zn in repl else pm.accessor(sch, zn)(term) for zn, _, _, _ in layout]
    return pm._MK[sch.fq](*args)


def tkey(t):
    return parse(acc(T(), 'name')(t))


def request_terms(fr_or_req):
    req = fr_or_req
    return E.to_z3(req.get('client_id')), E.to_z3(req.get('suggestion_count')), parse(E.to_z3(req.get('parent')))


# ------------------------------------------------------------------------------------------ loop contracts
def _roles(fr, ctx):
    """Bind the loop contract to the code by ROLE, not by the names of temporaries: the lists are the ones the loop
    guard tests (`while <pool> and count > len(<output>)`), the timestamp is what the body copies into start_time, the
    request is the method's first parameter.  Falls back to the current names."""
    import ast
    node = ctx.node
    r = {}
    if isinstance(node, ast.While):
        for n in ast.walk(node.test):
            if isinstance(n, ast.Call) and isinstance(n.func, ast.Name) and n.func.id == 'len' and n.args and isinstance(n.args[0], ast.Name):
                r['output'] = n.args[0].id
        tests = node.test.values if isinstance(node.test, ast.BoolOp) else [node.test]
        for t in tests:
            if isinstance(t, ast.Name):
                r['pool'] = t.id
        for n in ast.walk(node):
            if isinstance(n, ast.Call) and isinstance(n.func, ast.Attribute) and n.func.attr == 'pop' and isinstance(n.func.value, ast.Name):
                r.setdefault('pool', n.func.value.id)
            if isinstance(n, ast.Call) and isinstance(n.func, ast.Attribute) and n.func.attr == 'CopyFrom' and n.args and isinstance(n.args[0], ast.Name) \
                    and isinstance(n.func.value, ast.Attribute) and n.func.value.attr == 'start_time':
                r['start'] = n.args[0].id
    f = fr
    while f is not None and f.func is None:
        f = f.parent
    if f is not None and len(f.func.node.args.args) >= 2:
        r['request'] = f.func.node.args.args[1].arg
    out = {'output': r.get('output', 'output_trials'), 'pool': r.get('pool'), 'start': r.get('start', 'start_time'),
           'request': r.get('request', 'request')}
    return out


def _static_facts(run, sk):
    """Loop-independent facts about the lists built before the pool loop (proved at loop entry from the list and
    comprehension axioms, then available at every loop head): shortcuts for the quantifier instantiation."""
    A, P, Dp = run.sg['A'], run.sg['P'], run.sg['Dpool0']
    t = T()
    j, j2 = z3.Int('j!sf'), z3.Int('j2!sf')
    Dt0 = Dp['D.trial']
    return [
        ('pool_entries', z3.ForAll([j], z3.Implies(z3.And(j >= 0, j < P.n), z3.And(
            Dt0[tkey(P.arr[j])] == some(t, P.arr[j]), acc(t, 'state')(P.arr[j]) == REQUESTED,
            Name.is_trial(tkey(P.arr[j])), S.study_of_trial(tkey(P.arr[j])) == sk,
            S.inv_trial_at(Dp, tkey(P.arr[j])))))),
        ('pool_keys_distinct', z3.ForAll([j, j2], z3.Implies(z3.And(j >= 0, j < j2, j2 < P.n), tkey(P.arr[j]) != tkey(P.arr[j2])))),
        ('own_entries', z3.ForAll([j], z3.Implies(z3.And(j >= 0, j < A.n), z3.And(
            Dt0[tkey(A.arr[j])] == some(t, A.arr[j]), acc(t, 'state')(A.arr[j]) == ACTIVE,
            Name.is_trial(tkey(A.arr[j])), S.study_of_trial(tkey(A.arr[j])) == sk)))),
    ]


def _inv_pool(it, fr, ctx):
    """while requested_trials and request.suggestion_count > len(output_trials)   (Appendix C, pool loop)"""
    run = it.run
    ro = _roles(fr, ctx)
    req = fr.env[ro['request']]
    client, count, sk = request_terms(req)
    out, reqs = fr.env[ro['output']], fr.env[ro['pool'] or 'requested_trials']
    start = fr.env[ro['start']].pack()
    if ctx.phase == 'init':
        run.sg = {'A': ctx.entry_vals[ro['output']], 'P': ctx.entry_vals[ro['pool'] or 'requested_trials'],
                  'Dpool0': dict(run.ghost), 'start': start}
    A, P, Dp = run.sg['A'], run.sg['P'], run.sg['Dpool0']
    j = z3.Int('j!ip')
    k = z3.Const('k!ip', Name)
    Dt = run.ghost['D.trial']
    inv = list(_static_facts(run, sk))
    inv.append(('sizes', z3.And(reqs.n >= 0, reqs.n <= P.n, out.n == A.n + (P.n - reqs.n), out.n <= count, A.n < count)))
    inv.append(('pool_array_unchanged', reqs.arr == P.arr))
    inv.append(('output_prefix_own', z3.ForAll([j], z3.Implies(z3.And(j >= 0, j < A.n), out.arr[j] == A.arr[j]))))
    inv.append(('output_assigned', z3.ForAll([j], z3.Implies(z3.And(j >= A.n, j < out.n),
                                                              out.arr[j] == upd_assigned(P.arr[P.n - 1 - (j - A.n)], client, start)))))
    inv.append(('stored_assigned', z3.ForAll([j], z3.Implies(z3.And(j >= reqs.n, j < P.n),
                                                             Dt[tkey(P.arr[j])] == some(T(), upd_assigned(P.arr[j], client, start))))))
    inv.append(('others_untouched', z3.ForAll([k], z3.Implies(
        z3.ForAll([j], z3.Implies(z3.And(j >= reqs.n, j < P.n), k != tkey(P.arr[j]))), Dt[k] == Dp['D.trial'][k]))))
    inv.append(('other_maps', z3.And(run.ghost['D.study'] == Dp['D.study'], run.ghost['D.sop'] == Dp['D.sop'],
                                     run.ghost['D.eop'] == Dp['D.eop'])))
    return inv


E.LOOPS[(SVC, 'VizierServicer.SuggestTrials', 1)] = E.LoopSpec(_inv_pool, ghost=('D.trial',))


def _created(run, client, sk, jj):
    NT, m0, start = run.sg['NT'], run.sg['m0'], run.sg['start']
    nk = Name.trial(Name.o1(sk), Name.s1(sk), m0 + (NT.n - jj))
    return nk, with_fields(T(), NT.arr[jj], {
        'id': M.int2str(m0 + (NT.n - jj)), 'name': mkname(nk), 'state': z3.IntVal(ACTIVE),
        'start_time': start, 'has__start_time': z3.BoolVal(True), 'client_id': client})


def _name_facts(nk):
    """what the resource-name algebra gives for a freshly built trial name"""
    return z3.And(parse(mkname(nk)) == nk, M.str2int(M.int2str(Name.t2(nk))) == Name.t2(nk))


def _inv_create(it, fr, ctx):
    """while new_trials and request.suggestion_count > len(output_trials): pop a new trial, give it id max+1, create it."""
    run = it.run
    ro = _roles(fr, ctx)
    req = fr.env[ro['request']]
    client, count, sk = request_terms(req)
    out, new = fr.env[ro['output']], fr.env[ro['pool'] or 'new_trials']
    if ctx.phase == 'init':
        run.sg.update({'NT': ctx.entry_vals[ro['pool'] or 'new_trials'], 'out2': ctx.entry_vals[ro['output']], 'Dcreate0': dict(run.ghost)})
        run.sg['m0'] = S.max_id_of(it, sk)
    NT, out2, Dc = run.sg['NT'], run.sg['out2'], run.sg['Dcreate0']
    m0 = run.sg['m0']
    j = z3.Int('j!ic')
    k = z3.Const('k!ic', Name)
    Dt = run.ghost['D.trial']
    c2 = NT.n - new.n
    inv = []
    inv.append(('sizes', z3.And(new.n >= 0, new.n <= NT.n, out.n == out2.n + c2, out.n <= count)))
    inv.append(('new_array_unchanged', new.arr == NT.arr))
    inv.append(('output_prefix', z3.ForAll([j], z3.Implies(z3.And(j >= 0, j < out2.n), out.arr[j] == out2.arr[j]))))
    inv.append(('output_created', z3.ForAll([j], z3.Implies(z3.And(j >= out2.n, j < out.n),
                                                             out.arr[j] == _created(run, client, sk, NT.n - 1 - (j - out2.n))[1]))))
    inv.append(('stored_created', z3.ForAll([j], z3.Implies(z3.And(j >= new.n, j < NT.n), z3.And(
        Dt[_created(run, client, sk, j)[0]] == some(T(), _created(run, client, sk, j)[1]), _name_facts(_created(run, client, sk, j)[0]))))))
    inv.append(('others_untouched', z3.ForAll([k], z3.Implies(
        z3.Not(z3.And(Name.is_trial(k), S.study_of_trial(k) == sk, Name.t2(k) > m0, Name.t2(k) <= m0 + c2)), Dt[k] == Dc['D.trial'][k]))))
    inv.append(('other_maps', z3.And(run.ghost['D.study'] == Dc['D.study'], run.ghost['D.sop'] == Dc['D.sop'],
                                     run.ghost['D.eop'] == Dc['D.eop'])))
    inv.append(('max_bound', z3.ForAll([k], z3.Implies(z3.And(Name.is_trial(k), S.study_of_trial(k) == sk, is_some(T(), Dt[k])),
                                                       Name.t2(k) <= m0 + c2))))
    inv.append(('max_witness', z3.Or(m0 + c2 == 0, is_some(T(), Dt[Name.trial(Name.o1(sk), Name.s1(sk), m0 + c2)]))))
    inv.append(('study_exists', z3.And(Name.is_study(sk), S.wf(sk), is_some(ST(), run.ghost['D.study'][sk]))))
    return inv


E.LOOPS[(SVC, 'VizierServicer.SuggestTrials', 2)] = E.LoopSpec(_inv_create, ghost=('D.trial', 'D.seq', 'D.next'))


def _queued(run, sk, new, jj):
    NT, m0 = run.sg['NT'], run.sg['m0']
    c2 = NT.n - new.n
    nk = Name.trial(Name.o1(sk), Name.s1(sk), m0 + c2 + 1 + jj)
    return nk, with_fields(T(), new.arr[jj], {'id': M.int2str(m0 + c2 + 1 + jj), 'name': mkname(nk), 'state': z3.IntVal(REQUESTED)})


def _inv_surplus(it, fr, ctx):
    """for remain_trial in new_trials: stored REQUESTED with the next ids."""
    run = it.run
    req = fr.env[_roles(fr, ctx)['request']]
    client, count, sk = request_terms(req)
    new = ctx.iter
    if ctx.phase == 'init':
        run.sg.update({'Dsur0': dict(run.ghost), 'R': M.snapshot(new)})
    Ds = run.sg['Dsur0']
    NT, m0 = run.sg['NT'], run.sg['m0']
    c2 = NT.n - new.n          # trials created for the caller
    i = ctx.i
    j = z3.Int('j!is')
    k = z3.Const('k!is', Name)
    Dt = run.ghost['D.trial']
    inv = []
    inv.append(('stored_queued', z3.ForAll([j], z3.Implies(z3.And(j >= 0, j < i), z3.And(
        Dt[_queued(run, sk, new, j)[0]] == some(T(), _queued(run, sk, new, j)[1]), _name_facts(_queued(run, sk, new, j)[0]))))))
    inv.append(('others_untouched', z3.ForAll([k], z3.Implies(
        z3.Not(z3.And(Name.is_trial(k), S.study_of_trial(k) == sk, Name.t2(k) > m0 + c2, Name.t2(k) <= m0 + c2 + i)), Dt[k] == Ds['D.trial'][k]))))
    inv.append(('other_maps', z3.And(run.ghost['D.study'] == Ds['D.study'], run.ghost['D.sop'] == Ds['D.sop'],
                                     run.ghost['D.eop'] == Ds['D.eop'])))
    inv.append(('max_bound', z3.ForAll([k], z3.Implies(z3.And(Name.is_trial(k), S.study_of_trial(k) == sk, is_some(T(), Dt[k])),
                                                       Name.t2(k) <= m0 + c2 + i))))
    inv.append(('max_witness', z3.Or(m0 + c2 + i == 0, is_some(T(), Dt[Name.trial(Name.o1(sk), Name.s1(sk), m0 + c2 + i)]))))
    inv.append(('study_exists', z3.And(Name.is_study(sk), S.wf(sk), is_some(ST(), run.ghost['D.study'][sk]))))
    return inv


E.LOOPS[(SVC, 'VizierServicer.SuggestTrials', 3)] = E.LoopSpec(_inv_surplus, ghost=('D.trial', 'D.seq', 'D.next'))


# ------------------------------------------------------------------------------------------ entry
def entry(it):
    S.init_view(it.run)
    svc = S.make_servicer(it)
    req = S.symbolic_msg('vizier.SuggestTrialsRequest', 'req')
    it.run.req = req
    # N >= 1 (property quantifier: all counts N >= 1)
    it.run.assume(E.to_z3(req.get('suggestion_count')) >= 1)
    cls = ModuleInfo.get(SVC).classes['VizierServicer']
    return it.invoke(E.FuncVal(cls.mod, cls.methods['SuggestTrials'], cls), [svc, req, None], {})


# ------------------------------------------------------------------------------------------ postconditions
RESP = lambda: S.schema('vizier.SuggestTrialsResponse')


def response_list(p):
    """(n, arr) of the trials inside the returned operation's response (deser(ser(x)) == x is in the path condition)."""
    op = p.value
    _, d = M.ser_fn(RESP())
    val_bytes = E.to_z3(op.get('response').get('value'))
    resp = d(val_bytes)
    return acc(RESP(), 'trials__len')(resp), acc(RESP(), 'trials__arr')(resp)


def no_orphan(D):
    k = z3.Const('k!no', Name)
    return z3.ForAll([k], z3.Implies(is_some(OP(), D['D.sop'][k]), acc(OP(), 'done')(val(OP(), D['D.sop'][k]))))


def phases(p):
    """trial-map snapshots D0 -> after pool loop -> after metadata merge -> after creation loop -> final."""
    run = p.run
    sg = getattr(run, 'sg', {})
    D0t, D1t = run.D0['D.trial'], run.ghost['D.trial']
    md = getattr(run, 'md_update', None)
    ph = {'D0': D0t, 'D1': D1t}
    if 'Dpool0' in sg:
        ph['pool_end'] = md[2] if md is not None else D1t
    if md is not None:
        ph['md_end'] = md[3]
    if 'Dcreate0' in sg:
        ph['create_end'] = sg['Dsur0']['D.trial'] if 'Dsur0' in sg else D1t
    return ph


def key_lemmas(p, j, tag):
    """What happened to an arbitrary key j in each phase (each lemma is proved from the loop invariants at the loop
    exits, then used to derive the postconditions: cut rule)."""
    run = p.run
    sg = getattr(run, 'sg', {})
    req = run.req
    client, count, sk = request_terms(req)
    t = T()
    ph = phases(p)
    lem = []
    st = lambda o: acc(t, 'state')(val(t, o))
    if 'pool_end' in ph:
        a, b = ph['D0'][j], ph['pool_end'][j]
        lem.append(('lemma.%s.pool' % tag, z3.Or(b == a, z3.And(
            is_some(t, a), st(a) == REQUESTED, Name.is_trial(j), S.study_of_trial(j) == sk,
            b == some(t, upd_assigned(val(t, a), client, sg['start'])))), 'lemma'))
    if 'md_end' in ph:
        a, b = ph['pool_end'][j], ph['md_end'][j]
        lem.append(('lemma.%s.metadata' % tag, z3.And(is_some(t, b) == is_some(t, a),
                                                       z3.Implies(is_some(t, a), S.same_except_metadata_trial(val(t, b), val(t, a)))), 'lemma'))
    if 'create_end' in ph:
        a, b = ph['md_end'][j], ph['create_end'][j]
        NT, m0 = sg['NT'], sg['m0']
        jj = NT.n - (Name.t2(j) - m0)
        new_n = (sg['R'].n if 'R' in sg else None)
        c2 = NT.n - new_n if new_n is not None else None
        if c2 is not None:
            lem.append(('lemma.%s.create.instance' % tag, z3.Implies(
                z3.And(Name.is_trial(j), S.study_of_trial(j) == sk, Name.t2(j) > m0, Name.t2(j) <= m0 + c2),
                z3.And(_created(run, client, sk, jj)[0] == j, ph['create_end'][j] == some(t, _created(run, client, sk, jj)[1]), _name_facts(j))), 'lemma'))
        lem.append(('lemma.%s.create' % tag, z3.Or(b == a, z3.And(
            z3.Not(is_some(t, a)), is_some(t, b), Name.is_trial(j), S.study_of_trial(j) == sk, Name.t2(j) > m0,
            st(b) == ACTIVE, acc(t, 'client_id')(val(t, b)) == client,
            acc(t, 'name')(val(t, b)) == mkname(j), acc(t, 'id')(val(t, b)) == M.int2str(Name.t2(j)), _name_facts(j))), 'lemma'))
        if 'Dsur0' in sg:
            a, b = ph['create_end'][j], ph['D1'][j]
            new = sg['R']
            ji = Name.t2(j) - (m0 + c2 + 1)
            lem.append(('lemma.%s.surplus.instance' % tag, z3.Implies(
                z3.And(Name.is_trial(j), S.study_of_trial(j) == sk, Name.t2(j) > m0 + c2, Name.t2(j) <= m0 + c2 + new.n),
                z3.And(_queued(run, sk, new, ji)[0] == j, ph['D1'][j] == some(t, _queued(run, sk, new, ji)[1]), _name_facts(j))), 'lemma'))
            lem.append(('lemma.%s.surplus' % tag, z3.Or(b == a, z3.And(
                z3.Not(is_some(t, a)), is_some(t, b), Name.is_trial(j), S.study_of_trial(j) == sk, Name.t2(j) > m0,
                st(b) == REQUESTED,
                acc(t, 'name')(val(t, b)) == mkname(j), acc(t, 'id')(val(t, b)) == M.int2str(Name.t2(j)), _name_facts(j))), 'lemma'))
        # ids handed out are above every id stored before
        lem.append(('lemma.%s.max_id' % tag, z3.Implies(z3.And(Name.is_trial(j), S.study_of_trial(j) == sk, is_some(t, ph['md_end'][j])),
                                                        Name.t2(j) <= m0), 'lemma'))
    return lem


def lifecycle_suggest(D0, D1, j, client):
    """relational lifecycle facts at an arbitrary key j for SuggestTrials: the only legal change of an existing
    trial is REQUESTED -> ACTIVE (handed to `client`) or a metadata update."""
    t = T()
    o0, o1 = D0['D.trial'][j], D1['D.trial'][j]
    a, b = val(t, o0), val(t, o1)
    s0, s1 = acc(t, 'state')(a), acc(t, 'state')(b)
    both = z3.And(is_some(t, o0), is_some(t, o1))
    params = z3.And(acc(t, 'parameters__len')(a) == acc(t, 'parameters__len')(b), acc(t, 'parameters__arr')(a) == acc(t, 'parameters__arr')(b))
    return {
        'legal_transition': z3.Implies(both, z3.Or(s1 == s0, z3.And(s0 == REQUESTED, s1 == ACTIVE))),
        'parameters_unchanged': z3.Implies(both, params),
        'completed_immutable': z3.Implies(z3.And(both, z3.Or(s0 == SUCCEEDED, s0 == INFEASIBLE)), S.same_except_metadata_trial(a, b)),
        'no_trial_disappears': z3.Implies(is_some(t, o0), is_some(t, o1)),
    }


def post(p):
    run = p.run
    D0, D1 = run.D0, run.ghost
    req = run.req
    client, count, sk = request_terms(req)
    t = T()
    obs = []
    kind = p.kind
    cls = E.class_name(p.value.cls) if kind == 'raise' else None
    code = p.value.attrs.get('_code') if kind == 'raise' and cls == 'LocalRpcError' else None
    evs = [e for e in run.events if e[0] in ('ds', 'pythia')]
    created_op = [e for e in evs if e[1] == 'create_suggestion_operation']
    pythia_called = any(e[0] == 'pythia' for e in evs)
    j = z3.Const('j!any', Name)
    i = z3.Int('i!p')
    study_o = D0['D.study'][sk]
    present = z3.And(Name.is_study(sk), is_some(ST(), study_o))
    sst = acc(ST(), 'state')(val(ST(), study_o))
    mutable = z3.Or(sst == 0, sst == 1)
    sg = getattr(run, 'sg', {})

    # ---- an exception escaping after the operation record exists must be impossible (sequentially)
    if kind == 'raise' and created_op:
        obs.append(('C06.SuggestTrials.no_exception_after_operation_created', z3.BoolVal(False)))
        return obs

    # ---- lemmas about an arbitrary key
    obs += key_lemmas(p, j, 'any')

    # ---- C01: lifecycle relations, frame, invariant, error behaviour
    for nm, f in lifecycle_suggest(D0, D1, j, client).items():
        obs.append(('C01.SuggestTrials.' + nm, f))
    from contracts import c01
    obs.append(('C01.SuggestTrials.inv_preserved', c01.inv_preserved(p, j)))
    obs.append(('C01.SuggestTrials.frame', z3.And(D1['D.eop'] == D0['D.eop'],
                z3.ForAll([j], z3.Implies(j != sk, D1['D.study'][j] == D0['D.study'][j])),
                z3.ForAll([j], z3.Implies(z3.Not(z3.And(Name.is_sop(j), Name.study(Name.o3(j), Name.s3(j)) == sk, Name.c3(j) == client)),
                                          D1['D.sop'][j] == D0['D.sop'][j])))))
    obs.append(('C01.SuggestTrials.frame_trials', z3.Implies(z3.Not(z3.And(Name.is_trial(j), S.study_of_trial(j) == sk)),
                                                           D1['D.trial'][j] == D0['D.trial'][j])))
    if kind == 'raise' and not created_op:
        obs.append(('C01.SuggestTrials.error_leaves_data_unchanged', c01.unchanged(D0, D1)))
        if cls == 'NotFoundError':
            obs.append(('C01.SuggestTrials.error_class', z3.Not(present)))
        elif cls == 'LocalRpcError' and code == c01.FP:
            obs.append(('C01.SuggestTrials.error_class', z3.And(present, z3.Not(mutable))))
        elif cls == 'ValueError':
            obs.append(('C01.SuggestTrials.error_class', z3.Or(z3.Not(Name.is_study(sk)), z3.Not(S.valid_comp(client)))))
        else:
            obs.append(('C01.SuggestTrials.error_class', z3.BoolVal(False)))
    if kind == 'return':
        obs.append(('C01.SuggestTrials.missing', present))
        obs.append(('C01.SuggestTrials.immutable_study', mutable))

    # ---- C06: no operation left not-done on any exit (inductive: NoOrphan(D0) => NoOrphan(D1))
    hyp = no_orphan(D0)
    kk = z3.Const('k!orph', Name)
    orphan_at = lambda D, k_: z3.And(is_some(OP(), D['D.sop'][k_]), z3.Not(acc(OP(), 'done')(val(OP(), D['D.sop'][k_]))))
    obs.append(('C06.SuggestTrials.no_orphan_op', z3.Implies(orphan_at(D1, kk), orphan_at(D0, kk))))
    if kind == 'return':
        op = p.value.pack()
        done = acc(OP(), 'done')(op)
        obs.append(('C06.SuggestTrials.returns_finished_operation', z3.Implies(hyp, done)))
        if getattr(run, 'pythia_raised', False):
            # Pythia raised and we still return: the operation must carry the error
            obs.append(('C06.SuggestTrials.reported', z3.And(done, acc(OP(), 'case__result')(op) == OP().fields['error'].number)))
        if created_op:
            opkey = created_op[0][4]
            obs.append(('C06.SuggestTrials.returned_op_is_stored', D1['D.sop'][opkey] == some(OP(), op)))

    # ---- C02
    filters = getattr(run, 'filters', [])
    if kind == 'return' and created_op:
        opkey = created_op[0][4]
        op = p.value.pack()
        has_err = acc(OP(), 'case__result')(op) == OP().fields['error'].number
        num = z3.Int('num!p')
        inv_sops = z3.ForAll([num], S.inv_sop_at(D0, S.sop_of(sk, client, num)))
        obs.append(('C02.SuggestTrials.op_number', z3.Implies(inv_sops, z3.And(
            Name.is_sop(opkey), Name.c3(opkey) == client, Name.study(Name.o3(opkey), Name.s3(opkey)) == sk,
            z3.Not(is_some(OP(), D0['D.sop'][opkey])),
            z3.ForAll([num], z3.Implies(is_some(OP(), D0['D.sop'][S.sop_of(sk, client, num)]), num < Name.n3(opkey))),
            z3.Or(Name.n3(opkey) == 1, is_some(OP(), D0['D.sop'][S.sop_of(sk, client, Name.n3(opkey) - 1)]))))))
        errorless = not getattr(run, 'pythia_raised', False) and not _md_failed(run, evs)
        if len(filters) >= 1 and errorless:
            A = filters[0]
            Rn, Ra = response_list(p)
            D0t, D1t = D0['D.trial'], D1['D.trial']
            own = lambda k: z3.And(Name.is_trial(k), S.study_of_trial(k) == sk, is_some(t, D0t[k]),
                                   acc(t, 'state')(val(t, D0t[k])) == ACTIVE, acc(t, 'client_id')(val(t, D0t[k])) == client)
            k = z3.Const('k!p', Name)
            i2 = z3.Int('i2!p')
            obs.append(('C02.SuggestTrials.no_error', z3.Not(has_err)))
            # the code's "own" list is the specification's: exactly the ACTIVE trials of this client, creation order
            obs.append(('C02.SuggestTrials.own_list_spec', z3.And(
                z3.ForAll([i], z3.Implies(z3.And(i >= 0, i < A.n), z3.And(own(tkey(A.arr[i])), D0t[tkey(A.arr[i])] == some(t, A.arr[i])))),
                z3.ForAll([k], z3.Implies(own(k), z3.Exists([i], z3.And(i >= 0, i < A.n, tkey(A.arr[i]) == k)))),
                z3.ForAll([i, i2], z3.Implies(z3.And(i >= 0, i < i2, i2 < A.n), D0['D.seq'][tkey(A.arr[i])] < D0['D.seq'][tkey(A.arr[i2])])))))
            if pythia_called and 'NT' in sg:
                P, NT = sg['P'], sg['NT']
                obs.append(('C02.SuggestTrials.count', z3.And(Rn <= count, z3.Or(Rn == count, Rn == A.n + P.n + NT.n))))
            else:
                obs.append(('C02.SuggestTrials.count', Rn == count))
            obs.append(('C02.SuggestTrials.sticky', z3.Implies(A.n >= count, z3.And(
                D1t == D0t, Rn == count, z3.ForAll([i], z3.Implies(z3.And(i >= 0, i < count), Ra[i] == A.arr[i]))))))
            obs.append(('C02.SuggestTrials.own_first', z3.Implies(A.n < count, z3.And(
                Rn >= A.n, z3.ForAll([i], z3.Implies(z3.And(i >= 0, i < A.n), Ra[i] == A.arr[i]))))))
            # pointwise: an arbitrary position i0 of the response
            i0 = z3.Int('i0!p')
            rk = tkey(Ra[i0])
            in_range = z3.And(i0 >= 0, i0 < Rn)
            if 'P' in sg:
                # classify R[i0]: own / pool / created  (from the loop invariants)
                A_, P_ = sg['A'], sg['P']
                start = sg['start']
                cases = [z3.And(i0 < A_.n, Ra[i0] == A_.arr[i0]),
                         z3.And(i0 >= A_.n, i0 < A_.n + P_.n, Ra[i0] == upd_assigned(P_.arr[P_.n - 1 - (i0 - A_.n)], client, start))]
                if 'NT' in sg:
                    NT = sg['NT']
                    out2 = sg['out2']
                    cases.append(z3.And(i0 >= out2.n, Ra[i0] == _created(run, client, sk, NT.n - 1 - (i0 - out2.n))[1],
                                        NT.n - 1 - (i0 - out2.n) >= 0, NT.n - 1 - (i0 - out2.n) < NT.n,
                                        is_some(t, D1t[_created(run, client, sk, NT.n - 1 - (i0 - out2.n))[0]]),
                                        val(t, D1t[_created(run, client, sk, NT.n - 1 - (i0 - out2.n))[0]]) == Ra[i0],
                                        _name_facts(_created(run, client, sk, NT.n - 1 - (i0 - out2.n))[0])))
                obs.append(('lemma.response.classify', z3.Implies(in_range, z3.Or(*cases)), 'lemma'))
            obs += key_lemmas(p, rk, 'resp')
            obs.append(('C02.SuggestTrials.mine', z3.Implies(in_range, z3.And(
                acc(t, 'state')(Ra[i0]) == ACTIVE, acc(t, 'client_id')(Ra[i0]) == client,
                is_some(t, D1t[rk]), S.same_except_metadata_trial(val(t, D1t[rk]), Ra[i0])))))
            other_active = z3.And(is_some(t, D0t[j]), acc(t, 'state')(val(t, D0t[j])) == ACTIVE, acc(t, 'client_id')(val(t, D0t[j])) != client)
            obs.append(('C02.SuggestTrials.no_double_assign.stored', z3.Implies(other_active, z3.And(
                is_some(t, D1t[j]), S.same_except_metadata_trial(val(t, D1t[j]), val(t, D0t[j]))))))
            obs.append(('C02.SuggestTrials.no_double_assign.response', z3.Implies(z3.And(in_range, rk == j), z3.Not(other_active))))
            k2 = z3.Const('k2!p', Name)
            obs.append(('C02.SuggestTrials.fresh_ids', z3.And(
                z3.Implies(z3.And(is_some(t, D1t[j]), z3.Not(is_some(t, D0t[j]))),
                           z3.And(Name.is_trial(j), S.study_of_trial(j) == sk, Name.t2(j) >= 1)),
                z3.Implies(z3.And(is_some(t, D1t[j]), z3.Not(is_some(t, D0t[j])),
                                  Name.is_trial(k2), S.study_of_trial(k2) == sk, is_some(t, D0t[k2])),
                           Name.t2(j) > Name.t2(k2)))))
            if pythia_called and 'NT' in sg:
                NT = sg['NT']
                i1 = z3.Int('i1!p')
                obs.append(('C02.SuggestTrials.surplus_queued', z3.Implies(z3.And(i1 >= 0, i1 < NT.n), z3.Exists([k], z3.And(
                    z3.Not(is_some(t, D0t[k])), is_some(t, D1t[k]),
                    acc(t, 'parameters__arr')(val(t, D1t[k])) == acc(t, 'parameters__arr')(NT.arr[i1]),
                    acc(t, 'parameters__len')(val(t, D1t[k])) == acc(t, 'parameters__len')(NT.arr[i1]),
                    z3.Or(z3.And(acc(t, 'state')(val(t, D1t[k])) == ACTIVE, acc(t, 'client_id')(val(t, D1t[k])) == client),
                          acc(t, 'state')(val(t, D1t[k])) == REQUESTED))))))
    return obs


def _md_failed(run, evs):
    names = [e[1] for e in evs]
    return 'update_metadata' in names and not hasattr(run, 'md_update')


ALL_TOP = ['C01.SuggestTrials.legal_transition', 'C01.SuggestTrials.parameters_unchanged', 'C01.SuggestTrials.completed_immutable',
           'C01.SuggestTrials.no_trial_disappears', 'C01.SuggestTrials.frame', 'C01.SuggestTrials.frame_trials',
           'C01.SuggestTrials.error_leaves_data_unchanged',
           'C02.SuggestTrials.count', 'C02.SuggestTrials.mine', 'C02.SuggestTrials.sticky', 'C02.SuggestTrials.own_first',
           'C02.SuggestTrials.no_double_assign.stored', 'C02.SuggestTrials.no_double_assign.response', 'C02.SuggestTrials.fresh_ids',
           'C02.SuggestTrials.surplus_queued', 'C02.SuggestTrials.op_number', 'C02.SuggestTrials.no_error',
           'C06.SuggestTrials.no_orphan_op', 'C06.SuggestTrials.returns_finished_operation', 'C06.SuggestTrials.reported',
           'C06.SuggestTrials.returned_op_is_stored', 'C06.SuggestTrials.no_exception_after_operation_created']


# ------------------------------------------------------------------------------------------ driver
def witness_terms(p):
    run = p.run
    req = run.req
    client, count, sk = request_terms(req)
    out = [('request', req.pack()), ('study key', sk), ('D0.study[study]', run.D0['D.study'][sk])]
    sg = getattr(run, 'sg', {})
    for nm in ('A', 'P', 'NT'):
        if nm in sg:
            out.append(('len(%s)' % nm, sg[nm].n))
    if 'm0' in sg:
        out.append(('max trial id before creation', sg['m0']))
    return out


def run(chk, pid, tier, known=None):
    """Verify the real SuggestTrials; record the obligations of property `pid` (C01/C02/C06) plus the loop-invariant,
    lemma and callee-precondition obligations they rest on (prefixed with the property id)."""
    from pyvc import verify
    chk.function(SVC, 'VizierServicer.SuggestTrials')
    chk.function(SVC, 'VizierServicer._select_pythia_service', role='inlined real code')
    chk.function(SVC, '_get_current_time', role='inlined real code')
    for a in ('Pythia (policy / remote stub) returns any SuggestDecision or raises any Exception, and does not write to the datastore',
              'suggestion_count >= 1', 'TrialConverter.to_protos / make_key_value_list / trial_metadata_to_update_list are total functions of their argument (C09)'):
        chk.assume(a)
    support = ('VizierServicer.SuggestTrials.loop', 'lemma.', 'datastore.')

    def only(n):
        return n.startswith(pid + '.') or n.startswith(support) or (pid == 'C06' and n.startswith('C06.'))

    def rename(n):
        return n if n.startswith(pid + '.') else '%s.SuggestTrials.support.%s' % (pid, n.replace('VizierServicer.SuggestTrials.', ''))

    def refute(names):
        from contracts import suggest_bounded
        top = [n for n in names if n.startswith(('C01.', 'C02.', 'C06.'))]
        # a failing loop invariant / lemma is searched through the top-level clauses it supports
        want = top if top and all(n in top for n in names) else [n for n in ALL_TOP if n.startswith(pid + '.') or pid == 'C02']
        found = suggest_bounded.model_search(sorted(set(want) | set(top)), tier, deadline_s=480 if tier == 'quick' else 1800)
        out = {n: v for n, v in found.items() if n in names}
        # a failing loop invariant / lemma / clause without its own counter-model is attributed to a reproduced
        # counterexample of the contract found on the same tree (the replay file says which clause broke natively)
        rep = [v for n, v in sorted(found.items()) if v[2]]
        for n in names:
            if n not in out and rep:
                out[n] = rep[0]
        return out

    fr = verify.verify_function(chk, 'VizierServicer.SuggestTrials', entry, post, witness_terms=witness_terms, known=known,
                                timeout_ms=8000 if tier == 'quick' else 60000, expect_paths=10, workers=12, only=only, rename=rename,
                                refute=refute)
    return fr.inlined
