"""SuggestTrials under contract (shared by C02, C06, C01, C04): models of the algorithm side, loop contracts
(DESIGN.md Appendix C), and the postconditions taken from the property statements.

The body is the real VizierServicer.SuggestTrials; Pythia is 'any list of suggestions or any Exception'.
"""
import z3

from pyvc import engine as E, models as M, protomodel as pm
from pyvc.engine import Obj, ExcObj, PyRaise, Builtin, Unsupported, model
from pyvc.protomodel import Msg, SymList, Str
from pyvc.source import ModuleInfo
from contracts import servicer_model as S
from contracts.servicer_model import Name, acc, is_some, some, none, val, parse, mkname

T, ST, OP = S.S_TRIAL, S.S_STUDY, S.S_OP
REQUESTED, ACTIVE, STOPPING, SUCCEEDED, INFEASIBLE = 1, 2, 3, 4, 5
SVC = S.SVC
CONV = 'vizier._src.pyvizier.oss.proto_converters'
MDU = 'vizier._src.pyvizier.oss.metadata_util'

KV = lambda: S.schema('vizier.KeyValue')
UMU = lambda: S.schema('vizier.UnitMetadataUpdate')


# ------------------------------------------------------------------------------------------ algorithm-side models
@model('vizier._src.pyvizier.oss.study_config:StudyConfig.from_proto')
def _sc_from_proto(it, args, kw):
    # the stored study_spec was accepted by CreateStudy's caller; conversion of a stored spec is assumed total
    it.run.assumed.add('StudyConfig.from_proto does not raise on a stored study_spec')
    ep = None
    if it.run.choose(z3.Bool('has_pythia_endpoint!%d' % it.run.cursor)):
        ep = it.run.fresh('pythia_endpoint', Str)
    return Obj('opaque:StudyConfig', {'pythia_endpoint': ep})


def _opaque_ctor(tag):
    def ctor(it, args, kw):
        return Obj('opaque:' + tag, dict(kw))
    return ctor


E.MODELS['vizier._src.pyvizier.pythia.study:StudyDescriptor'] = _opaque_ctor('StudyDescriptor')
E.MODELS['vizier._src.pythia.policy:SuggestRequest'] = _opaque_ctor('SuggestRequest')
E.MODELS['vizier._src.pythia.policy:EarlyStopRequest'] = _opaque_ctor('EarlyStopRequest')


@model(CONV + ':SuggestConverter.to_request_proto')
def _to_request_proto(it, args, kw):
    req = args[-1]
    m = S.symbolic_msg('vizier.SuggestRequest', 'suggest_request_proto!%d' % it.run.fresh_n)
    m.set('count', req.attrs['count'])
    return m


@model('vizier._src.service.stubs_util:create_pythia_server_stub')
def _stub(it, args, kw):
    return S.PythiaRef('remote')


def pythia_call(kind):
    def call(it, args, kw):
        run = it.run
        run.event('pythia', kind)
        if run.choose(z3.Bool('pythia_raises!%d' % run.cursor)):
            run.pythia_raised = True
            raise PyRaise(ExcObj(E.AnyExc('pythia'), {'args': ()}))
        fq = 'vizier.SuggestDecision' if kind == 'Suggest' else 'vizier.EarlyStopDecisions'
        return S.symbolic_msg(fq, 'pythia_%s_result' % kind)
    return call


_prev = M.value_getattr_hook


def _hook(it, v, a):
    if isinstance(v, S.PythiaRef):
        if a in ('Suggest', 'EarlyStop'):
            return Builtin('pythia.' + a, pythia_call(a))
        raise Unsupported('pythia method %s' % a)
    return _prev(it, v, a)


M.value_getattr_hook = _hook

sugg_of = z3.Function('suggestions_of', pm.msg_sort(S.schema('vizier.SuggestDecision')), z3.ArraySort(z3.IntSort(), pm.PyObj))
md_study_of = z3.Function('md_on_study_of', pm.PyObj, z3.ArraySort(z3.IntSort(), pm.msg_sort(KV())))
md_study_n = z3.Function('md_on_study_n', pm.PyObj, z3.IntSort())
md_trials_of = z3.Function('md_on_trials_of', pm.PyObj, z3.ArraySort(z3.IntSort(), pm.msg_sort(UMU())))
md_trials_n = z3.Function('md_on_trials_n', pm.PyObj, z3.IntSort())
decision_md = z3.Function('decision_metadata', pm.msg_sort(S.schema('vizier.SuggestDecision')), pm.PyObj)
to_trial_proto = z3.Function('suggestion_to_trial_proto', pm.PyObj, pm.msg_sort(T()))


@model(CONV + ':SuggestConverter.from_decision_proto')
def _from_decision_proto(it, args, kw):
    proto = args[-1]
    it.run.assumed.add('SuggestConverter.from_decision_proto does not raise on the decision returned by Pythia')
    t = proto.pack()
    n = proto.get('suggestions').n
    sugg = SymList(n, sugg_of(t), 'pyobj')
    md = M.OpaqueObj(decision_md(t))
    it.run.S = sugg
    return Obj('opaque:SuggestDecision', {'suggestions': sugg, 'metadata': md})


@model(MDU + ':make_key_value_list')
def _make_kv(it, args, kw):
    o = args[0]
    n = md_study_n(o.term)
    it.run.assume(n >= 0)
    return SymList(n, md_study_of(o.term), KV())


@model(MDU + ':trial_metadata_to_update_list')
def _make_umu(it, args, kw):
    o = args[0]
    n = md_trials_n(o.term)
    it.run.assume(n >= 0)
    return SymList(n, md_trials_of(o.term), UMU())


@model(CONV + ':TrialConverter.to_protos')
def _to_protos(it, args, kw):
    xs = args[-1]
    if not isinstance(xs, SymList):
        raise Unsupported('TrialConverter.to_protos of a non-symbolic list')
    run = it.run
    arr = run.fresh('new_trials', z3.ArraySort(z3.IntSort(), pm.msg_sort(T())))
    j = z3.Int('j!tp')
    run.axiom(z3.ForAll([j], z3.Implies(z3.And(j >= 0, j < xs.n), arr[j] == to_trial_proto(xs.arr[j]))))
    r = SymList(xs.n, arr, T())
    run.NT = M.snapshot(r)
    return r


# ------------------------------------------------------------------------------------------ spec helpers
def upd_assigned(t, client, start):
    """pool trial handed out: ACTIVE, client_id, start_time := now ; nothing else."""
    return with_fields(T(), t, {'state': z3.IntVal(ACTIVE), 'client_id': client, 'start_time': start, 'has__start_time': z3.BoolVal(True)})


def with_fields(sch, term, repl):
    layout = pm.msg_layout(sch)
    args = [repl[zn] if zn in repl else pm.accessor(sch, zn)(term) for zn, _, _, _ in layout]
    return pm._MK[sch.fq](*args)


def tkey(t):
    return parse(acc(T(), 'name')(t))


def request_terms(fr_or_req):
    req = fr_or_req
    return E.to_z3(req.get('client_id')), E.to_z3(req.get('suggestion_count')), parse(E.to_z3(req.get('parent')))


# ------------------------------------------------------------------------------------------ loop contracts
def _inv_pool(it, fr, ctx):
    """while requested_trials and request.suggestion_count > len(output_trials)   (Appendix C, pool loop)"""
    run = it.run
    req = fr.env['request']
    client, count, sk = request_terms(req)
    out, reqs = fr.env['output_trials'], fr.env['requested_trials']
    start = fr.env['start_time'].pack()
    if ctx.phase == 'init':
        run.sg = {'A': ctx.entry_vals['output_trials'], 'P': ctx.entry_vals['requested_trials'],
                  'Dpool0': dict(run.ghost), 'start': start, 'L': ctx.entry_vals['all_trials']}
    A, P, Dp = run.sg['A'], run.sg['P'], run.sg['Dpool0']
    j = z3.Int('j!ip')
    k = z3.Const('k!ip', Name)
    Dt = run.ghost['D.trial']
    inv = []
    inv.append(('sizes', z3.And(reqs.n >= 0, reqs.n <= P.n, out.n == A.n + (P.n - reqs.n), out.n <= count, A.n < count)))
    inv.append(('pool_array_unchanged', reqs.arr == P.arr))
    inv.append(('output_prefix_own', z3.ForAll([j], z3.Implies(z3.And(j >= 0, j < A.n), out.arr[j] == A.arr[j]))))
    inv.append(('output_assigned', z3.ForAll([j], z3.Implies(z3.And(j >= A.n, j < out.n),
                                                              out.arr[j] == upd_assigned(P.arr[P.n - 1 - (j - A.n)], client, start)))))
    inv.append(('stored_assigned', z3.ForAll([j], z3.Implies(z3.And(j >= reqs.n, j < P.n),
                                                             Dt[tkey(P.arr[j])] == some(T(), upd_assigned(P.arr[j], client, start))))))
    inv.append(('others_untouched', z3.ForAll([k], z3.Implies(
        z3.ForAll([j], z3.Implies(z3.And(j >= reqs.n, j < P.n), k != tkey(P.arr[j]))), Dt[k] == Dp['D.trial'][k]))))
    inv.append(('other_maps', z3.And(run.ghost['D.study'] == Dp['D.study'], run.ghost['D.sop'] == Dp['D.sop'],
                                     run.ghost['D.eop'] == Dp['D.eop'])))
    return inv


E.LOOPS[(SVC, 'VizierServicer.SuggestTrials', 1)] = E.LoopSpec(_inv_pool, ghost=('D.trial',))


def _inv_create(it, fr, ctx):
    """while request.suggestion_count > len(output_trials): pop a new trial, give it id max+1, create it."""
    run = it.run
    req = fr.env['request']
    client, count, sk = request_terms(req)
    out, new = fr.env['output_trials'], fr.env['new_trials']
    if ctx.phase == 'init':
        run.sg.update({'NT': ctx.entry_vals['new_trials'], 'out2': ctx.entry_vals['output_trials'], 'Dcreate0': dict(run.ghost)})
        run.sg['m0'] = S.max_id_of(it, sk)
    NT, out2, Dc = run.sg['NT'], run.sg['out2'], run.sg['Dcreate0']
    start = run.sg['start']
    m0 = run.sg['m0']
    j = z3.Int('j!ic')
    k = z3.Const('k!ic', Name)
    Dt = run.ghost['D.trial']
    c2 = NT.n - new.n
    nk = lambda jj: Name.trial(Name.o1(sk), Name.s1(sk), m0 + (NT.n - jj))
    created = lambda jj: with_fields(T(), NT.arr[jj], {
        'id': M.int2str(m0 + (NT.n - jj)), 'name': mkname(nk(jj)), 'state': z3.IntVal(ACTIVE),
        'start_time': start, 'has__start_time': z3.BoolVal(True), 'client_id': client})
    inv = []
    inv.append(('sizes', z3.And(new.n >= 0, new.n <= NT.n, out.n == out2.n + c2, out.n <= count)))
    inv.append(('new_array_unchanged', new.arr == NT.arr))
    inv.append(('output_prefix', z3.ForAll([j], z3.Implies(z3.And(j >= 0, j < out2.n), out.arr[j] == out2.arr[j]))))
    inv.append(('output_created', z3.ForAll([j], z3.Implies(z3.And(j >= out2.n, j < out.n),
                                                             out.arr[j] == created(NT.n - 1 - (j - out2.n))))))
    inv.append(('stored_created', z3.ForAll([j], z3.Implies(z3.And(j >= new.n, j < NT.n), Dt[nk(j)] == some(T(), created(j))))))
    inv.append(('others_untouched', z3.ForAll([k], z3.Implies(
        z3.Not(z3.And(Name.is_trial(k), S.study_of_trial(k) == sk, Name.t2(k) > m0, Name.t2(k) <= m0 + c2)), Dt[k] == Dc['D.trial'][k]))))
    inv.append(('other_maps', z3.And(run.ghost['D.study'] == Dc['D.study'], run.ghost['D.sop'] == Dc['D.sop'],
                                     run.ghost['D.eop'] == Dc['D.eop'])))
    return inv


E.LOOPS[(SVC, 'VizierServicer.SuggestTrials', 2)] = E.LoopSpec(_inv_create, ghost=('D.trial', 'D.seq', 'D.next'))


def _inv_surplus(it, fr, ctx):
    """for remain_trial in new_trials: stored REQUESTED with the next ids."""
    run = it.run
    req = fr.env['request']
    client, count, sk = request_terms(req)
    new = ctx.iter
    if ctx.phase == 'init':
        run.sg.update({'Dsur0': dict(run.ghost), 'R': M.snapshot(new)})
    Ds = run.sg['Dsur0']
    NT = run.sg['NT']
    m0 = run.sg['m0']
    c2 = NT.n - new.n          # trials created for the caller
    i = ctx.i
    j = z3.Int('j!is')
    k = z3.Const('k!is', Name)
    Dt = run.ghost['D.trial']
    nk = lambda jj: Name.trial(Name.o1(sk), Name.s1(sk), m0 + c2 + 1 + jj)
    queued = lambda jj: with_fields(T(), new.arr[jj], {
        'id': M.int2str(m0 + c2 + 1 + jj), 'name': mkname(nk(jj)), 'state': z3.IntVal(REQUESTED)})
    inv = []
    inv.append(('stored_queued', z3.ForAll([j], z3.Implies(z3.And(j >= 0, j < i), Dt[nk(j)] == some(T(), queued(j))))))
    inv.append(('others_untouched', z3.ForAll([k], z3.Implies(
        z3.Not(z3.And(Name.is_trial(k), S.study_of_trial(k) == sk, Name.t2(k) > m0 + c2, Name.t2(k) <= m0 + c2 + i)), Dt[k] == Ds['D.trial'][k]))))
    inv.append(('other_maps', z3.And(run.ghost['D.study'] == Ds['D.study'], run.ghost['D.sop'] == Ds['D.sop'],
                                     run.ghost['D.eop'] == Ds['D.eop'])))
    return inv


E.LOOPS[(SVC, 'VizierServicer.SuggestTrials', 3)] = E.LoopSpec(_inv_surplus, ghost=('D.trial', 'D.seq', 'D.next'))


# ------------------------------------------------------------------------------------------ entry
def entry(it):
    S.init_view(it.run)
    svc = S.make_servicer(it)
    req = S.symbolic_msg('vizier.SuggestTrialsRequest', 'req')
    it.run.req = req
    # N >= 1 (property quantifier: all counts N >= 1)
    it.run.assume(E.to_z3(req.get('suggestion_count')) >= 1)
    cls = ModuleInfo.get(SVC).classes['VizierServicer']
    return it.invoke(E.FuncVal(cls.mod, cls.methods['SuggestTrials'], cls), [svc, req, None], {})


# ------------------------------------------------------------------------------------------ postconditions
RESP = lambda: S.schema('vizier.SuggestTrialsResponse')


def response_list(p):
    """(n, arr) of the trials inside the returned operation's response (deser(ser(x)) == x is in the path condition)."""
    op = p.value
    _, d = M.ser_fn(RESP())
    val_bytes = E.to_z3(op.get('response').get('value'))
    resp = d(val_bytes)
    return acc(RESP(), 'trials__len')(resp), acc(RESP(), 'trials__arr')(resp)


def no_orphan(D):
    k = z3.Const('k!no', Name)
    return z3.ForAll([k], z3.Implies(is_some(OP(), D['D.sop'][k]), acc(OP(), 'done')(val(OP(), D['D.sop'][k]))))


def lifecycle_suggest(D0, D1, j, client):
    """relational lifecycle facts at an arbitrary key j for SuggestTrials: the only legal change of an existing
    trial is REQUESTED -> ACTIVE (handed to `client`) or a metadata update."""
    t = T()
    o0, o1 = D0['D.trial'][j], D1['D.trial'][j]
    a, b = val(t, o0), val(t, o1)
    s0, s1 = acc(t, 'state')(a), acc(t, 'state')(b)
    both = z3.And(is_some(t, o0), is_some(t, o1))
    params = z3.And(acc(t, 'parameters__len')(a) == acc(t, 'parameters__len')(b), acc(t, 'parameters__arr')(a) == acc(t, 'parameters__arr')(b))
    return {
        'legal_transition': z3.Implies(both, z3.Or(s1 == s0, z3.And(s0 == REQUESTED, s1 == ACTIVE))),
        'parameters_unchanged': z3.Implies(both, params),
        'completed_immutable': z3.Implies(z3.And(both, z3.Or(s0 == SUCCEEDED, s0 == INFEASIBLE)), S.same_except_metadata_trial(a, b)),
        'no_trial_disappears': z3.Implies(is_some(t, o0), is_some(t, o1)),
    }


def post(p):
    run = p.run
    D0, D1 = run.D0, run.ghost
    req = run.req
    client, count, sk = request_terms(req)
    t = T()
    obs = []
    kind = p.kind
    cls = E.class_name(p.value.cls) if kind == 'raise' else None
    code = p.value.attrs.get('_code') if kind == 'raise' and cls == 'LocalRpcError' else None
    evs = [e for e in run.events if e[0] in ('ds', 'pythia')]
    created_op = [e for e in evs if e[1] == 'create_suggestion_operation']
    pythia_called = any(e[0] == 'pythia' for e in evs)
    j = z3.Const('j!any', Name)
    i = z3.Int('i!p')
    study_o = D0['D.study'][sk]
    present = z3.And(Name.is_study(sk), is_some(ST(), study_o))
    sst = acc(ST(), 'state')(val(ST(), study_o))
    mutable = z3.Or(sst == 0, sst == 1)

    # ---- C01: lifecycle relations, frame, invariant, error behaviour
    for nm, f in lifecycle_suggest(D0, D1, j, client).items():
        obs.append(('C01.SuggestTrials.' + nm, f))
    from contracts import c01
    obs.append(('C01.SuggestTrials.inv_preserved', c01.inv_preserved(p, j)))
    obs.append(('C01.SuggestTrials.frame', z3.And(D1['D.eop'] == D0['D.eop'],
                z3.ForAll([j], z3.Implies(j != sk, D1['D.study'][j] == D0['D.study'][j])),
                z3.ForAll([j], z3.Implies(z3.Not(z3.And(Name.is_trial(j), S.study_of_trial(j) == sk)), D1['D.trial'][j] == D0['D.trial'][j])),
                z3.ForAll([j], z3.Implies(z3.Not(z3.And(Name.is_sop(j), Name.study(Name.o3(j), Name.s3(j)) == sk, Name.c3(j) == client)),
                                          D1['D.sop'][j] == D0['D.sop'][j])))))
    if kind == 'raise' and not created_op:
        obs.append(('C01.SuggestTrials.error_leaves_data_unchanged', c01.unchanged(D0, D1)))
        if cls == 'NotFoundError':
            obs.append(('C01.SuggestTrials.error_class', z3.Not(present)))
        elif cls == 'LocalRpcError' and code == c01.FP:
            obs.append(('C01.SuggestTrials.error_class', z3.And(present, z3.Not(mutable))))
        elif cls == 'ValueError':
            obs.append(('C01.SuggestTrials.error_class', z3.Or(z3.Not(Name.is_study(sk)), z3.Not(S.valid_comp(client)))))
        else:
            obs.append(('C01.SuggestTrials.error_class', z3.BoolVal(False)))
    if kind == 'return':
        obs.append(('C01.SuggestTrials.missing', present))
        obs.append(('C01.SuggestTrials.immutable_study', mutable))

    # ---- C06: no operation left not-done on any exit (inductive: NoOrphan(D0) => NoOrphan(D1))
    hyp = no_orphan(D0)
    obs.append(('C06.SuggestTrials.no_orphan_op', z3.Implies(hyp, no_orphan(D1))))
    if kind == 'return':
        op = p.value.pack()
        done = acc(OP(), 'done')(op)
        obs.append(('C06.SuggestTrials.returns_finished_operation', z3.Implies(hyp, done)))
        if getattr(run, 'pythia_raised', False):
            # Pythia raised and we still return: the operation must carry the error
            obs.append(('C06.SuggestTrials.reported', z3.And(done, acc(OP(), 'case__result')(op) == OP().fields['error'].number)))
        if created_op:
            opkey = created_op[0][4]
            obs.append(('C06.SuggestTrials.returned_op_is_stored', D1['D.sop'][opkey] == some(OP(), op)))
    if kind == 'raise' and created_op:
        # an exception escaping after the operation record was created: allowed only as an error status
        # that does not leave the record unfinished (checked by no_orphan_op above)
        obs.append(('C06.SuggestTrials.reported', z3.BoolVal(True)))

    # ---- C02
    filters = getattr(run, 'filters', [])
    L = None
    for e in evs:
        pass
    if kind == 'return' and created_op:
        opkey = created_op[0][4]
        op = p.value.pack()
        has_err = acc(OP(), 'case__result')(op) == OP().fields['error'].number
        # op number = max + 1
        num = z3.Int('num!p')
        obs.append(('C02.SuggestTrials.op_number', z3.And(
            Name.is_sop(opkey), Name.c3(opkey) == client, Name.study(Name.o3(opkey), Name.s3(opkey)) == sk,
            z3.Not(is_some(OP(), D0['D.sop'][opkey])),
            z3.ForAll([num], z3.Implies(is_some(OP(), D0['D.sop'][S.sop_of(sk, client, num)]), num < Name.n3(opkey))),
            z3.Or(Name.n3(opkey) == 1, is_some(OP(), D0['D.sop'][S.sop_of(sk, client, Name.n3(opkey) - 1)])))))
        if len(filters) >= 1 and not E.z3.is_true(z3.simplify(has_err)) and not getattr(run, 'pythia_raised', False) and not _md_failed(run, evs):
            A = filters[0]
            Rn, Ra = response_list(p)
            own = lambda k: z3.And(Name.is_trial(k), S.study_of_trial(k) == sk, is_some(t, D0['D.trial'][k]),
                                   acc(t, 'state')(val(t, D0['D.trial'][k])) == ACTIVE,
                                   acc(t, 'client_id')(val(t, D0['D.trial'][k])) == client)
            k = z3.Const('k!p', Name)
            i2 = z3.Int('i2!p')
            # the code's "own" list is the specification's: exactly the ACTIVE trials of this client, creation order
            obs.append(('C02.SuggestTrials.own_list_spec', z3.And(
                z3.ForAll([i], z3.Implies(z3.And(i >= 0, i < A.n), z3.And(own(tkey(A.arr[i])), D0['D.trial'][tkey(A.arr[i])] == some(t, A.arr[i])))),
                z3.ForAll([k], z3.Implies(own(k), z3.Exists([i], z3.And(i >= 0, i < A.n, tkey(A.arr[i]) == k)))),
                z3.ForAll([i, i2], z3.Implies(z3.And(i >= 0, i < i2, i2 < A.n), D0['D.seq'][tkey(A.arr[i])] < D0['D.seq'][tkey(A.arr[i2])])))))
            obs.append(('C02.SuggestTrials.count', z3.Implies(z3.Not(has_err), z3.And(Rn <= count, z3.Or(Rn == count, z3.BoolVal(pythia_called))))))
            obs.append(('C02.SuggestTrials.mine', z3.Implies(z3.Not(has_err), z3.ForAll([i], z3.Implies(z3.And(i >= 0, i < Rn), z3.And(
                acc(t, 'state')(Ra[i]) == ACTIVE, acc(t, 'client_id')(Ra[i]) == client,
                is_some(t, D1['D.trial'][tkey(Ra[i])]), S.same_except_metadata_trial(val(t, D1['D.trial'][tkey(Ra[i])]), Ra[i])))))))
            obs.append(('C02.SuggestTrials.sticky', z3.Implies(z3.And(z3.Not(has_err), A.n >= count), z3.And(
                D1['D.trial'] == D0['D.trial'], Rn == count, z3.ForAll([i], z3.Implies(z3.And(i >= 0, i < count), Ra[i] == A.arr[i]))))))
            obs.append(('C02.SuggestTrials.own_first', z3.Implies(z3.And(z3.Not(has_err), A.n < count), z3.And(
                Rn >= A.n, z3.ForAll([i], z3.Implies(z3.And(i >= 0, i < A.n), Ra[i] == A.arr[i]))))))
            obs.append(('C02.SuggestTrials.no_double_assign', z3.Implies(z3.Not(has_err), z3.ForAll([k], z3.Implies(
                z3.And(is_some(t, D0['D.trial'][k]), acc(t, 'state')(val(t, D0['D.trial'][k])) == ACTIVE,
                       acc(t, 'client_id')(val(t, D0['D.trial'][k])) != client),
                z3.And(is_some(t, D1['D.trial'][k]), S.same_except_metadata_trial(val(t, D1['D.trial'][k]), val(t, D0['D.trial'][k])),
                       z3.ForAll([i], z3.Implies(z3.And(i >= 0, i < Rn), tkey(Ra[i]) != k))))))))
            k2 = z3.Const('k2!p', Name)
            obs.append(('C02.SuggestTrials.fresh_ids', z3.ForAll([k, k2], z3.Implies(
                z3.And(is_some(t, D1['D.trial'][k]), z3.Not(is_some(t, D0['D.trial'][k])),
                       Name.is_trial(k2), S.study_of_trial(k2) == sk, is_some(t, D0['D.trial'][k2])),
                z3.And(Name.is_trial(k), S.study_of_trial(k) == sk, Name.t2(k) > Name.t2(k2))))))
            if pythia_called and 'NT' in getattr(run, 'sg', {}):
                NT = run.sg['NT']
                obs.append(('C02.SuggestTrials.surplus_queued', z3.Implies(z3.Not(has_err), z3.ForAll([i], z3.Implies(
                    z3.And(i >= 0, i < NT.n), z3.Exists([k], z3.And(
                        z3.Not(is_some(t, D0['D.trial'][k])), is_some(t, D1['D.trial'][k]),
                        acc(t, 'parameters__arr')(val(t, D1['D.trial'][k])) == acc(t, 'parameters__arr')(NT.arr[i]),
                        acc(t, 'parameters__len')(val(t, D1['D.trial'][k])) == acc(t, 'parameters__len')(NT.arr[i]),
                        z3.Or(z3.And(acc(t, 'state')(val(t, D1['D.trial'][k])) == ACTIVE, acc(t, 'client_id')(val(t, D1['D.trial'][k])) == client),
                              acc(t, 'state')(val(t, D1['D.trial'][k])) == REQUESTED))))))))
    return obs


def _md_failed(run, evs):
    names = [e[1] for e in evs]
    return 'update_metadata' in names and not hasattr(run, 'md_update')
