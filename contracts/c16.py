"""C16 -- search-space definitions are validated and membership is decided correctly.

Functions under contract (real ASTs from $VERIF_REPO, executed by the pyvc engine): ParameterType.assert_correct_type,
ParameterValue.as_*/cast_as_internal, ParameterConfig.{contains,_assert_feasible,_assert_bounds,
_assert_in_feasible_values,bounds,factory,_add_children,subspace}, _validate_bounds, _get_feasible_points_and_bounds,
_get_categories, _get_default_value, SearchSpace.{add,contains,assert_contains}, SearchSpaceSelector.add_{float,int,
discrete,categorical,bool}_param / _get_parameter_names_to_create / _add_parameters, clients.Study.add_trial.

Oracles are written from the property statement, not from the code (see `member`, `compatible`, `valid_*`).

READING OF THE PROPERTY (stated, used by the oracle):
 * "type-compatible value": for the numeric parameter types (DOUBLE, INTEGER, DISCRETE) a Python *number* -- int,
   float, and bool, which Python (and the documented `ParameterValue` behaviour: "guarantees that self.value ==
   self.as_bool") treats as the numbers 0/1 -- never a str (so '1', '1.0', 'True' are not members of a numeric
   parameter: "bools vs 'True'/'False'"); NaN is no value of any domain.  For CATEGORICAL a str, or a bool standing for
   its documented string form 'True'/'False' (boolean parameters are categorical parameters over those two strings).
 * "inside its domain": DOUBLE lo <= v <= hi; INTEGER v integral ("ints given as floats" are members: 3.0 in [1,5])
   and lo <= v <= hi; DISCRETE/CATEGORICAL v equal to one of the feasible values.
 * a membership question is *answered* (True/False), never raised -- except that conditional spaces are refused.
 * "neither bounds nor feasible values" is not in the property's list of invalid definitions: it yields the
   documented CUSTOM parameter type and is accepted; a default value outside the bounds is not a C16 matter either
   (default-in-domain belongs to C03; DESIGN 10 row 18 is reproduced by the replay driver for the record only).
 * "rejected when built" = the builder raises (any exception class) and the search space is unchanged.
"""
import json
import os
import subprocess
import sys
import time

import z3

from pyvc import engine as E, models as M, protomodel as pm, report, verify, xreal, source
from pyvc import attrs_model as A
from pyvc.engine import Obj, ExcObj, FuncVal, Bound, Builtin, Unsupported, PyRaise, EXTERNAL
from pyvc.protomodel import SymList, Str
from pyvc.source import ModuleInfo

PCM = 'vizier._src.pyvizier.shared.parameter_config'
TRM = 'vizier._src.pyvizier.shared.trial'
CLI = 'vizier._src.service.clients'
ITM = 'vizier._src.pyvizier.shared.parameter_iterators'

TAGS = ('bool', 'int', 'float', 'str')
NUMERIC_TYPES = ('DOUBLE', 'INTEGER', 'DISCRETE')
TYPES = ('DOUBLE', 'INTEGER', 'DISCRETE', 'CATEGORICAL')
TWO53 = 2 ** 53

ASSUMPTIONS = [
    'floats are extended reals fin(r)|+inf|-inf|nan: comparisons, ==, int(), float(int) are exact; inputs range over all reals, not only doubles (XReal, DESIGN 2.2)',
    'Python ints in values, bounds and feasible values satisfy |i| <= 2^53 (the wire format is a double; float(i) is then exact)',
    'numeric feasible values are modelled by their numeric value (Python compares 1, 1.0 and True as equal in `in`, set() and sorted())',
    'strings are an uninterpreted sort with equality and a strict total order (str_lt) for sorting',
    'logging has no effect; the text of exception messages is not part of any obligation',
    'machine arithmetic in math.isclose is treated as mathematical',
]


# =========================================================================================== array-list library models
# Models of Python builtins on array-lists (len, arr) of symbolic length.  They state language semantics:
#   len(set(xs)) == len(xs)  <=>  the elements are pairwise distinct (==);   sorted(xs) is an ascending permutation;
#   all([...]) / any([...]) of a list comprehension is the quantifier over its source.
class SymSet:
    def __init__(self, src):
        self.src = src
        self.size = None


class OpaqueBag:
    """result of set()/Counter() that is only used to build an error message."""

    def __init__(self, what):
        self.what = what


def elem_eq(a, b):
    if a.sort() == xreal.XReal:
        return xreal.eq(a, b)
    return a == b


def elem_lt(it, a, b):
    return E.zbool(M.num_lt(it, a, b))


def distinct_formula(xs):
    i, j = z3.Int('i!ds'), z3.Int('j!ds')
    return z3.ForAll([i, j], z3.Implies(z3.And(i >= 0, i < j, j < xs.n), z3.Not(elem_eq(xs.arr[i], xs.arr[j]))))


def str_order_axioms(run):
    if getattr(run, '_str_order', False):
        return
    run._str_order = True
    a, b, c = z3.Consts('a!so b!so c!so', Str)
    lt = M.str_lt
    run.axiom(z3.ForAll([a], z3.Not(lt(a, a))))
    run.axiom(z3.ForAll([a, b, c], z3.Implies(z3.And(lt(a, b), lt(b, c)), lt(a, c))))
    run.axiom(z3.ForAll([a, b], z3.Or(lt(a, b), a == b, lt(b, a))))


_prev_set = M.BUILTINS['set'].fn


def _b_set(it, args, kw):
    if args:
        v = args[0]
        if isinstance(v, SymList) and M.try_iterate(it, v) is None:
            return SymSet(M.snapshot(v))
        if isinstance(v, M.LazyGen):
            return OpaqueBag('set')
        if isinstance(v, (SymMap,)):
            return OpaqueBag('set')
        if isinstance(v, Obj) and isinstance(getattr(v, 'attrs', {}).get('_items'), SymMap):
            return OpaqueBag('set')
    return _prev_set(it, args, kw)


M.BUILTINS['set'] = Builtin('set', _b_set)
M.BUILTINS['frozenset'] = Builtin('frozenset', _b_set)


def _len_hook(it, v, _prev=M.len_hook):
    if isinstance(v, SymSet):
        if v.size is None:
            run = it.run
            m = run.fresh('setlen', z3.IntSort())
            xs = v.src
            run.assume(m >= 0)
            run.assume(m <= xs.n)
            run.assume(z3.Implies(xs.n > 0, m >= 1))
            run.axiom((m == xs.n) == distinct_formula(xs))
            # explicit witness of a duplicate (keeps the path solver quantifier-free)
            d1, d2 = run.fresh('dup_i', z3.IntSort()), run.fresh('dup_j', z3.IntSort())
            run.assume(z3.Implies(m != xs.n, z3.And(d1 >= 0, d1 < d2, d2 < xs.n, elem_eq(xs.arr[d1], xs.arr[d2]))))
            v.size = m
        return v.size
    if isinstance(v, SymMap):
        return v.n
    return _prev(it, v)


M.len_hook = _len_hook


def _sorted_symlist(it, xs, reverse=False):
    run = it.run
    n = xs.n
    arr = run.fresh('sorted', xs.arr.sort())
    perm = run.fresh('perm', z3.ArraySort(z3.IntSort(), z3.IntSort()))
    inv = run.fresh('inv', z3.ArraySort(z3.IntSort(), z3.IntSort()))
    r = SymList(n, arr, xs.elem)
    if xs.elem_sort() == Str:
        str_order_axioms(run)
    i, j = z3.Int('i!st'), z3.Int('j!st')
    inr = lambda k: z3.And(k >= 0, k < n)
    run.axiom(z3.ForAll([i], z3.Implies(inr(i), z3.And(inr(perm[i]), arr[i] == xs.arr[perm[i]], inv[perm[i]] == i))))
    run.axiom(z3.ForAll([i], z3.Implies(inr(i), z3.And(inr(inv[i]), perm[inv[i]] == i))))
    le = (lambda a, b: z3.Not(elem_lt(it, b, a))) if not reverse else (lambda a, b: z3.Not(elem_lt(it, a, b)))
    run.axiom(z3.ForAll([i, j], z3.Implies(z3.And(i >= 0, i < j, j < n), le(arr[i], arr[j]))))
    r.sorted_of, r.perm, r.inv = M.snapshot(xs), perm, inv
    run.__dict__.setdefault('sorted_log', []).append(M.snapshot(r))
    run.sorted_log[-1].sorted_of, run.sorted_log[-1].perm, run.sorted_log[-1].inv = r.sorted_of, perm, inv
    return r


def sorted_lemmas(run, name):
    """cut lemmas (proved from the library model of sorted(), then used as hypotheses): every element of the source
    occurs in the sorted list and vice versa, with the ghost permutation as witness."""
    out = []
    i = z3.Int('i!sl')
    for r in getattr(run, 'sorted_log', []):
        src = r.sorted_of
        inr = z3.And(i >= 0, i < src.n)
        k = z3.Int('k!sl')
        out.append((name, z3.And(
            z3.ForAll([i], z3.Implies(inr, z3.And(r.inv[i] >= 0, r.inv[i] < src.n, r.arr[r.inv[i]] == src.arr[i]))),
            z3.ForAll([i], z3.Implies(inr, z3.And(r.perm[i] >= 0, r.perm[i] < src.n, r.arr[i] == src.arr[r.perm[i]]))),
            z3.ForAll([i, k], z3.Implies(z3.And(inr, k >= 0, k < src.n, i != k), z3.And(r.inv[i] != r.inv[k], r.perm[i] != r.perm[k])))), 'lemma'))
    return out


def find_sorted(run, lst, src=None):
    """the ghost permutation of the sorted() call that produced `lst` (proof hint: `obtain perm, inv`), chained back
    to `src` through nested sorted() calls; returns (perm_fn, inv_fn) mapping positions of lst <-> positions of src."""
    chain = []
    cur = lst
    for _ in range(4):
        hit = None
        for r in getattr(run, 'sorted_log', []):
            if z3.eq(r.arr, cur.arr):
                hit = r
        if hit is None:
            break
        chain.append(hit)
        cur = hit.sorted_of
        if src is not None and z3.eq(cur.arr, src.arr):
            break
    if not chain or (src is not None and not z3.eq(cur.arr, src.arr)):
        return None

    def perm_fn(k):
        for h in chain:
            k = h.perm[k]
        return k

    def inv_fn(k):
        for h in reversed(chain):
            k = h.inv[k]
        return k
    return perm_fn, inv_fn


_prev_sorted = M.BUILTINS['sorted'].fn


def _b_sorted(it, args, kw):
    v = args[0]
    if isinstance(v, SymList) and M.try_iterate(it, v) is None:
        if kw.get('key') is not None:
            raise Unsupported('sorted(key=...) over an array-list')
        rev = kw.get('reverse', False)
        if not isinstance(rev, bool):
            raise Unsupported('sorted(reverse=<symbolic>)')
        return _sorted_symlist(it, v, rev)
    return _prev_sorted(it, args, kw)


M.BUILTINS['sorted'] = Builtin('sorted', _b_sorted)


def _quant_over(it, v, universal):
    """all(v)/any(v) for an array-list v of booleans of symbolic length."""
    j = z3.Int('j!qa')
    if getattr(v, 'parent', None) is not None and getattr(v, 'cond_at', None) is not None:
        src = v.parent
        body = lambda k: (z3.Implies(v.cond_at(k), _tt(it, v.elt_at(k))) if universal else z3.And(v.cond_at(k), _tt(it, v.elt_at(k))))
        rng = z3.And(j >= 0, j < src.n)
    else:
        body = lambda k: _tt(it, v.arr[k])
        rng = z3.And(j >= 0, j < v.n)
    if universal:
        return z3.ForAll([j], z3.Implies(rng, body(j)))
    return z3.Exists([j], z3.And(rng, body(j)))


def _tt(it, t):
    r = it.truth_term(t)
    return E.zbool(r)


_prev_all, _prev_any = M.BUILTINS['all'].fn, M.BUILTINS['any'].fn


def _lazy_quant(it, gen, universal):
    """all(<genexpr>) / any(<genexpr>) over an array-list, evaluated lazily as CPython does: the elements are visited in
    order until the verdict is known; an element whose evaluation raises (round(nan), round(inf)) raises iff every
    earlier element left the verdict open.  Without possibly-raising operations this is the plain quantifier."""
    old = getattr(it, '_pure_undefined', None)
    it._pure_undefined = sink = []
    try:
        J, c, b = gen._body(it)
    finally:
        it._pure_undefined = old
    xs, run = gen.xs, it.run
    c, b = E.zbool(c), E.zbool(b)
    rng = lambda k: z3.And(k >= 0, k < xs.n)
    if not sink:
        if universal:
            return z3.ForAll([J], z3.Implies(z3.And(rng(J), c), b))
        return z3.Exists([J], z3.And(rng(J), c, b))
    if gen.e.generators[0].ifs:
        raise Unsupported('possibly raising element expression in a filtered generator over an array-list')
    at = lambda t, k: z3.substitute(t, (J, k))
    bad_at = lambda k: z3.Or(*[at(cond, k) for cond, _ in sink])
    open_at = lambda k: z3.And(z3.Not(bad_at(k)), at(b, k) if universal else z3.Not(at(b, k)))   # defined and verdict still open
    w = run.fresh('undef_at', z3.IntSort())
    j = z3.Int('j!lq')
    if run.choose(z3.And(rng(w), bad_at(w))):
        # candidate: the first undefined element; it raises iff all earlier elements left the verdict open
        run.axiom(z3.ForAll([j], z3.Implies(z3.And(j >= 0, j < w), z3.Not(bad_at(j)))))
        before_open = z3.ForAll([j], z3.Implies(z3.And(j >= 0, j < w), open_at(j)))
        wit = run.fresh('closed_at', z3.IntSort())
        if run.choose(z3.And(wit >= 0, wit < w, z3.Not(open_at(wit)))):
            return not universal        # an earlier element decided the verdict (False for all, True for any)
        run.axiom(before_open)
        if run.choose(at(sink[0][1], w) == 0):
            raise PyRaise(it.make_exc('ValueError', ['cannot convert float NaN to integer']))
        raise PyRaise(it.make_exc('OverflowError', ['cannot convert float infinity to integer']))
    run.axiom(z3.ForAll([j], z3.Implies(rng(j), z3.Not(bad_at(j)))))
    if universal:
        return z3.ForAll([J], z3.Implies(rng(J), b))
    return z3.Exists([J], z3.And(rng(J), b))


def _b_all(it, args, kw):
    v = args[0]
    if isinstance(v, SymList) and M.try_iterate(it, v) is None:
        return _quant_over(it, v, True)
    if isinstance(v, M.LazyGen):
        return _lazy_quant(it, v, True)
    return _prev_all(it, args, kw)


def _b_any(it, args, kw):
    v = args[0]
    if isinstance(v, SymList) and M.try_iterate(it, v) is None:
        return _quant_over(it, v, False)
    if isinstance(v, M.LazyGen):
        return _lazy_quant(it, v, False)
    return _prev_any(it, args, kw)


M.BUILTINS['all'] = Builtin('all', _b_all)
M.BUILTINS['any'] = Builtin('any', _b_any)


def _counter(it, args, kw):
    # collections.Counter(feasible_values) is only used for the text of the "duplicates" error message
    return OpaqueBag('Counter')


EXTERNAL['collections.Counter'] = Builtin('collections.Counter', _counter)


def _isclose(it, args, kw):
    """math.isclose(a, b, *, rel_tol=1e-09, abs_tol=0.0) = |a-b| <= max(rel_tol*max(|a|,|b|), abs_tol) over the reals;
    False if either is NaN, True for equal infinities, False for any other infinity."""
    import math
    from fractions import Fraction
    a, b = args[0], args[1]
    rel, abt = kw.get('rel_tol', 1e-09), kw.get('abs_tol', 0.0)
    if set(kw) - {'rel_tol', 'abs_tol'} or len(args) != 2:
        raise PyRaise(it.make_exc('TypeError', ['isclose() arguments']))
    for x in (a, b, rel, abt):
        if isinstance(x, str) or (z3.is_expr(x) and x.sort() == Str):
            raise PyRaise(it.make_exc('TypeError', ['must be real number, not str']))
        if not (isinstance(x, (bool, int, float)) or (z3.is_expr(x) and x.sort() in (z3.BoolSort(), z3.IntSort(), xreal.XReal, z3.RealSort()))):
            raise Unsupported('math.isclose(%r)' % (x,))
    if z3.is_expr(rel) or z3.is_expr(abt):
        raise Unsupported('math.isclose with symbolic tolerances')
    if rel < 0 or abt < 0:
        raise PyRaise(it.make_exc('ValueError', ['tolerances must be non-negative']))
    if not z3.is_expr(a) and not z3.is_expr(b):
        return math.isclose(a, b, rel_tol=rel, abs_tol=abt)
    xa, xb = xreal.lift(a), xreal.lift(b)
    ra, rb = xreal.r(xa), xreal.r(xb)
    ab = lambda t: z3.If(t >= 0, t, -t)
    mx = z3.If(ab(ra) >= ab(rb), ab(ra), ab(rb))
    q = lambda f: z3.RealVal(str(Fraction(f)))
    tol = q(rel) * mx
    if abt > 0:
        tol = z3.If(tol >= q(abt), tol, q(abt))
    close = ab(ra - rb) <= tol
    return z3.If(z3.And(xreal.is_fin(xa), xreal.is_fin(xb)), close,
                 z3.And(z3.Not(xreal.is_nan(xa)), xa == xb))


def _floor_ceil(name):
    def fn(it, args, kw):
        import math
        v = args[0]
        if not z3.is_expr(v):
            try:
                return getattr(math, name)(v)
            except (OverflowError, ValueError, TypeError) as e:
                raise PyRaise(it.make_exc(type(e).__name__, [str(e)]))
        if v.sort() in (z3.IntSort(), z3.BoolSort()):
            return E.as_int(v)
        if v.sort() == xreal.XReal:
            if it.truth(xreal.is_nan(v)):
                raise PyRaise(it.make_exc('ValueError', ['cannot convert float NaN to integer']))
            if it.truth(z3.Not(xreal.is_fin(v))):
                raise PyRaise(it.make_exc('OverflowError', ['cannot convert float infinity to integer']))
            r = xreal.r(v)
            return z3.ToInt(r) if name == 'floor' else -z3.ToInt(-r)
        if v.sort() == Str:
            raise PyRaise(it.make_exc('TypeError', ['must be real number, not str']))
        raise Unsupported('math.%s(%r)' % (name, v))
    return fn


for _n in ('floor', 'ceil'):
    EXTERNAL.setdefault('math.' + _n, Builtin('math.' + _n, _floor_ceil(_n)))


def _np_isclose_scalar(it, args, kw):
    """numpy.isclose(a, b, rtol=1e-05, atol=1e-08, equal_nan=False) on scalars: |a-b| <= atol + rtol*|b| over the reals"""
    from fractions import Fraction
    a, b = args[0], args[1]
    rtol = args[2] if len(args) > 2 else kw.get('rtol', 1e-05)
    atol = args[3] if len(args) > 3 else kw.get('atol', 1e-08)
    if kw.get('equal_nan') or any(z3.is_expr(x) for x in (rtol, atol)):
        raise Unsupported('numpy.isclose with equal_nan / symbolic tolerances')
    for x in (a, b):
        if not (isinstance(x, (bool, int, float)) or (z3.is_expr(x) and x.sort() in (z3.BoolSort(), z3.IntSort(), xreal.XReal))):
            raise Unsupported('numpy.isclose(%r)' % (x,))
    xa, xb = xreal.lift(a), xreal.lift(b)
    ra, rb = xreal.r(xa), xreal.r(xb)
    ab = lambda t: z3.If(t >= 0, t, -t)
    q = lambda f: z3.RealVal(str(Fraction(f)))
    return z3.If(z3.And(xreal.is_fin(xa), xreal.is_fin(xb)), ab(ra - rb) <= q(atol) + q(rtol) * ab(rb),
                 z3.And(z3.Not(xreal.is_nan(xa)), xa == xb))


for _n in ('numpy.isclose', 'np.isclose'):
    EXTERNAL.setdefault(_n, Builtin('numpy.isclose', _np_isclose_scalar))


EXTERNAL['math.isclose'] = Builtin('math.isclose', _isclose)


# --- pure-mode round(): inside a comprehension over an array-list an exception cannot be forked per element; the
# definedness condition is collected and the comprehension model forks once on "some element makes it raise".
_prev_round = M.BUILTINS['round'].fn


def _b_round(it, args, kw):
    """round(x) (one argument): the integer n with |x - n| <= 1/2, ties to the even one; round(x, ndigits) stays
    unsupported.  bool/int round to themselves, a str is a TypeError, NaN a ValueError, an infinity an OverflowError."""
    v = args[0]
    if len(args) == 1 and not kw and z3.is_expr(v):
        if v.sort() == z3.BoolSort():
            return E.as_int(v)
        if v.sort() == Str:
            raise PyRaise(it.make_exc('TypeError', ["type str doesn't define __round__ method"]))
    if len(args) == 1 and not kw and isinstance(v, str):
        raise PyRaise(it.make_exc('TypeError', ["type str doesn't define __round__ method"]))
    if it.pure and z3.is_expr(v) and v.sort() == xreal.XReal and len(args) == 1:
        sink = getattr(it, '_pure_undefined', None)
        if sink is None:
            raise Unsupported('round() of a symbolic float in pure mode outside a modelled comprehension')
        sink.append((z3.Not(xreal.is_fin(v)), z3.If(xreal.is_nan(v), z3.IntVal(0), z3.IntVal(1))))   # 0: ValueError, 1: OverflowError
        r = xreal.r(v)
        fl = z3.ToInt(r)
        frac = r - z3.ToReal(fl)
        return z3.If(frac < 0.5, fl, z3.If(frac > 0.5, fl + 1, z3.If(fl % 2 == 0, fl, fl + 1)))
    return _prev_round(it, args, kw)


M.BUILTINS['round'] = Builtin('round', _b_round)

_prev_sfm = M.symbolic_filter_map


def _symbolic_filter_map(it, fr, e, xs):
    old = getattr(it, '_pure_undefined', None)
    it._pure_undefined = sink = []
    try:
        r = _prev_sfm(it, fr, e, xs)
    finally:
        it._pure_undefined = old
    if sink:
        run = it.run
        # locate the comprehension variable of the definitional encoding
        J = None
        for cond, _ in sink:
            for t in _consts(cond):
                if t.decl().name().startswith('cj!'):
                    J = t
        if J is None:
            raise Unsupported('undefinedness condition without comprehension index')
        w = run.fresh('undef_at', z3.IntSort())
        bad_at = lambda k: z3.Or(*[z3.substitute(c, (J, k)) for c, _ in sink])
        if run.choose(z3.And(w >= 0, w < xs.n, bad_at(w))):
            # the first offending element decides the exception class; both classes are rejections
            j = z3.Int('j!ud')
            run.axiom(z3.ForAll([j], z3.Implies(z3.And(j >= 0, j < w), z3.Not(bad_at(j)))))
            kind = z3.substitute(sink[0][1], (J, w))
            if run.choose(kind == 0):
                raise PyRaise(it.make_exc('ValueError', ['cannot convert float NaN to integer']))
            raise PyRaise(it.make_exc('OverflowError', ['cannot convert float infinity to integer']))
        j = z3.Int('j!dd')
        run.axiom(z3.ForAll([j], z3.Implies(z3.And(j >= 0, j < xs.n), z3.Not(bad_at(j)))))
    return r


def _consts(t):
    seen, todo, out = set(), [t], []
    while todo:
        x = todo.pop()
        if x.get_id() in seen:
            continue
        seen.add(x.get_id())
        if z3.is_const(x) and x.decl().kind() == z3.Z3_OP_UNINTERPRETED:
            out.append(x)
        todo.extend(x.children())
    return out


M.symbolic_filter_map = _symbolic_filter_map


_prev_format = M.format_string


def _format_string(it, parts):
    """str.format / f-string / % with symbolic arguments: an uninterpreted function of the arguments (models.py); in
    addition the result is not the empty string when the template contains literal text."""
    import re
    r = _prev_format(it, parts)
    if z3.is_expr(r):
        lit = 0
        for k, v in parts:
            if k == 's' and isinstance(v, str) and not v.startswith('join:'):
                lit += len(re.sub(r'\{[^{}]*\}|%[sdrfi]', '', v))
        key = ('fmt_nonempty', r.get_id())
        if lit > 0 and key not in it.run.instantiated:
            it.run.instantiated.add(key)
            it.run.assume(r != pm.str_lit(''))
    return r


M.format_string = _format_string

_prev_list = M.BUILTINS['list'].fn


def _b_list(it, args, kw):
    r = _prev_list(it, args, kw)
    if args and isinstance(args[0], SymList) and isinstance(r, SymList) and 'wrap' in args[0].__dict__:
        r.wrap = args[0].__dict__['wrap']       # a copy of a list of (abstract) instances holds the same instances
    return r


M.BUILTINS['list'] = Builtin('list', _b_list)

_prev_type = M.BUILTINS['type'].fn


def _b_type(it, args, kw):
    v = args[0]
    if len(args) == 1 and (isinstance(v, (bool, int, float, str)) or (z3.is_expr(v) and v.sort() in (z3.BoolSort(), z3.IntSort(), xreal.XReal, Str))):
        return M.BUILTINS[tag_of(v)]
    return _prev_type(it, args, kw)


M.BUILTINS['type'] = Builtin('type', _b_type)


def _truth_hook(it, v, _prev=M.truth_hook):
    if isinstance(v, SymMap):
        return v.n > 0
    if isinstance(v, OpaqueBag):
        raise Unsupported('truth value of an opaque %s' % v.what)
    return _prev(it, v)


M.truth_hook = _truth_hook


_PYTYPE = {'bool': bool, 'int': int, 'float': float, 'str': str}


def _value_getattr_hook(it, v, a, _prev=M.value_getattr_hook):
    if isinstance(v, (bool, int, float, str)) or (z3.is_expr(v) and v.sort() in (z3.BoolSort(), z3.IntSort(), xreal.XReal, Str)):
        # an attribute that the Python type of a scalar does not have is an AttributeError, not an engine limitation
        if not hasattr(_PYTYPE[tag_of(v)], a):
            raise PyRaise(it.make_exc('AttributeError', ["'%s' object has no attribute '%s'" % (tag_of(v), a)]))
    if isinstance(v, OpaqueBag):
        if a == 'items':
            return Builtin('items', lambda it_, args, kw: M.DictView([]))
        raise Unsupported('attribute %s of an opaque %s' % (a, v.what))
    if isinstance(v, SymMap):
        return v.getattr(it, a)
    return _prev(it, v, a)


M.value_getattr_hook = _value_getattr_hook


def _binop_hook(it, op, l, r, inplace, _prev=M.binop_hook):
    if isinstance(l, OpaqueBag) or isinstance(r, OpaqueBag):
        return OpaqueBag('set')
    return _prev(it, op, l, r, inplace)


M.binop_hook = _binop_hook


# =========================================================================================== symbolic maps
member_uf = z3.Function('member', pm.PyObj, pm.PyObj, z3.BoolSort())         # member(pc, value)   (the C16 oracle, abstractly)
name_of = z3.Function('pc_name', pm.PyObj, Str)
has_children = z3.Function('pc_has_children', pm.PyObj, z3.BoolSort())


class SymMap:
    """insertion-ordered dict with symbolic key set (a *well-formed dict by construction*): keys karr[0..n) pairwise
    distinct, dom[s] <=> s is a key, pos[s] the position of key s (ghost inverse of karr), val[s] the value term.
    `wrap` turns a value term into an engine value.  n = |dom| (finite-set cardinality)."""

    def __init__(self, run, name, vsort, wrap, ksort=Str, fresh=True):
        self.name, self.wrap, self.vsort, self.ksort = name, wrap, vsort, ksort
        if not fresh:
            return
        self.n = run.fresh(name + '_n', z3.IntSort())
        self.karr = run.fresh(name + '_keys', z3.ArraySort(z3.IntSort(), ksort))
        self.dom = run.fresh(name + '_dom', z3.ArraySort(ksort, z3.BoolSort()))
        self.pos = run.fresh(name + '_pos', z3.ArraySort(ksort, z3.IntSort()))
        self.val = run.fresh(name + '_val', z3.ArraySort(ksort, vsort))
        run.assume(self.n >= 0)
        for ax in self.axioms():
            run.axiom(ax)

    def axioms(self):
        i = z3.Int('i!sm')
        s = z3.Const('s!sm', self.ksort)
        return [
            z3.ForAll([i], z3.Implies(z3.And(i >= 0, i < self.n), z3.And(self.dom[self.karr[i]], self.pos[self.karr[i]] == i))),
            z3.ForAll([s], z3.Implies(self.dom[s], z3.And(self.pos[s] >= 0, self.pos[s] < self.n, self.karr[self.pos[s]] == s))),
        ]

    def clone(self):
        c = SymMap(None, self.name, self.vsort, self.wrap, self.ksort, fresh=False)
        c.n, c.karr, c.dom, c.pos, c.val = self.n, self.karr, self.dom, self.pos, self.val
        return c

    def fresh_like(self, run, name):
        return SymMap(run, name, self.vsort, self.wrap, self.ksort)

    def remove(self, it, k):
        """del d[k] for a present key: the remaining keys are re-enumerated by a fresh ghost enumeration (a finite set
        minus one element has one element less: Finset.card_erase_of_mem)"""
        run = it.run
        self.dom = z3.Store(self.dom, k, z3.BoolVal(False))
        self.n = self.n - 1
        self.karr = run.fresh(self.name + '_keys', self.karr.sort())
        self.pos = run.fresh(self.name + '_pos', self.pos.sort())
        for ax in self.axioms():
            run.axiom(ax)

    def lookup(self, k):
        """(present, key term) for a lookup with an arbitrary Python key: dict lookup is by hash and ==, so a number finds
        the numerically equal key (1 == 1.0 == True) and a key of another kind (str vs number/bool) is never found."""
        t = E.to_z3(k)
        ks, ts = self.ksort, t.sort()
        if ts == ks:
            if ks == xreal.XReal:
                return z3.And(z3.Not(xreal.is_nan(t)), self.dom[t]), t
            return self.dom[t], t
        num = (z3.IntSort(), z3.BoolSort(), xreal.XReal)
        if ks in num and ts in num:
            if ks == xreal.XReal:
                kt = xreal.lift(t)
                return self.dom[kt], kt
            if ks == z3.IntSort():
                if ts == z3.BoolSort():
                    kt = E.as_int(t)
                    return self.dom[kt], kt
                kt = z3.ToInt(xreal.r(t))
                return z3.And(xreal.is_fin(t), z3.IsInt(xreal.r(t)), self.dom[kt]), kt
        return z3.BoolVal(False), None

    def values_list(self):
        i = z3.Int('i!vl')
        return SymList(self.n, z3.Lambda([i], self.val[self.karr[i]]), 'pyobj')

    def getattr(self, it, a):
        if a == 'values':
            def values(it_, args, kw):
                lst = self.values_list()
                lst.wrap = lambda term: self.wrap(term)
                return lst
            return Builtin('values', values)
        if a == 'keys':
            return Builtin('keys', lambda it_, args, kw: SymList(self.n, self.karr, 'str'))
        if a == 'get':
            def get(it_, args, kw):
                present, kt = self.lookup(args[0])
                if kt is not None and it_.truth(present):
                    return self.wrap(self.val[kt])
                return args[1] if len(args) > 1 else kw.get('default')
            return Builtin('get', get)
        raise Unsupported('method %s of a symbolic dict' % a)


def _contains_hook(it, container, x, _prev=M.contains_hook):
    if isinstance(container, SymMap):
        return container.lookup(x)[0]
    return _prev(it, container, x)


M.contains_hook = _contains_hook


def _subscript_hook(it, base, idx, _prev=M.subscript_hook):
    if isinstance(base, SymMap):
        present, k = base.lookup(idx)
        if k is None or not it.truth(present):
            raise PyRaise(it.make_exc('KeyError', [idx]))
        return base.wrap(base.val[k])
    return _prev(it, base, idx)


M.subscript_hook = _subscript_hook


def _setitem_hook(it, base, idx, v, _prev=M.setitem_hook):
    if isinstance(base, SymMap):
        k, t = E.to_z3(idx), E.to_z3(v)
        run = it.run
        if k.sort() != base.ksort:
            present, k2 = base.lookup(idx)
            if k2 is None:
                raise Unsupported('store under a key of another kind into a symbolic dict')
            k = k2
        if it.truth(base.dom[k]):
            base.val = z3.Store(base.val, k, t)
        else:
            base.karr = z3.Store(base.karr, base.n, k)
            base.pos = z3.Store(base.pos, k, base.n)
            base.n = base.n + 1
            base.dom = z3.Store(base.dom, k, z3.BoolVal(True))
            base.val = z3.Store(base.val, k, t)
        return True
    return _prev(it, base, idx, v)


M.setitem_hook = _setitem_hook


def _delitem_hook(it, base, idx, _prev=M.delitem_hook):
    if isinstance(base, SymMap):
        k = E.to_z3(idx)
        if not it.truth(base.dom[k]):
            raise PyRaise(it.make_exc('KeyError', [idx]))
        base.remove(it, k)
        return True
    return _prev(it, base, idx)


M.delitem_hook = _delitem_hook


def _deepcopy_hook(it, v, memo, _prev=M.deepcopy_hook):
    if isinstance(v, SymMap):
        return v.clone()        # keys and value terms are immutable
    return _prev(it, v, memo)


M.deepcopy_hook = _deepcopy_hook


def _fresh_like_hook(it, v, name, _prev=M.fresh_like_hook):
    # havoc *in place* (like array-lists): every alias of the dict sees the havoc
    if isinstance(v, SymMap):
        f = v.fresh_like(it.run, name)
        v.n, v.karr, v.dom, v.pos, v.val = f.n, f.karr, f.dom, f.pos, f.val
        return v
    if isinstance(v, Obj) and isinstance(v.attrs.get('_items'), SymMap) and len(v.attrs) == 1:
        _fresh_like_hook(it, v.attrs['_items'], name)
        return v
    return _prev(it, v, name)


M.fresh_like_hook = _fresh_like_hook


# =========================================================================================== values, tags, oracle
def fresh_value(run, tag, name='v'):
    """symbolic Python scalar of the given tag."""
    if tag == 'bool':
        return run.fresh(name, z3.BoolSort())
    if tag == 'int':
        # |v| <= 2^53 is a *modelling* assumption (float(v) exact), recorded in the evidence; it is not needed as a
        # logical premise (the proofs hold for all mathematical integers) and large constants only slow the solver
        return run.fresh(name, z3.IntSort())
    if tag == 'float':
        return run.fresh(name, xreal.XReal)
    if tag == 'str':
        return run.fresh(name, Str)
    raise KeyError(tag)


def tag_of(v):
    if isinstance(v, bool):
        return 'bool'
    if isinstance(v, int):
        return 'int'
    if isinstance(v, float):
        return 'float'
    if isinstance(v, str):
        return 'str'
    s = v.sort()
    return {z3.BoolSort(): 'bool', z3.IntSort(): 'int', xreal.XReal: 'float', Str: 'str'}[s]


def numeric_value(v):
    """(is_number, is_real_number, real value) of a tagged scalar -- the oracle's reading of 'a Python number'."""
    t = tag_of(v)
    v = E.to_z3(v)
    if t == 'bool':
        return True, z3.BoolVal(True), z3.If(v, z3.RealVal(1), z3.RealVal(0))
    if t == 'int':
        return True, z3.BoolVal(True), z3.ToReal(v)
    if t == 'float':
        return True, xreal.is_fin(v), xreal.r(v)
    return False, z3.BoolVal(False), z3.RealVal(0)


TRUE_S, FALSE_S = 'True', 'False'


class Dom:
    """symbolic well-formed parameter definition of one type (the representation invariant is the proved
    postcondition of ParameterConfig.factory: C16.factory.normalises.*)."""

    def __init__(self, run, ptype, prefix='pc'):
        self.ptype = ptype
        self.lo = self.hi = self.fv = None
        if ptype == 'INTEGER':
            self.lo, self.hi = run.fresh(prefix + '_lo', z3.IntSort()), run.fresh(prefix + '_hi', z3.IntSort())
            run.assume(self.lo <= self.hi)
        elif ptype == 'DOUBLE':
            self.lo, self.hi = run.fresh(prefix + '_lo', xreal.XReal), run.fresh(prefix + '_hi', xreal.XReal)
            run.assume(z3.And(xreal.is_fin(self.lo), xreal.is_fin(self.hi), xreal.r(self.lo) <= xreal.r(self.hi)))
        elif ptype == 'DISCRETE':
            n = run.fresh(prefix + '_n', z3.IntSort())
            arr = run.fresh(prefix + '_fv', z3.ArraySort(z3.IntSort(), xreal.XReal))
            run.assume(n >= 1)
            self.fv = SymList(n, arr, 'float')
            i, j = z3.Int('i!dm'), z3.Int('j!dm')
            run.axiom(z3.ForAll([i], z3.Implies(z3.And(i >= 0, i < n), xreal.is_fin(arr[i]))))
            run.axiom(z3.ForAll([i, j], z3.Implies(z3.And(i >= 0, i < j, j < n), xreal.r(arr[i]) < xreal.r(arr[j]))))
            run.assume(z3.And(xreal.is_fin(arr[0]), xreal.is_fin(arr[n - 1])))
            self.lo, self.hi = arr[0], arr[n - 1]
        elif ptype == 'CATEGORICAL':
            n = run.fresh(prefix + '_n', z3.IntSort())
            arr = run.fresh(prefix + '_fv', z3.ArraySort(z3.IntSort(), Str))
            run.assume(n >= 1)
            self.fv = SymList(n, arr, 'str')
            run.axiom(distinct_formula(self.fv))
        elif ptype != 'CUSTOM':
            raise KeyError(ptype)

    def in_fv(self, term):
        j = z3.Int('j!mf')
        return z3.Exists([j], z3.And(j >= 0, j < self.fv.n, self.fv.arr[j] == term))


def member(dom, v):
    """THE ORACLE (from the property statement): is the tagged scalar v a type-compatible value inside the domain?"""
    t = tag_of(v)
    if dom.ptype in NUMERIC_TYPES:
        is_num, is_real, r = numeric_value(v)
        if not is_num:
            return z3.BoolVal(False)
        if dom.ptype == 'DOUBLE':
            return z3.And(is_real, xreal.r(dom.lo) <= r, r <= xreal.r(dom.hi))
        if dom.ptype == 'INTEGER':
            return z3.And(is_real, z3.IsInt(r), z3.ToReal(dom.lo) <= r, r <= z3.ToReal(dom.hi))
        return z3.And(is_real, dom.in_fv(xreal.fin(r)))
    if dom.ptype == 'CATEGORICAL':
        if t == 'str':
            return dom.in_fv(E.to_z3(v))
        if t == 'bool':
            return dom.in_fv(z3.If(E.to_z3(v), pm.str_lit(TRUE_S), pm.str_lit(FALSE_S)))
        return z3.BoolVal(False)
    raise KeyError(dom.ptype)


def compatible(ptype, v):
    """type compatibility alone (ParameterType.assert_correct_type): see the module docstring."""
    t = tag_of(v)
    if ptype in NUMERIC_TYPES:
        is_num, is_real, r = numeric_value(v)
        if not is_num:
            return z3.BoolVal(False)
        if ptype == 'INTEGER':
            return z3.And(is_real, z3.IsInt(r))
        # DOUBLE/DISCRETE: any number that is not NaN (an infinity is a number, merely outside every domain)
        return z3.Not(xreal.is_nan(E.to_z3(v))) if t == 'float' else z3.BoolVal(True)
    if ptype == 'CATEGORICAL':
        return z3.BoolVal(t in ('str', 'bool'))
    return z3.BoolVal(True)     # CUSTOM: no constraint


# =========================================================================================== building symbolic instances
def pcm():
    return ModuleInfo.get(PCM)


def trm():
    return ModuleInfo.get(TRM)


def ptype_member(it, name):
    return A.enum_member(it, trm().classes['ParameterType'], name)


def etype_member(it, name):
    return A.enum_member(it, trm().classes['ExternalType'], name)


def make_pc(it, dom, name=None, external='INTERNAL'):
    run = it.run
    nm = name if name is not None else run.fresh('pc_name', Str)
    bounds = None if dom.ptype in ('CATEGORICAL', 'CUSTOM') else (dom.lo, dom.hi)
    return A.make_instance(it, pcm().classes['ParameterConfig'],
                           _name=nm, _type=ptype_member(it, dom.ptype), _bounds=bounds, _feasible_values=dom.fv,
                           _scale_type=None, _default_value=None, _external_type=etype_member(it, external),
                           _children=M.PyDict(), _matching_parent_values=(), fidelity_config=None)


def call_method(it, obj, name, args=(), kw=None):
    return it.call(it.getattr(obj, name), list(args), dict(kw or {}))


def exc_class(p):
    return E.class_name(p.value.cls) if p.kind == 'raise' else None


# =========================================================================================== A. assert_correct_type
def act_entry(ptype, tag):
    def entry(it):
        run = it.run
        run.v = fresh_value(run, tag)
        return call_method(it, ptype_member(it, ptype), 'assert_correct_type', [run.v])
    return entry


def act_post(ptype, tag):
    def post(p):
        ok = compatible(ptype, p.run.v)
        nm = 'C16.assert_correct_type.iff.%s.%s' % (ptype, tag)
        if p.kind == 'return':
            return [(nm, ok)]
        return [(nm, z3.Not(ok))]
    return post


# =========================================================================================== B. ParameterConfig.contains
def contains_entry(ptype, tag, wrapped):
    def entry(it):
        run = it.run
        run.dom = Dom(run, ptype)
        pc = make_pc(it, run.dom)
        run.v = fresh_value(run, tag)
        arg = run.v
        if wrapped:
            arg = A.make_instance(it, trm().classes['ParameterValue'], value=run.v)
        return call_method(it, pc, 'contains', [arg])
    return entry


def contains_post(ptype, tag, wrapped):
    sfx = '%s.%s%s' % (ptype, tag, '.pv' if wrapped else '')

    def post(p):
        if p.kind == 'raise':
            return [('C16.contains.raises_nothing.' + sfx, z3.BoolVal(False))]
        mem = member(p.run.dom, p.run.v)
        r = p.value
        if isinstance(r, bool):
            return [('C16.contains.iff.' + sfx, mem if r else z3.Not(mem)),
                    ('C16.contains.raises_nothing.' + sfx, z3.BoolVal(True))]
        if z3.is_expr(r) and r.sort() == z3.BoolSort():
            return [('C16.contains.iff.' + sfx, r == mem), ('C16.contains.raises_nothing.' + sfx, z3.BoolVal(True))]
        return [('C16.contains.iff.' + sfx, z3.BoolVal(False))]      # contains() must return a bool
    return post


def overflow_class(p):
    """witness class of DESIGN 10 row 4: an infinite float reaches int() (OverflowError escapes contains())."""
    v = p.run.v
    if p.kind != 'raise' or exc_class(p) != 'OverflowError' or tag_of(v) != 'float':
        return False
    return z3.Or(xreal.is_pinf(v), xreal.is_ninf(v))


# =========================================================================================== models -> concrete replays
def model_str(m, t):
    """python string for a Str term under model m: the literal it equals, else a fresh name per universe element."""
    v = m.eval(t, model_completion=True)
    for s, c in pm._LITS.items():
        if z3.is_true(m.eval(c == v, model_completion=True)):
            return s
    return 's_' + ''.join(ch for ch in str(v) if ch.isalnum())[-8:]


def model_scalar(m, t):
    if not z3.is_expr(t):
        return t
    s = t.sort()
    v = m.eval(t, model_completion=True)
    if s == z3.BoolSort():
        return z3.is_true(v)
    if s == z3.IntSort():
        return v.as_long()
    if s == xreal.XReal:
        return xreal.model_value(m, t)
    if s == Str:
        return model_str(m, t)
    raise Unsupported('model value of sort %s' % s)


def enc(v):
    if v is None:
        return {'t': 'none', 'v': None}
    if isinstance(v, bool):
        return {'t': 'bool', 'v': v}
    if isinstance(v, int):
        return {'t': 'int', 'v': v}
    if isinstance(v, float):
        return {'t': 'float', 'v': repr(v)}
    return {'t': 'str', 'v': str(v)}


def model_list(m, lst, cap=8):
    if lst is None:
        return None
    if isinstance(lst, (list, tuple)):
        return [model_scalar(m, x) for x in lst]
    n = m.eval(lst.n, model_completion=True).as_long()
    return [model_scalar(m, lst.arr[i]) for i in range(max(0, min(n, cap)))]


def dom_spec(m, dom, name=None):
    d = {'ptype': dom.ptype}
    if name is not None:
        d['name'] = name
    if dom.ptype in ('INTEGER', 'DOUBLE'):
        d['bounds'] = [enc(model_scalar(m, dom.lo)), enc(model_scalar(m, dom.hi))]
    else:
        d['feasible'] = [enc(x) for x in model_list(m, dom.fv)]
    return d


REPLAY = os.path.join(report.VERIF, 'replay', 'c16_replay.py')
_JOBN = [0]


def run_replay(job, driver=REPLAY, timeout=120):
    """run one job on the real code; returns (replay dict, reproduced: True/False/None)"""
    d = os.path.join(report.OUT, 'c16')
    os.makedirs(d, exist_ok=True)
    _JOBN[0] += 1
    path = os.path.join(d, 'job_%d_%d.json' % (os.getpid(), _JOBN[0]))
    with open(path, 'w') as f:
        json.dump({'job': job}, f, default=repr)
    cmd = ['/venv/bin/python', driver, path]
    try:
        r = subprocess.run(cmd, capture_output=True, text=True, timeout=timeout, env=dict(os.environ))
    except Exception as e:  # the replay never decides anything
        return {'job': job, 'cmd': ' '.join(cmd), 'replay_error': repr(e)}, None
    lines = [l for l in r.stdout.strip().splitlines() if l.strip()]
    verdict = lines[-1].strip() if lines else ''
    rep = {'job': job, 'cmd': ' '.join(cmd), 'native_output': lines[-2][:2000] if len(lines) > 1 else r.stderr[-800:]}
    if verdict == 'REPRODUCED':
        return rep, True
    if verdict == 'NOT-REPRODUCED':
        return rep, False
    rep['replay_error'] = (r.stderr or r.stdout)[-800:]
    return rep, None


def replay_contains(ptype, tag, wrapped):
    def on_violation(name, p, m):
        job = {'kind': 'contains', 'pc': dom_spec(m, p.run.dom), 'value': enc(model_scalar(m, p.run.v)), 'wrapped': wrapped}
        return run_replay(job)
    return on_violation


def replay_act(ptype, tag):
    def on_violation(name, p, m):
        return run_replay({'kind': 'assert_correct_type', 'ptype': ptype, 'value': enc(model_scalar(m, p.run.v))})
    return on_violation


def witness_terms(p):
    run = p.run
    out = []
    for k in ('v', 'name'):
        if hasattr(run, k) and z3.is_expr(getattr(run, k)):
            out.append((k, getattr(run, k)))
    dom = getattr(run, 'dom', None)
    if dom is not None:
        for k in ('lo', 'hi'):
            if getattr(dom, k) is not None:
                out.append((k, getattr(dom, k)))
        if dom.fv is not None:
            out.append(('len(feasible)', dom.fv.n))
    return out


# =========================================================================================== C. ParameterConfig.factory
def fresh_list(run, kind, name, min_len=0, bound=None):
    """array-list of symbolic length (proof query) or of the concrete length `bound` (model query, DESIGN 2.5)"""
    arr = run.fresh(name, z3.ArraySort(z3.IntSort(), pm.scalar_sort(kind)))
    if bound is not None:
        return SymList(z3.IntVal(bound), arr, kind)
    n = run.fresh(name + '_n', z3.IntSort())
    run.assume(n >= min_len)
    return SymList(n, arr, kind)


def as_symlist(v, kind):
    """array-list view of a concrete-spine list (model queries run the concrete builtins)"""
    if isinstance(v, SymList) or not isinstance(v, (list, tuple)):
        return v
    es = pm.scalar_sort(kind)
    arr = z3.K(z3.IntSort(), pm._default_term(es))
    try:
        for i, x in enumerate(v):
            arr = z3.Store(arr, i, pm._lift(x, es) if not (z3.is_expr(x) and x.sort() == es) else x)
    except TypeError:
        return v
    return SymList(z3.IntVal(len(v)), arr, kind)


def call_factory(it, name, **kw):
    cls = pcm().classes['ParameterConfig']
    return it.call(it.getattr(cls, 'factory'), [name], kw)


def is_intkind(tag):
    return tag in ('bool', 'int')


def num_term(v):
    """XReal view of a numeric tagged scalar"""
    return xreal.lift(E.to_z3(v))


def has_type(it, pc, tname):
    return pc.attrs.get('_type') is ptype_member(it, tname)


class FactoryBounds:
    """factory(name, bounds=(a, b)) with a, b of every tag combination."""

    def __init__(self, ta, tb):
        self.ta, self.tb = ta, tb
        self.sfx = '%s.%s' % (ta, tb)

    def entry(self, it):
        run = it.run
        run.name = run.fresh('name', Str)
        run.a, run.b = fresh_value(run, self.ta, 'a'), fresh_value(run, self.tb, 'b')
        run.it = it
        return call_factory(it, run.name, bounds=(run.a, run.b))

    def kinds_ok(self):
        return (is_intkind(self.ta) and is_intkind(self.tb)) or (self.ta == 'float' and self.tb == 'float')

    def valid(self, run):
        if not self.kinds_ok():
            return z3.BoolVal(False)
        a, b = num_term(run.a), num_term(run.b)
        return z3.And(run.name != pm.str_lit(''), xreal.is_fin(a), xreal.is_fin(b), xreal.r(a) <= xreal.r(b))

    def post(self, p):
        run = p.run
        R, s = 'C16.factory.', '.bounds.' + self.sfx
        if p.kind == 'raise':
            return [(R + 'accepts_valid' + s, z3.Not(self.valid(run)))]
        r = p.value
        obs = [(R + 'rejects.empty_name' + s, run.name != pm.str_lit('')),
               (R + 'rejects.mixed_bounds' + s, z3.BoolVal(self.kinds_ok()))]
        if self.kinds_ok():
            a, b = num_term(run.a), num_term(run.b)
            obs.append((R + 'rejects.nonfinite_bounds' + s, z3.And(xreal.is_fin(a), xreal.is_fin(b))))
            obs.append((R + 'rejects.reversed_bounds' + s, xreal.le(a, b)))
        want = 'INTEGER' if is_intkind(self.ta) else 'DOUBLE'
        ok_obj = isinstance(r, Obj) and isinstance(r.cls, source.ClassInfo) and r.cls.name == 'ParameterConfig'
        obs.append((R + 'normalises.type_inferred' + s, z3.BoolVal(ok_obj and has_type(run.it, r, want))))
        if ok_obj:
            bd = r.attrs.get('_bounds')
            same = isinstance(bd, tuple) and len(bd) == 2 and bd[0] is run.a and bd[1] is run.b
            obs.append((R + 'normalises.bounds_kept' + s, z3.BoolVal(bool(same))))
            obs.append((R + 'normalises.name_kept' + s, E.zbool(E.eq_values(r.attrs.get('_name'), run.name))))
            obs.append((R + 'normalises.flat' + s, z3.BoolVal(r.attrs.get('_feasible_values') is None and len(r.attrs.get('_children')) == 0)))
        return obs

    def on_violation(self, name, p, m):
        run = p.run
        job = {'kind': 'factory', 'name': enc(model_scalar(m, run.name)),
               'bounds': {'tuple': True, 'items': [enc(model_scalar(m, run.a)), enc(model_scalar(m, run.b))]}}
        return run_replay(job)


class FactoryArity:
    """bounds of the wrong arity: () is 'no bounds' (CUSTOM); (a,) and (a,b,c) are rejected."""

    def __init__(self, k):
        self.k = k

    def entry(self, it):
        run = it.run
        run.name = run.fresh('name', Str)
        run.bs = tuple(fresh_value(run, 'int', 'b%d' % i) for i in range(self.k))
        run.it = it
        return call_factory(it, run.name, bounds=run.bs)

    def post(self, p):
        run = p.run
        s = '.arity%d' % self.k
        if self.k == 0:
            if p.kind == 'raise':
                return [('C16.factory.accepts_valid' + s, run.name == pm.str_lit(''))]
            return [('C16.factory.rejects.empty_name' + s, run.name != pm.str_lit('')),
                    ('C16.factory.normalises.type_inferred' + s, z3.BoolVal(has_type(run.it, p.value, 'CUSTOM')))]
        return [('C16.factory.rejects.bounds_length' + s, z3.BoolVal(p.kind == 'raise'))]

    def on_violation(self, name, p, m):
        run = p.run
        return run_replay({'kind': 'factory', 'name': enc(model_scalar(m, run.name)),
                           'bounds': {'tuple': True, 'items': [enc(model_scalar(m, b)) for b in run.bs]}})


class FactoryFeasible:
    """factory(name, feasible_values=xs [, bounds=(a,b)]) with xs an array-list of symbolic length (numbers or strings)."""

    def __init__(self, kind, with_bounds=False, bound=None):
        self.kind, self.with_bounds, self.bound = kind, with_bounds, bound      # kind: 'float' (any Python numbers, by value) | 'str'
        self.sfx = ('.numeric' if kind == 'float' else '.strings') + ('.with_bounds' if with_bounds else '')

    def bounded(self, k):
        return FactoryFeasible(self.kind, self.with_bounds, k)

    def entry(self, it):
        run = it.run
        run.name = run.fresh('name', Str)
        run.xs = fresh_list(run, self.kind, 'xs', bound=self.bound)
        run.xs0 = M.snapshot(run.xs)
        run.it = it
        kw = {'feasible_values': run.xs}
        if self.with_bounds:
            run.a, run.b = fresh_value(run, 'int', 'a'), fresh_value(run, 'int', 'b')
            kw['bounds'] = (run.a, run.b)
        return call_factory(it, run.name, **kw)

    def finite(self, xs):
        if self.kind != 'float':
            return z3.BoolVal(True)
        i = z3.Int('i!ff')
        return z3.ForAll([i], z3.Implies(z3.And(i >= 0, i < xs.n), xreal.is_fin(xs.arr[i])))

    def valid(self, run):
        xs = run.xs0
        nonempty_ok = z3.And(self.finite(xs), distinct_formula(xs))
        if self.with_bounds:
            # a 2-tuple of bounds is always "given": valid only when no feasible values are given
            a, b = run.a, run.b
            return z3.And(run.name != pm.str_lit(''), xs.n == 0, a <= b)
        return z3.And(run.name != pm.str_lit(''), z3.Or(xs.n == 0, nonempty_ok))

    def post(self, p):
        run = p.run
        R, s = 'C16.factory.', self.sfx
        xs = run.xs0
        if p.kind == 'raise':
            return [(R + 'accepts_valid' + s, z3.Not(self.valid(run)))]
        r = p.value
        obs = [(R + 'rejects.empty_name' + s, run.name != pm.str_lit(''))]
        if self.with_bounds:
            obs.append((R + 'rejects.both_given' + s, xs.n == 0))
            obs.append((R + 'normalises.type_inferred' + s, z3.BoolVal(has_type(run.it, r, 'INTEGER'))))
            return obs
        obs.append((R + 'rejects.duplicates' + s, z3.Implies(xs.n > 0, distinct_formula(xs))))
        if self.kind == 'float':
            obs.append((R + 'rejects.nonfinite_feasible' + s, z3.Implies(xs.n > 0, self.finite(xs))))
        want = 'DISCRETE' if self.kind == 'float' else 'CATEGORICAL'
        typed = z3.If(xs.n > 0, z3.BoolVal(has_type(run.it, r, want)), z3.BoolVal(has_type(run.it, r, 'CUSTOM')))
        obs.append((R + 'normalises.type_inferred' + s, typed))
        fv = as_symlist(r.attrs.get('_feasible_values'), self.kind)
        nonempty = xs.n > 0
        if isinstance(fv, SymList):
            i, j = z3.Int('i!fs'), z3.Int('j!fs')
            lt = (lambda a, b: xreal.lt(a, b)) if self.kind == 'float' else (lambda a, b: M.str_lt(a, b))
            inr = lambda k, n: z3.And(k >= 0, k < n)
            obs.append((R + 'normalises.sorted_unique' + s,
                        z3.ForAll([i, j], z3.Implies(z3.And(i >= 0, i < j, j < fv.n), lt(fv.arr[i], fv.arr[j])))))
            hint = find_sorted(run, fv, xs)
            if hint is not None:
                # proof hint (checked, not trusted): the ghost permutation of sorted() is the witness of both inclusions
                perm, inv = hint
                same = z3.And(fv.n == xs.n,
                              z3.ForAll([i], z3.Implies(inr(i, xs.n), z3.And(inr(inv(i), fv.n), fv.arr[inv(i)] == xs.arr[i]))),
                              z3.ForAll([j], z3.Implies(inr(j, fv.n), z3.And(inr(perm(j), xs.n), fv.arr[j] == xs.arr[perm(j)]))))
            else:
                same = z3.And(
                    fv.n == xs.n,
                    z3.ForAll([i], z3.Implies(inr(i, xs.n), z3.Exists([j], z3.And(inr(j, fv.n), fv.arr[j] == xs.arr[i])))),
                    z3.ForAll([j], z3.Implies(inr(j, fv.n), z3.Exists([i], z3.And(inr(i, xs.n), fv.arr[j] == xs.arr[i])))))
            obs.append((R + 'normalises.same_values' + s, same))
            bd = r.attrs.get('_bounds')
            if self.kind == 'float':
                if isinstance(bd, tuple) and len(bd) == 2:
                    lo, hi = E.to_z3(bd[0]), E.to_z3(bd[1])
                    if hint is not None:
                        wlo, whi = z3.And(inr(perm(0), xs.n), xs.arr[perm(0)] == lo), z3.And(inr(perm(fv.n - 1), xs.n), xs.arr[perm(fv.n - 1)] == hi)
                    else:
                        wlo, whi = z3.Exists([i], z3.And(inr(i, xs.n), xs.arr[i] == lo)), z3.Exists([i], z3.And(inr(i, xs.n), xs.arr[i] == hi))
                    obs.append((R + 'normalises.bounds_finite_ordered' + s, z3.Implies(nonempty, z3.And(
                        xreal.is_fin(lo), xreal.is_fin(hi), xreal.le(lo, hi), lo == fv.arr[0], hi == fv.arr[fv.n - 1],
                        z3.ForAll([i], z3.Implies(inr(i, fv.n), z3.And(xreal.le(lo, fv.arr[i]), xreal.le(fv.arr[i], hi)))), wlo, whi))))
                else:
                    obs.append((R + 'normalises.bounds_finite_ordered' + s, z3.Not(nonempty)))
            else:
                obs.append((R + 'normalises.no_bounds' + s, z3.BoolVal(bd is None)))
        else:
            # no feasible values stored: only legitimate for the empty input (CUSTOM)
            obs.append((R + 'normalises.same_values' + s, xs.n == 0))
        obs.append((R + 'normalises.name_kept' + s, E.zbool(E.eq_values(r.attrs.get('_name'), run.name))))
        return obs

    def on_violation(self, name, p, m):
        run = p.run
        job = {'kind': 'factory', 'name': enc(model_scalar(m, run.name)),
               'feasible': {'items': [enc(x) for x in model_list(m, run.xs0)]}}
        if self.with_bounds:
            job['bounds'] = {'tuple': True, 'items': [enc(model_scalar(m, run.a)), enc(model_scalar(m, run.b))]}
        return run_replay(job)


class FactoryMixed:
    """feasible values mixing a number and a string are rejected."""

    def __init__(self, order):
        self.order = order

    def entry(self, it):
        run = it.run
        run.name = run.fresh('name', Str)
        num, s = fresh_value(run, 'float', 'x'), fresh_value(run, 'str', 's')
        run.items = [num, s] if self.order == 0 else [s, num]
        return call_factory(it, run.name, feasible_values=list(run.items))

    def post(self, p):
        return [('C16.factory.rejects.mixed_kinds.%d' % self.order, z3.BoolVal(p.kind == 'raise'))]

    def on_violation(self, name, p, m):
        run = p.run
        return run_replay({'kind': 'factory', 'name': enc(model_scalar(m, run.name)),
                           'feasible': {'items': [enc(model_scalar(m, x)) for x in run.items]}})


class FactoryDefault:
    """factory(..., default_value=d): the default is type-checked against the inferred type and converted
    (docstring of _get_default_value); whether it lies inside the domain is C03's concern, not C16's."""

    def __init__(self, kind, dtag):
        self.kind, self.dtag = kind, dtag
        self.sfx = '.%s.%s' % (kind, dtag)

    def entry(self, it):
        run = it.run
        run.it = it
        run.d = fresh_value(run, self.dtag, 'd')
        kw = {'default_value': run.d}
        if self.kind == 'INTEGER':
            a, b = fresh_value(run, 'int', 'a'), fresh_value(run, 'int', 'b')
            run.assume(a <= b)
            kw['bounds'] = (a, b)
        elif self.kind == 'DOUBLE':
            a, b = fresh_value(run, 'float', 'a'), fresh_value(run, 'float', 'b')
            run.assume(z3.And(xreal.is_fin(a), xreal.is_fin(b), xreal.r(a) <= xreal.r(b)))
            kw['bounds'] = (a, b)
        elif self.kind == 'DISCRETE':
            kw['feasible_values'] = [xreal.lit(1.0), xreal.lit(2.5)]
        elif self.kind == 'CATEGORICAL':
            kw['feasible_values'] = ['a', 'b']
        return call_factory(it, 'p', **kw)

    def compat(self):
        if self.kind in NUMERIC_TYPES:
            return self.dtag in ('bool', 'int', 'float')
        if self.kind == 'CATEGORICAL':
            return self.dtag == 'str'
        return True

    def post(self, p):
        run = p.run
        R, s = 'C16.factory.default.', self.sfx
        d = run.d
        if p.kind == 'raise':
            must_accept = self.compat()
            if self.kind == 'INTEGER' and self.dtag == 'float':
                dx = E.to_z3(d)
                return [(R + 'accepts_compatible' + s, z3.Not(z3.And(xreal.is_fin(dx), z3.IsInt(xreal.r(dx)))))]
            return [(R + 'accepts_compatible' + s, z3.BoolVal(not must_accept))]
        r = p.value
        obs = [(R + 'type_checked' + s, z3.BoolVal(self.compat()))]
        if self.compat():
            got = r.attrs.get('_default_value')
            if self.kind in ('DOUBLE', 'DISCRETE'):
                ok = z3.is_expr(got) and got.sort() == xreal.XReal or isinstance(got, float)
                obs.append((R + 'converted' + s, z3.And(z3.BoolVal(bool(ok)), xreal.lift(got) == num_term(d)) if ok else z3.BoolVal(False)))
            elif self.kind == 'INTEGER':
                ok = (z3.is_expr(got) and got.sort() in (z3.IntSort(), z3.BoolSort())) or isinstance(got, int)
                if ok and self.dtag != 'float':
                    obs.append((R + 'converted' + s, xreal.lift(got) == num_term(d)))
                elif ok:
                    gx, dx = xreal.r(xreal.lift(got)), xreal.r(E.to_z3(d))
                    obs.append((R + 'converted' + s, z3.And(xreal.is_fin(E.to_z3(d)), gx - dx <= 1, dx - gx <= 1)))
                else:
                    obs.append((R + 'converted' + s, z3.BoolVal(False)))
            else:
                obs.append((R + 'converted' + s, z3.BoolVal(got is d)))
        return obs

    def on_violation(self, name, p, m):
        spec = {'INTEGER': {'bounds': (0, 5)}, 'DOUBLE': {'bounds': (0.0, 5.0)}}.get(self.kind)
        job = {'kind': 'factory', 'name': enc('p'), 'default': enc(model_scalar(m, p.run.d))}
        return {'job': job, 'note': 'default-value clauses are not evaluated natively'}, None


def _dom_from(ptype, lo=None, hi=None, fv=None):
    d = Dom.__new__(Dom)
    d.ptype, d.lo, d.hi, d.fv = ptype, lo, hi, fv
    return d


class FactoryChildren:
    """factory(name, <domain>, children=[([v], child)]): children only under discrete parents and only under
    feasible parent values."""

    def __init__(self, kind, vtag):
        self.kind, self.vtag = kind, vtag
        self.sfx = '.%s.%s' % (kind, vtag)

    def entry(self, it):
        run = it.run
        run.it = it
        run.name = run.fresh('name', Str)
        run.assume(run.name != pm.str_lit(''))
        run.v = fresh_value(run, self.vtag, 'pv')
        kw = {}
        if self.kind == 'INTEGER':
            a, b = fresh_value(run, 'int', 'a'), fresh_value(run, 'int', 'b')
            run.assume(a <= b)
            kw['bounds'] = (a, b)
            run.dom = _dom_from('INTEGER', a, b)
        elif self.kind == 'DOUBLE':
            a, b = fresh_value(run, 'float', 'a'), fresh_value(run, 'float', 'b')
            run.assume(z3.And(xreal.is_fin(a), xreal.is_fin(b), xreal.r(a) <= xreal.r(b)))
            kw['bounds'] = (a, b)
            run.dom = _dom_from('DOUBLE', a, b)
        else:
            kind = 'float' if self.kind == 'DISCRETE' else 'str'
            xs = fresh_list(run, kind, 'xs', min_len=1)
            run.axiom(distinct_formula(xs))
            if kind == 'float':
                i = z3.Int('i!cf')
                run.axiom(z3.ForAll([i], z3.Implies(z3.And(i >= 0, i < xs.n), xreal.is_fin(xs.arr[i]))))
            kw['feasible_values'] = xs
            run.dom = _dom_from(self.kind, fv=M.snapshot(xs))
        child = call_factory(it, 'c', bounds=(0, 1))
        run.child = child
        kw['children'] = [([run.v], child)]
        return call_factory(it, run.name, **kw)

    def post(self, p):
        run = p.run
        R, s = 'C16.factory.', self.sfx
        if self.kind == 'DOUBLE':
            return [(R + 'rejects.children_under_double' + s, z3.BoolVal(p.kind == 'raise'))]
        mem = member(run.dom, run.v)
        lemmas = sorted_lemmas(run, R + 'children.lemma.sorted_is_permutation' + s)
        if p.kind == 'raise':
            return lemmas + [(R + 'children.accepts_feasible_parent_value' + s, z3.Not(mem))]
        obs = lemmas + [(R + 'children.rejects_infeasible_parent_value' + s, mem)]
        r = p.value
        ch = r.attrs.get('_children')
        ok = isinstance(ch, M.PyDict) and len(ch) == 1
        att = z3.BoolVal(False)
        if ok:
            key, sub = ch.items()[0]
            cfgs = sub.attrs.get('_parameter_configs') if isinstance(sub, Obj) else None
            if isinstance(cfgs, M.PyDict) and len(cfgs) == 1:
                cname, cpc = cfgs.items()[0]
                mpv = cpc.attrs.get('_matching_parent_values')
                if cname == 'c' and cpc is not run.child and isinstance(mpv, tuple) and len(mpv) == 1:
                    if self.kind == 'CATEGORICAL':
                        vs = E.to_z3(run.v)
                        if self.vtag in ('str', 'bool') and z3.is_expr(E.to_z3(key)) and E.to_z3(key).sort() == Str and E.to_z3(mpv[0]).sort() == Str:
                            want = vs if self.vtag == 'str' else z3.If(vs, pm.str_lit(TRUE_S), pm.str_lit(FALSE_S))
                            att = z3.And(E.to_z3(key) == want, E.to_z3(mpv[0]) == want)
                    elif self.vtag != 'str' and all(tag_of(x) != 'str' for x in (key, mpv[0])):
                        att = z3.And(xreal.lift(E.to_z3(key)) == num_term(run.v), xreal.lift(E.to_z3(mpv[0])) == num_term(run.v))
        obs.append((R + 'children.attached_under_value' + s, att))
        return obs

    def on_violation(self, name, p, m):
        return {'note': 'children replays are not generated', 'parent_value': repr(model_scalar(m, p.run.v))}, None


class FactoryChildrenMulti(FactoryChildren):
    """factory(name, <domain>, children=[([v1, v2], child)]): ONE declaration with several parent values.  The child
    must be attached under EVERY declared parent value, each attached child is its own object (a deep copy: neither
    the caller's child nor the copy attached under another value) and reports exactly its own matching parent value
    (SearchSpace.add writes `_matching_parent_values` into the object it is given: sharing one object between two
    subspaces makes the last write visible through both)."""

    def __init__(self, kind, vtag, bound=None):
        FactoryChildren.__init__(self, kind, vtag)
        self.sfx = '.multi.%s.%s' % (kind, vtag)
        self.bound = bound

    def bounded(self, k):
        return FactoryChildrenMulti(self.kind, self.vtag, k + 1) if self.kind != 'INTEGER' else None

    def entry(self, it):
        run = it.run
        run.it = it
        run.name = run.fresh('name', Str)
        run.assume(run.name != pm.str_lit(''))
        run.v, run.v2 = fresh_value(run, self.vtag, 'pv1'), fresh_value(run, self.vtag, 'pv2')
        kw = {}
        if self.kind == 'INTEGER':
            a, b = fresh_value(run, 'int', 'a'), fresh_value(run, 'int', 'b')
            run.assume(a <= b)
            kw['bounds'] = (a, b)
            run.dom = _dom_from('INTEGER', a, b)
        else:
            kind = 'float' if self.kind == 'DISCRETE' else 'str'
            xs = fresh_list(run, kind, 'xs', min_len=1, bound=self.bound)
            if self.bound is None:
                run.axiom(distinct_formula(xs))
                if kind == 'float':
                    i = z3.Int('i!cf')
                    run.axiom(z3.ForAll([i], z3.Implies(z3.And(i >= 0, i < xs.n), xreal.is_fin(xs.arr[i]))))
            else:
                # model query: the same precondition, quantifier-free at the concrete length
                for a_ in range(self.bound):
                    if kind == 'float':
                        run.assume(xreal.is_fin(xs.arr[a_]))
                    for b_ in range(a_ + 1, self.bound):
                        run.assume(z3.Not(elem_eq(xs.arr[a_], xs.arr[b_])))
            kw['feasible_values'] = xs
            run.dom = _dom_from(self.kind, fv=M.snapshot(xs))
        child = call_factory(it, 'c', bounds=(0, 1))
        run.child = child
        kw['children'] = [([run.v, run.v2], child)]
        return call_factory(it, run.name, **kw)

    def distinct_values(self, run):
        k1, k2 = internal_key(self.kind, run.v), internal_key(self.kind, run.v2)
        if self.kind == 'INTEGER' and self.vtag == 'float':
            return xreal.r(E.to_z3(run.v)) != xreal.r(E.to_z3(run.v2))
        return k1 != k2

    def post(self, p):
        run = p.run
        R, s = 'C16.factory.', self.sfx
        mem = z3.And(member(run.dom, run.v), member(run.dom, run.v2))
        lemmas = sorted_lemmas(run, R + 'children.lemma.sorted_is_permutation' + s)
        if p.kind == 'raise':
            # two declared values naming the same subspace would attach the child twice (duplicate name): also rejected
            return lemmas + [(R + 'children.accepts_feasible_parent_value' + s, z3.Not(z3.And(mem, self.distinct_values(run))))]
        obs = lemmas + [(R + 'children.rejects_infeasible_parent_value' + s, mem)]
        r = p.value
        ch = r.attrs.get('_children')
        att = own = z3.BoolVal(False)
        separate = False
        if isinstance(ch, M.PyDict) and len(ch) == 2:
            entries = []
            for key, sub in ch.items():
                cfgs = sub.attrs.get('_parameter_configs') if isinstance(sub, Obj) else None
                if isinstance(cfgs, M.PyDict) and len(cfgs) == 1 and cfgs.items()[0][0] == 'c':
                    entries.append((E.to_z3(key), cfgs.items()[0][1]))
            if len(entries) == 2:
                (k1, c1), (k2, c2) = entries
                separate = c1 is not c2 and c1 is not run.child and c2 is not run.child
                w1, w2 = internal_key(self.kind, run.v), internal_key(self.kind, run.v2)
                if w1 is not None and k1.sort() == w1.sort():
                    att = z3.Or(z3.And(k1 == w1, k2 == w2), z3.And(k1 == w2, k2 == w1))
                    mp = [c.attrs.get('_matching_parent_values') for c in (c1, c2)]
                    if all(isinstance(x, tuple) and len(x) == 1 and z3.is_expr(E.to_z3(x[0])) and E.to_z3(x[0]).sort() == k1.sort() for x in mp):
                        own = z3.And(E.to_z3(mp[0][0]) == k1, E.to_z3(mp[1][0]) == k2)
        obs.append((R + 'children.attached_under_value' + s, att))
        obs.append((R + 'children.each_copy_reports_its_own_parent_value' + s, own))
        obs.append((R + 'children.attached_children_are_separate_copies' + s, z3.BoolVal(bool(separate))))
        return obs

    def on_violation(self, name, p, m):
        run = p.run
        job = {'kind': 'children_multi', 'pc': dom_spec(m, run.dom), 'values': [enc(model_scalar(m, run.v)), enc(model_scalar(m, run.v2))]}
        return run_replay(job)


# =========================================================================================== D. SearchSpace.add
class MapSnap:
    def __init__(self, sm):
        self.n, self.karr, self.dom, self.val, self.pos = sm.n, sm.karr, sm.dom, sm.val, sm.pos


def config_wrap(run):
    """value wrapper of a symbolic name->ParameterConfig dict: stored instances keep their identity; unknown entries
    are abstract instances (a PyObj term; name/contains/children through their contracts)."""
    objs = run.__dict__.setdefault('cfg_objs', {})

    def wrap(term):
        term = z3.simplify(term)
        key = term.get_id()
        if key in objs:
            return objs[key]
        o = Obj(pcm().classes['ParameterConfig'], {})
        o.term = term
        o.abstract = True
        return o
    return wrap


def term_of_config(it, o):
    """PyObj term of a ParameterConfig instance stored into a symbolic dict (created on demand)."""
    run = it.run
    if getattr(o, 'term', None) is None:
        o.term = run.fresh('pcobj', pm.PyObj)
        if '_name' in o.attrs:
            run.assume(name_of(o.term) == E.to_z3(o.attrs['_name']))
        run.__dict__.setdefault('cfg_objs', {})[o.term.get_id()] = o
    return o.term


_prev_setitem2 = M.setitem_hook


def _setitem_hook2(it, base, idx, v):
    if isinstance(base, SymMap) and isinstance(v, Obj) and not z3.is_expr(getattr(v, 'term', None)) and base.vsort == pm.PyObj:
        term_of_config(it, v)
    return _prev_setitem2(it, base, idx, v)


M.setitem_hook = _setitem_hook2


def key_is_name(sm):
    """representation invariant of SearchSpace._parameter_configs ("parameter names are unique in any subspace"):
    every config is stored under its own name."""
    s = z3.Const('s!kn', Str)
    return z3.ForAll([s], z3.Implies(sm.dom[s], name_of(sm.val[s]) == s))


def make_space(it, name='cfgs', invariant=True):
    run = it.run
    sm = SymMap(run, name, pm.PyObj, config_wrap(run))
    if invariant:
        run.axiom(key_is_name(sm))
    space = A.make_instance(it, pcm().classes['SearchSpace'], _parameter_configs=sm, _parent_values=())
    return space, sm


def abstract_fallback(kind, qual, attr):
    """contract for abstract ParameterConfig instances; real code for structured instances."""
    key = '%s:%s' % (PCM, qual)

    def real(it, obj, args=(), kw=None):
        cls = pcm().classes[qual.split('.')[0]]
        fv = FuncVal(cls.mod, cls.methods[qual.split('.')[1]], cls)
        if kind == 'property':
            saved = E.PROPERTIES.pop(key)
            try:
                return it.invoke(fv, [obj], {})
            finally:
                E.PROPERTIES[key] = saved
        saved = E.MODELS.pop(key)
        try:
            return it.invoke(fv, [obj] + list(args), kw or {})
        finally:
            E.MODELS[key] = saved
    return key, real


_k_name, _real_name = abstract_fallback('property', 'ParameterConfig.name', 'name')


def _prop_name(it, obj):
    if getattr(obj, 'abstract', False):
        return name_of(obj.term)
    return _real_name(it, obj)


E.PROPERTIES[_k_name] = _prop_name

_k_contains, _real_contains = abstract_fallback('method', 'ParameterConfig.contains', 'contains')


def _model_contains(it, args, kw):
    obj = args[0]
    if getattr(obj, 'abstract', False):
        # contract of ParameterConfig.contains (proved per type and tag: C16.contains.iff.* / raises_nothing.*):
        # returns member(pc, value), raises nothing
        v = args[1]
        return member_uf(obj.term, E.to_z3(v))
    return _real_contains(it, obj, args[1:], kw)


E.MODELS[_k_contains] = _model_contains

_k_cond, _real_cond = abstract_fallback('property', 'SearchSpace.is_conditional', 'is_conditional')


def conditional_formula(sm):
    i = z3.Int('i!cd')
    return z3.Exists([i], z3.And(i >= 0, i < sm.n, has_children(sm.val[sm.karr[i]])))


def _prop_is_conditional(it, obj):
    sm = obj.attrs.get('_parameter_configs')
    if isinstance(sm, SymMap):
        # contract of SearchSpace.is_conditional: some stored config has child parameters (checked on the real code
        # by the native enumeration stand-in)
        it.run.assumed.add('SearchSpace.is_conditional <=> some parameter config of the space has child parameter configs (contract; real code exercised by the native stand-in)')
        return conditional_formula(sm)
    return _real_cond(it, obj)


E.PROPERTIES[_k_cond] = _prop_is_conditional


class SpaceAdd:
    def __init__(self, replace):
        self.replace = replace
        self.sfx = '.replace' if replace else ''

    def entry(self, it):
        run = it.run
        run.it = it
        space, sm = make_space(it)
        run.sm, run.m0 = sm, MapSnap(sm)
        run.dom = Dom(run, 'INTEGER')
        run.cfg = make_pc(it, run.dom)
        run.space = space
        kw = {'replace': True} if self.replace else {}
        return call_method(it, space, 'add', [run.cfg], kw)

    def post(self, p):
        run = p.run
        R, s = 'C16.SearchSpace.add.', self.sfx
        m0, m1 = run.m0, MapSnap(run.sm)
        name = E.to_z3(run.cfg.attrs['_name'])
        same_space = run.space.attrs.get('_parameter_configs') is run.sm
        if p.kind == 'raise':
            return [(R + 'rejects_only_duplicate_name' + s, z3.And(m0.dom[name], z3.BoolVal(not self.replace))),
                    (R + 'reject_leaves_space_unchanged' + s, z3.And(z3.BoolVal(same_space), m1.dom == m0.dom, m1.val == m0.val, m1.n == m0.n, m1.karr == m0.karr))]
        t = getattr(run.cfg, 'term', None)
        obs = [(R + 'rejects.duplicate_name' + s, z3.Or(z3.Not(m0.dom[name]), z3.BoolVal(self.replace)))]
        if t is None or not same_space:
            return obs + [(R + 'effect' + s, z3.BoolVal(False))]
        obs.append((R + 'effect' + s, z3.And(m1.dom == z3.Store(m0.dom, name, True), m1.val == z3.Store(m0.val, name, t),
                                             m1.n == z3.If(m0.dom[name], m0.n, m0.n + 1), z3.BoolVal(p.value is run.cfg))))
        k = z3.Const('k!ad', Str)
        obs.append((R + 'names_stay_unique' + s, z3.Implies(m1.dom[k], name_of(m1.val[k]) == k)))
        return obs

    def on_violation(self, name, p, m):
        run = p.run
        nm = model_str(m, run.cfg.attrs['_name'])
        existed = z3.is_true(m.eval(run.m0.dom[E.to_z3(run.cfg.attrs['_name'])], model_completion=True))
        return run_replay({'kind': 'space_add', 'existing': [nm] if existed else ['other'], 'name': nm, 'replace': self.replace})


# =========================================================================================== E. add_*_param
def make_root(it):
    space, sm = make_space(it)
    sel = A.make_instance(it, pcm().classes['SearchSpaceSelector'], _selected=(space,))
    return sel, space, sm


def unchanged(m0, m1):
    return z3.And(m1.dom == m0.dom, m1.val == m0.val, m1.n == m0.n, m1.karr == m0.karr)


def added_config(run, m0, m1):
    """(key term, stored instance) of the single config added by a builder, or None."""
    objs = getattr(run, 'cfg_objs', {})
    new = [o for o in objs.values() if o is not getattr(run, 'cfg', None)]
    if len(new) != 1:
        return None
    return new[0]


class AddParam:
    """common part of the SearchSpaceSelector.add_*_param contracts on a root selector over a symbolic space."""
    builder = None

    def call(self, it, sel, name, run):
        raise NotImplementedError

    def entry(self, it):
        run = it.run
        run.it = it
        sel, space, sm = make_root(it)
        run.sm, run.m0 = sm, MapSnap(sm)
        run.name = run.fresh('name', Str)
        return self.call(it, sel, run)

    def index_kw(self, run):
        if self.index:
            run.index = fresh_value(run, 'int', 'index')
            return {'index': run.index}
        run.index = None
        return {}

    def common_post(self, p, valid, sfx, type_name, extra_return):
        """valid: z3 formula over the inputs *excluding* name freshness (needs the created name)."""
        run = p.run
        R = 'C16.add_%s_param.' % self.builder
        m0, m1 = run.m0, MapSnap(run.sm)
        lemmas = sorted_lemmas(run, R + 'lemma.sorted_is_permutation' + sfx)
        if p.kind == 'raise':
            obs = lemmas + [(R + 'reject_leaves_space_unchanged' + sfx, unchanged(m0, m1))]
            if run.index is None:
                obs.append((R + 'accepts_valid' + sfx, z3.Not(z3.And(valid, z3.Not(m0.dom[run.name])))))
            else:
                # with an index the created name is name[index]; a raise is justified by an invalid input or by
                # *some* existing parameter (the name clash itself is checked on the return paths)
                obs.append((R + 'accepts_valid' + sfx, z3.Not(z3.And(valid, m0.n == 0))))
            return obs
        o = added_config(run, m0, m1)
        if o is None:
            return [(R + 'effect' + sfx, z3.BoolVal(False))]
        pname = E.to_z3(o.attrs['_name'])
        obs = lemmas + [(R + 'rejects.invalid' + sfx, valid),
               (R + 'rejects.duplicate_name' + sfx, z3.Not(m0.dom[pname])),
               (R + 'effect' + sfx, z3.And(m1.dom == z3.Store(m0.dom, pname, True), m1.val == z3.Store(m0.val, pname, o.term), m1.n == m0.n + 1)),
               (R + 'normalises.type_inferred' + sfx, z3.BoolVal(has_type(run.it, o, type_name) if isinstance(type_name, str) else False) if isinstance(type_name, str) else type_name(o)),
               ]
        if run.index is None:
            obs.append((R + 'rejects.empty_name' + sfx, run.name != pm.str_lit('')))
            obs.append((R + 'normalises.name_kept' + sfx, pname == run.name))
        else:
            obs.append((R + 'rejects.negative_index' + sfx, run.index >= 0))
        return obs + extra_return(o)

    def on_violation(self, name, p, m):
        return {'note': 'see model; add_*_param replays are built for the listed inputs only', 'inputs': self.describe(p, m)}, None

    def describe(self, p, m):
        return {}


class AddFloat(AddParam):
    builder = 'float'

    def __init__(self, ta, tb, index=False):
        self.ta, self.tb, self.index = ta, tb, index
        self.sfx = '.%s.%s%s' % (ta, tb, '.index' if index else '')

    def call(self, it, sel, run):
        run.a, run.b = fresh_value(run, self.ta, 'a'), fresh_value(run, self.tb, 'b')
        return call_method(it, sel, 'add_float_param', [run.name, run.a, run.b], self.index_kw(run))

    def post(self, p):
        run = p.run
        a, b = num_term(run.a), num_term(run.b)
        nonempty = run.name != pm.str_lit('') if run.index is None else z3.BoolVal(True)   # 'name[i]' is never empty
        valid = z3.And(nonempty, xreal.is_fin(a), xreal.is_fin(b), xreal.r(a) <= xreal.r(b))
        if run.index is not None:
            valid = z3.And(valid, run.index >= 0)

        def extra(o):
            bd = o.attrs.get('_bounds')
            okb = isinstance(bd, tuple) and len(bd) == 2 and all(z3.is_expr(x) and x.sort() == xreal.XReal or isinstance(x, float) for x in bd)
            f = z3.And(xreal.lift(bd[0]) == a, xreal.lift(bd[1]) == b, xreal.is_fin(a), xreal.is_fin(b), xreal.le(a, b)) if okb else z3.BoolVal(False)
            return [('C16.add_float_param.normalises.bounds_finite_ordered' + self.sfx, f)]
        return self.common_post(p, valid, self.sfx, 'DOUBLE', extra)

    def on_violation(self, name, p, m):
        run = p.run
        nm = model_str(m, run.name)
        kw = {'index': enc(model_scalar(m, run.index))} if run.index is not None else {}
        clash = z3.is_true(m.eval(run.m0.dom[run.name], model_completion=True)) and run.index is None
        job = {'kind': 'add_param', 'builder': 'float', 'existing': [nm] if clash else [],
               'args': [enc(nm), enc(model_scalar(m, run.a)), enc(model_scalar(m, run.b))], 'kw': kw}
        a, b = model_scalar(m, run.a), model_scalar(m, run.b)
        import math
        ok = bool(nm) and not clash and all(math.isfinite(float(x)) for x in (a, b)) and float(a) <= float(b) and (run.index is None or model_scalar(m, run.index) >= 0)
        job['expect_reject'] = not ok
        return run_replay(job)


class AddInt(AddParam):
    builder = 'int'

    def __init__(self, ta, tb, index=False):
        self.ta, self.tb, self.index = ta, tb, index
        self.sfx = '.%s.%s%s' % (ta, tb, '.index' if index else '')

    def call(self, it, sel, run):
        run.a, run.b = fresh_value(run, self.ta, 'a'), fresh_value(run, self.tb, 'b')
        return call_method(it, sel, 'add_int_param', [run.name, run.a, run.b], self.index_kw(run))

    def post(self, p):
        run = p.run
        a, b = num_term(run.a), num_term(run.b)
        fin = z3.And(xreal.is_fin(a), xreal.is_fin(b))
        # strictly valid input: integral finite bounds in order (must be accepted); accepted input: finite bounds
        # whose stored integer bounds are ordered and within 1 of the given numbers ("ints given as floats")
        nonempty = run.name != pm.str_lit('') if run.index is None else z3.BoolVal(True)
        strict = z3.And(nonempty, fin, z3.IsInt(xreal.r(a)), z3.IsInt(xreal.r(b)), xreal.r(a) <= xreal.r(b))
        weak = z3.And(nonempty, fin)
        if run.index is not None:
            strict, weak = z3.And(strict, run.index >= 0), z3.And(weak, run.index >= 0)
        R = 'C16.add_int_param.'
        if p.kind == 'raise':
            return self.common_post(p, strict, self.sfx, 'INTEGER', None)

        def extra(o):
            bd = o.attrs.get('_bounds')
            okb = isinstance(bd, tuple) and len(bd) == 2 and all((z3.is_expr(x) and x.sort() in (z3.IntSort(), z3.BoolSort())) or isinstance(x, int) for x in bd)
            if not okb:
                return [(R + 'normalises.bounds_finite_ordered' + self.sfx, z3.BoolVal(False))]
            lo, hi = xreal.r(xreal.lift(bd[0])), xreal.r(xreal.lift(bd[1]))
            near = lambda x, y: z3.And(x - y < 1, y - x < 1)
            return [(R + 'normalises.bounds_finite_ordered' + self.sfx, z3.And(lo <= hi, near(lo, xreal.r(a)), near(hi, xreal.r(b))))]
        return self.common_post(p, weak, self.sfx, 'INTEGER', extra)


class AddDiscrete(AddParam):
    builder = 'discrete'
    index = False

    def __init__(self, auto_cast, bound=None):
        self.auto_cast, self.bound = auto_cast, bound
        self.sfx = '.auto_cast_%s' % auto_cast

    def bounded(self, k):
        return AddDiscrete(self.auto_cast, k)

    def call(self, it, sel, run):
        run.index = None
        run.xs = fresh_list(run, 'float', 'xs', bound=self.bound)
        run.xs0 = M.snapshot(run.xs)
        kw = {} if self.auto_cast is None else {'auto_cast': self.auto_cast}
        return call_method(it, sel, 'add_discrete_param', [run.name, run.xs], kw)

    def post(self, p):
        run = p.run
        xs = run.xs0
        i, j = z3.Int('i!ap'), z3.Int('j!ap')
        fin = z3.ForAll([i], z3.Implies(z3.And(i >= 0, i < xs.n), xreal.is_fin(xs.arr[i])))
        valid = z3.And(run.name != pm.str_lit(''), z3.Or(xs.n == 0, z3.And(fin, distinct_formula(xs))))
        R = 'C16.add_discrete_param.'

        def type_ok(o):
            return z3.If(xs.n > 0, z3.BoolVal(has_type(run.it, o, 'DISCRETE')), z3.BoolVal(has_type(run.it, o, 'CUSTOM')))

        def extra(o):
            fv = as_symlist(o.attrs.get('_feasible_values'), 'float')
            if not isinstance(fv, SymList):
                return [(R + 'normalises.sorted_unique' + self.sfx, z3.BoolVal(False))]
            inr = lambda k, n: z3.And(k >= 0, k < n)
            obs = [(R + 'normalises.sorted_unique' + self.sfx,
                    z3.ForAll([i, j], z3.Implies(z3.And(i >= 0, i < j, j < fv.n), xreal.lt(fv.arr[i], fv.arr[j]))))]
            hint = find_sorted(run, fv, xs)
            if hint is not None:
                perm, inv = hint
                same = z3.And(fv.n == xs.n,
                              z3.ForAll([i], z3.Implies(inr(i, xs.n), z3.And(inr(inv(i), fv.n), fv.arr[inv(i)] == xs.arr[i]))),
                              z3.ForAll([j], z3.Implies(inr(j, fv.n), z3.And(inr(perm(j), xs.n), fv.arr[j] == xs.arr[perm(j)]))))
            else:
                same = z3.And(fv.n == xs.n,
                              z3.ForAll([i], z3.Implies(inr(i, xs.n), z3.Exists([j], z3.And(inr(j, fv.n), fv.arr[j] == xs.arr[i])))),
                              z3.ForAll([j], z3.Implies(inr(j, fv.n), z3.Exists([i], z3.And(inr(i, xs.n), fv.arr[j] == xs.arr[i])))))
            obs.append((R + 'normalises.same_values' + self.sfx, same))
            return obs
        return self.common_post(p, valid, self.sfx, type_ok, extra)

    def on_violation(self, name, p, m):
        run = p.run
        nm = model_str(m, run.name)
        vals = model_list(m, run.xs0)
        clash = z3.is_true(m.eval(run.m0.dom[run.name], model_completion=True))
        import math
        ok = bool(nm) and not clash and all(math.isfinite(x) for x in vals) and len(set(vals)) == len(vals)
        job = {'kind': 'add_param', 'builder': 'discrete', 'existing': [nm] if clash else [],
               'args': [enc(nm), {'items': [enc(x) for x in vals]}], 'kw': {} if self.auto_cast is None else {'auto_cast': self.auto_cast},
               'expect_reject': not ok}
        return run_replay(job)


class AddCategorical(AddParam):
    builder = 'categorical'
    index = False

    def __init__(self, kind, bound=None):
        self.kind, self.bound = kind, bound            # 'str' | 'float' (numbers given where strings are required)
        self.sfx = '.strings' if kind == 'str' else '.numbers'

    def bounded(self, k):
        return AddCategorical(self.kind, k)

    def call(self, it, sel, run):
        run.index = None
        run.xs = fresh_list(run, self.kind, 'xs', bound=self.bound)
        run.xs0 = M.snapshot(run.xs)
        return call_method(it, sel, 'add_categorical_param', [run.name, run.xs])

    def post(self, p):
        run = p.run
        xs = run.xs0
        i, j = z3.Int('i!ac'), z3.Int('j!ac')
        R = 'C16.add_categorical_param.'
        if self.kind != 'str':
            valid = z3.And(run.name != pm.str_lit(''), xs.n == 0)
            return self.common_post(p, valid, self.sfx, lambda o: z3.BoolVal(has_type(run.it, o, 'CUSTOM')), lambda o: [])
        valid = z3.And(run.name != pm.str_lit(''), z3.Or(xs.n == 0, distinct_formula(xs)))

        def type_ok(o):
            return z3.If(xs.n > 0, z3.BoolVal(has_type(run.it, o, 'CATEGORICAL')), z3.BoolVal(has_type(run.it, o, 'CUSTOM')))

        def extra(o):
            fv = as_symlist(o.attrs.get('_feasible_values'), 'str')
            if not isinstance(fv, SymList):
                return [(R + 'normalises.sorted_unique' + self.sfx, z3.BoolVal(False))]
            inr = lambda k, n: z3.And(k >= 0, k < n)
            obs = [(R + 'normalises.sorted_unique' + self.sfx,
                    z3.ForAll([i, j], z3.Implies(z3.And(i >= 0, i < j, j < fv.n), M.str_lt(fv.arr[i], fv.arr[j]))))]
            hint = find_sorted(run, fv, xs)
            if hint is not None:
                perm, inv = hint
                same = z3.And(fv.n == xs.n,
                              z3.ForAll([i], z3.Implies(inr(i, xs.n), z3.And(inr(inv(i), fv.n), fv.arr[inv(i)] == xs.arr[i]))),
                              z3.ForAll([j], z3.Implies(inr(j, fv.n), z3.And(inr(perm(j), xs.n), fv.arr[j] == xs.arr[perm(j)]))))
            else:
                same = z3.And(fv.n == xs.n,
                              z3.ForAll([i], z3.Implies(inr(i, xs.n), z3.Exists([j], z3.And(inr(j, fv.n), fv.arr[j] == xs.arr[i])))),
                              z3.ForAll([j], z3.Implies(inr(j, fv.n), z3.Exists([i], z3.And(inr(i, xs.n), fv.arr[j] == xs.arr[i])))))
            obs.append((R + 'normalises.same_values' + self.sfx, same))
            return obs
        return self.common_post(p, valid, self.sfx, type_ok, extra)


def _categorical_loop_invariant(it, fr, ctx):
    # for value in feasible_values: if not isinstance(value, str): raise  -- every element seen so far is a str
    # (all elements of an array-list have one sort: for a list of numbers no element can have been passed)
    ok = isinstance(ctx.iter, SymList) and ctx.iter.elem == 'str'
    return [('seen_are_str', z3.BoolVal(True) if ok else ctx.i <= 0)]


E.LOOPS[(PCM, 'SearchSpaceSelector.add_categorical_param', 1)] = E.LoopSpec(_categorical_loop_invariant)


class AddBool(AddParam):
    builder = 'bool'
    index = False

    def __init__(self, k):
        self.k = k                  # None: feasible_values omitted; else number of booleans given (0..3)
        self.sfx = '.default' if k is None else '.len%d' % k

    def call(self, it, sel, run):
        run.index = None
        if self.k is None:
            run.bs = None
            return call_method(it, sel, 'add_bool_param', [run.name])
        run.bs = [fresh_value(run, 'bool', 'b%d' % i) for i in range(self.k)]
        return call_method(it, sel, 'add_bool_param', [run.name, list(run.bs)])

    def post(self, p):
        run = p.run
        R = 'C16.add_bool_param.'
        bs = run.bs
        if bs is None:
            shape_ok, has_t, has_f = z3.BoolVal(True), z3.BoolVal(True), z3.BoolVal(True)
        else:
            shape_ok = z3.BoolVal(len(bs) == 1) if len(bs) != 2 else bs[0] != bs[1]
            has_t = z3.Or(*bs) if bs else z3.BoolVal(False)
            has_f = z3.Or(*[z3.Not(b) for b in bs]) if bs else z3.BoolVal(False)
        valid = z3.And(run.name != pm.str_lit(''), shape_ok)

        def extra(o):
            fv = o.attrs.get('_feasible_values')
            if not (isinstance(fv, list) and all(isinstance(x, str) for x in fv)):
                return [(R + 'normalises.sorted_unique' + self.sfx, z3.BoolVal(False))]
            srt = all(fv[i] < fv[i + 1] for i in range(len(fv) - 1))
            return [(R + 'normalises.sorted_unique' + self.sfx, z3.BoolVal(srt)),
                    (R + 'normalises.same_values' + self.sfx, z3.And(z3.BoolVal(TRUE_S in fv) == has_t, z3.BoolVal(FALSE_S in fv) == has_f,
                                                                       z3.BoolVal(set(fv) <= {TRUE_S, FALSE_S})))]
        return self.common_post(p, valid, self.sfx, 'CATEGORICAL', extra)


# =========================================================================================== F. SearchSpace.assert_contains
def pv_wrap(run):
    def wrap(term):
        o = Obj(trm().classes['ParameterValue'], {})
        o.term = term
        o.abstract = True
        return o
    return wrap


def make_parameter_dict(it, name='params'):
    run = it.run
    sm = SymMap(run, name, pm.PyObj, pv_wrap(run))
    return A.make_instance(it, trm().classes['ParameterDict'], _items=sm), sm


def cardinality_lemmas(A_, B_):
    """Finite-set cardinality facts about two symbolic dicts (n = number of pairwise distinct keys = |dom|):
    Finset.card_le_card and eq_of_subset_card (lean/C13.lean, Mathlib) -- z3 has no induction; trusted, listed."""
    s = z3.Const('s!cl', Str)
    sub = lambda X, Y: z3.ForAll([s], z3.Implies(X.dom[s], Y.dom[s]))
    out = []
    for X, Y in ((A_, B_), (B_, A_)):
        out.append(z3.Implies(sub(X, Y), X.n <= Y.n))
        out.append(z3.Implies(z3.And(sub(X, Y), Y.n <= X.n), sub(Y, X)))
    return out


def accepted_spec(C, P):
    """the property: every parameter present once with a member value, and nothing else present."""
    s = z3.Const('s!as', Str)
    return z3.And(z3.ForAll([s], C.dom[s] == P.dom[s]),
                  z3.ForAll([s], z3.Implies(C.dom[s], member_uf(C.val[s], P.val[s]))))


def _assert_contains_invariant(it, fr, ctx):
    params, space = fr.env['parameters'], fr.env['self']
    P, C = params.attrs['_items'], space.attrs['_parameter_configs']
    if not (isinstance(P, SymMap) and isinstance(C, SymMap)):
        raise Unsupported('assert_contains loop contract needs symbolic dicts')
    j = z3.Int('j!ac')
    key = lambda k: C.karr[k]
    return [('seen_present_and_member',
             z3.ForAll([j], z3.Implies(z3.And(j >= 0, j < ctx.i), z3.And(P.dom[key(j)], member_uf(C.val[key(j)], P.val[key(j)])))))]


E.LOOPS[(PCM, 'SearchSpace.assert_contains', 1)] = E.LoopSpec(_assert_contains_invariant)


class AssertContains:
    def __init__(self, method):
        self.method = method        # 'assert_contains' | 'contains'

    def entry(self, it):
        run = it.run
        run.it = it
        space, C = make_space(it)
        params, P = make_parameter_dict(it)
        run.C, run.P = MapSnap(C), MapSnap(P)
        run.Cm, run.Pm = C, P
        for ax in cardinality_lemmas(run.C, run.P):
            run.axiom(ax)
        return call_method(it, space, self.method, [params])

    def post(self, p):
        run = p.run
        R = 'C16.%s.' % ('assert_contains' if self.method == 'assert_contains' else 'SearchSpace.contains')
        C, P = run.C, run.P
        cond = conditional_formula(C)
        acc = accepted_spec(C, P)
        frame = z3.And(unchanged(C, MapSnap(run.Cm)), unchanged(P, MapSnap(run.Pm)))
        s = z3.Const('s!ls', Str)
        obs = [(R + 'frame', frame)]
        if p.kind == 'raise':
            cls = exc_class(p)
            obs.append((R + 'raises_only_documented', z3.BoolVal(cls in (('InvalidParameterError', 'NotImplementedError') if self.method == 'assert_contains' else ('NotImplementedError',)))))
            if cls == 'NotImplementedError':
                obs.append((R + 'conditional_refused', cond))
            else:
                obs.append((R + 'iff', z3.Not(acc)))
            return obs
        obs.append((R + 'conditional_refused', z3.Not(cond)))
        if self.method == 'assert_contains' or p.value is True:
            obs.append((R + 'iff', z3.ForAll([s], z3.Implies(C.dom[s], z3.And(P.dom[s], member_uf(C.val[s], P.val[s])))), 'lemma'))
            obs.append((R + 'iff', z3.And(acc, z3.BoolVal(p.value is True))))
        else:
            obs.append((R + 'iff', z3.And(z3.Not(acc), z3.BoolVal(p.value is False))))
        return obs

    def on_violation(self, name, p, m):
        return {'note': 'abstract model (symbolic dicts, contract of ParameterConfig.contains); see the native enumeration stand-in for concrete inputs'}, None


# =========================================================================================== G. clients.Study.add_trial
class AddTrial:
    def entry(self, it):
        run = it.run
        run.it = it
        space, C = make_space(it)
        params, P = make_parameter_dict(it)
        run.C, run.P = MapSnap(C), MapSnap(P)
        for ax in cardinality_lemmas(run.C, run.P):
            run.axiom(ax)
        sc = Obj('opaque:StudyConfig', {'search_space': space})
        trial = Obj('opaque:vz.Trial', {'parameters': params})

        def get_study_config(it_, args, kw):
            it_.run.event('GetStudyConfig')
            return sc

        def add_trial(it_, args, kw):
            it_.run.event('CreateTrial', args[0] is trial)
            return Obj('opaque:vz.Trial', {'id': it_.run.fresh('trial_id', z3.IntSort())})
        client = Obj('opaque:VizierClient', {'study_resource_name': run.fresh('study_name', Str),
                                             'get_study_config': Builtin('get_study_config', get_study_config),
                                             'add_trial': Builtin('add_trial', add_trial)})
        cli = ModuleInfo.get(CLI)
        study = A.make_instance(it, cli.classes['Study'], _client=client)
        return call_method(it, study, 'add_trial', [trial])

    def post(self, p):
        run = p.run
        R = 'C16.add_trial.'
        acc = z3.And(accepted_spec(run.C, run.P), z3.Not(conditional_formula(run.C)))
        creates = [e for e in run.events if e[0] == 'CreateTrial']
        s = z3.Const('s!lt', Str)
        if p.kind == 'raise':
            return [(R + 'refused_trial_is_not_created', z3.BoolVal(not creates)),
                    (R + 'accepts_in_space', z3.Not(acc))]
        C, P = run.C, run.P
        return [(R + 'refuses_outside_space', z3.ForAll([s], z3.Implies(C.dom[s], z3.And(P.dom[s], member_uf(C.val[s], P.val[s])))), 'lemma'),
                (R + 'refuses_outside_space', acc),
                (R + 'creates_exactly_the_given_trial', z3.BoolVal(len(creates) == 1 and creates[0][1] is True))]

    def on_violation(self, name, p, m):
        # a concrete out-of-space trial on a local RAM service
        job = {'kind': 'add_trial', 'study_id': 'c16_%d' % os.getpid(),
               'space': [{'ptype': 'INTEGER', 'name': 'x', 'bounds': [enc(0), enc(3)]}], 'parameters': {'x': enc(7)}}
        return run_replay(job)


# =========================================================================================== driver
class Scoped:
    """records obligations into the Check under C16.* names (loop obligations of the engine get the prefix and the
    calling context as suffix)."""

    def __init__(self, chk, suffix=''):
        self.chk, self.suffix = chk, suffix

    def obligation(self, name, *a, **k):
        if not name.startswith('C16.'):
            name = 'C16.' + name + self.suffix
        return self.chk.obligation(name, *a, **k)

    def __getattr__(self, a):
        return getattr(self.chk, a)


FUNCTIONS = [
    (TRM, 'ParameterType.assert_correct_type'), (TRM, 'ParameterType.is_numeric'), (TRM, 'ParameterType._raise_type_error'),
    (TRM, 'ParameterValue.cast_as_internal'), (TRM, 'ParameterValue.as_float'), (TRM, 'ParameterValue.as_int'), (TRM, 'ParameterValue.as_str'),
    (TRM, 'ParameterDict.__getitem__'), (TRM, 'ParameterDict.__len__'),
    (PCM, 'ParameterConfig.contains'), (PCM, 'ParameterConfig._assert_feasible'), (PCM, 'ParameterConfig._assert_bounds'),
    (PCM, 'ParameterConfig._assert_in_feasible_values'), (PCM, 'ParameterConfig.bounds'), (PCM, 'ParameterConfig.feasible_values'),
    (PCM, 'ParameterConfig.num_feasible_values'), (PCM, 'ParameterConfig.factory'), (PCM, 'ParameterConfig._add_children'),
    (PCM, 'ParameterConfig.subspace'), (PCM, 'ParameterConfig.get_subspace_deepcopy'), (PCM, '_validate_bounds'), (PCM, '_get_feasible_points_and_bounds'), (PCM, '_get_categories'),
    (PCM, '_get_default_value'), (PCM, 'SearchSpace.add'), (PCM, 'SearchSpace.contains'), (PCM, 'SearchSpace.assert_contains'),
    (PCM, 'SearchSpaceSelector.add_float_param'), (PCM, 'SearchSpaceSelector.add_int_param'), (PCM, 'SearchSpaceSelector.add_discrete_param'),
    (PCM, 'SearchSpaceSelector.add_categorical_param'), (PCM, 'SearchSpaceSelector.add_bool_param'),
    (PCM, 'SearchSpaceSelector._get_parameter_names_to_create'), (PCM, 'SearchSpaceSelector._multi_dimensional_parameter_name'),
    (PCM, 'SearchSpaceSelector._add_parameters'), (PCM, 'ParameterConfigSelector.__init__'),
    (CLI, 'Study.add_trial'), (CLI, 'Study._trial_client'),
]

F4 = 'C16.contains.raises_nothing.INTEGER.float'


def stale_note(chk, text):
    """a recorded finding whose witness does not reproduce (or crashes) on this tree: a plain NOTE, never an error"""
    chk.note('NOTE ' + text)
    print('NOTE property=%s %s' % (chk.pid, text[:600]))


def start_native(args, tag, driver=None):
    """background run of the replay driver (bounded stand-ins / finding witnesses) on the real code"""
    d = os.path.join(report.OUT, 'c16')
    os.makedirs(d, exist_ok=True)
    out = open(os.path.join(d, 'native_%s_%d.out' % (tag, os.getpid())), 'w+')
    pr = subprocess.Popen(['/venv/bin/python', driver or REPLAY] + list(args), stdout=out, stderr=subprocess.STDOUT, env=dict(os.environ))
    return pr, out


def collect_native(h, timeout=300):
    pr, out = h
    try:
        pr.wait(timeout=timeout)
    except subprocess.TimeoutExpired:
        pr.kill()
        return None, 'timeout', ''
    out.seek(0)
    lines = [l for l in out.read().splitlines() if l.strip() and 'WARNING' not in l]
    out.close()
    if len(lines) < 2 or lines[-1].strip() not in ('REPRODUCED', 'NOT-REPRODUCED'):
        return None, 'driver error', '\n'.join(lines[-8:])
    try:
        return json.loads(lines[-2]), lines[-1].strip(), ''
    except ValueError:
        return None, 'driver error', lines[-2][:500]


class Collector:
    """buffers the obligation records of one family so that an undecided proof query can be followed by the bounded
    model query (DESIGN 2.5) before anything is reported."""

    def __init__(self, chk):
        self.chk, self.records = chk, []

    def obligation(self, name, function, backend, result, time_s=0.0, **kw):
        self.records.append([name, function, backend, result, time_s, kw])

    def assume(self, text):
        self.chk.assume(text)

    def __getattr__(self, a):
        return getattr(self.chk, a)

    def flush(self):
        for name, function, backend, result, time_s, kw in self.records:
            self.chk.obligation(name, function, backend, result, time_s, **kw)


def model_query(col, fname, obj, sfx, tier, known, timeout, scope=None):
    """for every undecided obligation of a list family: the same contract at concrete small list lengths; a definite
    `sat` there (replayed on the real code) is a violation, anything else leaves the verdict undecided."""
    und = {r[0] for r in col.records if r[3] == report.UNDECIDED}
    if not und or not hasattr(obj, 'bounded'):
        return
    for k in ((1, 2, 3) if tier == 'quick' else (1, 2, 3, 4, 5)):
        sub = Collector(col.chk)
        b = obj.bounded(k)
        if b is None:
            return
        verify.verify_function((scope or Scoped)(sub, sfx or ''), fname, b.entry, b.post, known=known, on_violation=b.on_violation,
                               witness_terms=witness_terms, timeout_ms=timeout, deadline_s=60)
        have = {r[0] for r in col.records if r[3] == report.VIOLATED}
        for rec in sub.records:
            if rec[3] != report.VIOLATED:
                continue
            if isinstance(rec[5].get('detail'), dict):
                rec[5]['detail'] = dict(rec[5]['detail'], query='bounded model query at size %d (proof query was undecided)' % k)
            if rec[0] in und:
                col.records = [r for r in col.records if r[0] != rec[0]] + [rec]
                und.discard(rec[0])
            elif rec[0] not in have and any('.loop' in u for u in und):
                # an undecided loop obligation of the proof query: the same contract refuted at a concrete size
                col.records = [r for r in col.records if r[0] != rec[0]] + [rec]
                have.add(rec[0])
        if not und:
            return


def families(tier):
    fams = []
    for pt in TYPES + ('CUSTOM',):
        for tag in TAGS:
            fams.append(('ParameterType.assert_correct_type', act_entry(pt, tag), act_post(pt, tag), replay_act(pt, tag), None, None))
    for pt in TYPES:
        for tag in TAGS:
            for w in (False, True):
                fams.append(('ParameterConfig.contains', contains_entry(pt, tag, w), contains_post(pt, tag, w), replay_contains(pt, tag, w), None, None))
    objs = []
    for ta in TAGS:
        for tb in TAGS:
            objs.append(('ParameterConfig.factory', FactoryBounds(ta, tb)))
    objs += [('ParameterConfig.factory', FactoryArity(k)) for k in (0, 1, 3)]
    objs += [('ParameterConfig.factory', x) for x in (FactoryFeasible('float'), FactoryFeasible('str'), FactoryFeasible('float', True),
                                                     FactoryMixed(0), FactoryMixed(1))]
    objs += [('ParameterConfig.factory', FactoryDefault(k, t)) for k in TYPES + ('CUSTOM',) for t in TAGS]
    objs += [('ParameterConfig.factory', FactoryChildren(k, t)) for k in TYPES for t in TAGS]
    objs += [('ParameterConfig.factory', FactoryChildrenMulti(k, t)) for k, t in (('INTEGER', 'int'), ('INTEGER', 'float'), ('INTEGER', 'bool'), ('DISCRETE', 'float'),
                                                                                 ('DISCRETE', 'int'), ('CATEGORICAL', 'str'), ('CATEGORICAL', 'bool'))]
    objs += [('SearchSpace.add', SpaceAdd(False)), ('SearchSpace.add', SpaceAdd(True))]
    num = ('bool', 'int', 'float')
    objs += [('SearchSpaceSelector.add_float_param', AddFloat(a, b, ix)) for a in num for b in num for ix in (False, True)]
    objs += [('SearchSpaceSelector.add_int_param', AddInt(a, b, ix)) for a in num for b in num for ix in (False, True)]
    objs += [('SearchSpaceSelector.add_discrete_param', AddDiscrete(x)) for x in (None, True, False)]
    objs += [('SearchSpaceSelector.add_categorical_param', AddCategorical('str')), ('SearchSpaceSelector.add_categorical_param', AddCategorical('float'))]
    objs += [('SearchSpaceSelector.add_bool_param', AddBool(k)) for k in (None, 0, 1, 2, 3)]
    objs += [('ParameterConfig.' + mth, Subspace(mth, k, t)) for mth in ('get_subspace_deepcopy', 'subspace') for k in TYPES for t in TAGS]
    objs += [('SearchSpace.assert_contains', AssertContains('assert_contains')), ('SearchSpace.contains', AssertContains('contains')),
             ('Study.add_trial', AddTrial())]
    for fname, o in objs:
        sfx = '@' + type(o).__name__ + getattr(o, 'sfx', '')
        fams.append((fname, o.entry, o.post, o.on_violation, sfx, o))
    return fams


def main(tier):
    chk = report.Check('C16', tier, level='proof',
                       technique='contract-based deductive verification: real ASTs executed symbolically (pyvc), per-tag value split, '
                                 'array-lists of symbolic length, oracle from the property statement, z3')
    for t in A.TRUST + ['pyvc VC generator and its Python models (DESIGN 2, 4); array-list models of set/len, sorted, all/any, round in '
                        'comprehensions (contracts/c16.py, "array-list library models")',
                        'z3 5.1.0',
                        'finite-set cardinality lemmas Finset.card_le_card / eq_of_subset_card (lean/C13.lean, Mathlib) used by C16.assert_contains.iff',
                        'str.format/f-strings with symbolic arguments are uninterpreted functions, non-empty when the template has literal text']:
        chk.trust(t)
    for a in ASSUMPTIONS + [
            'CUSTOM parameters (no bounds, no feasible values; documented type) have no domain: membership obligations cover DOUBLE, INTEGER, DISCRETE, CATEGORICAL',
            'an empty feasible_values sequence counts as "not given" (the code and the documented CUSTOM type agree)',
            'C16.assert_contains/add_trial are proved modularly: ParameterConfig.contains by its contract (C16.contains.iff/raises_nothing, incl. the recorded '
            'OverflowError finding), ParameterConfig.name = stored key (SearchSpace.add invariant C16.SearchSpace.add.names_stay_unique)',
            'the client object of clients.Study is opaque: get_study_config returns the study\'s search space, add_trial is the CreateTrial call']:
        chk.assume(a)
    for dotted, q in FUNCTIONS:
        chk.function(dotted, q)
    chk.function(ITM, 'SequentialParameterBuilder._coroutine', role='bounded stand-in only (generator with send: outside the engine)')
    # ---- native side (real code under /venv/bin/python), in the background
    depth = '3'
    natives = {'findings': start_native(['findings'], 'findings'),
               'assert_contains': start_native(['standin_assert_contains'], 'ac')}
    for tg in ('0', '1', '2', '3'):
        natives['builder' + tg] = start_native(['standin_builder', depth, tg], 'b' + tg)
    # ---- deductive side
    f4 = chk.finding_for(F4)
    f4pv = chk.finding_for(F4 + '.pv')
    known = {}
    if f4:
        known[F4] = (f4['what'], overflow_class)
    if f4pv:
        known[F4 + '.pv'] = (f4pv['what'], overflow_class)
    timeout = 6000 if tier == 'quick' else 60000
    inlined = set()
    for fname, entry, post, onv, sfx, obj in families(tier):
        col = Collector(chk)
        fr = verify.verify_function(Scoped(col, sfx or ''), fname, entry, post, known=known, on_violation=onv, witness_terms=witness_terms,
                                    timeout_ms=timeout, deadline_s=120)
        model_query(col, fname, obj, sfx, tier, known, timeout)
        col.flush()
        inlined |= fr.inlined
    chk.extra['inlined_real_functions'] = sorted(inlined)
    # ---- collect the native side
    res, verdict, err = collect_native(natives['findings'])
    if known:
        if verdict != 'REPRODUCED':
            stale_note(chk, 'the recorded finding (contains(inf) on INTEGER raises OverflowError) did not reproduce on this tree: %s %s' % (verdict, err or res))
        else:
            chk.note('finding witness replayed on the real code: %s' % json.dumps(res))
    elif verdict == 'REPRODUCED':
        chk.note('contains(+-inf) on INTEGER raises OverflowError natively (no recorded finding entry)')
    if res and res.get('row18_default_outside_bounds_accepted') is not None:
        chk.note('DESIGN 10 row 18 (default 5.0 accepted for bounds [0,1]) reproduced natively; default-in-domain is a C03 matter, no C16 obligation')
    res, verdict, err = collect_native(natives['assert_contains'])
    if res is None:
        chk.error('C16.standin.assert_contains', 'native enumeration did not run: %s %s' % (verdict, err))
    elif res['n_failures']:
        chk.obligation('C16.assert_contains.native_enumeration', 'SearchSpace.assert_contains', 'native-enumeration', report.VIOLATED, 0.0,
                       detail=res['failures'][0], model=json.dumps(res['failures'][0]), replay={'cmd': '/venv/bin/python %s standin_assert_contains' % REPLAY, 'first_failure': res['failures'][0]},
                       reproduced=True)
    else:
        chk.bounded_standin('SearchSpace.assert_contains/contains on the real code (incl. the real is_conditional, ParameterDict, ParameterConfig.contains)',
                            'all flat spaces of <= 2 parameters over 4 types x all assignments of <= 3 keys over a 14-value pool (wrong types, bools vs "True", '
                            'ints as floats, inf/nan, missing and extra keys); 5 assignments on a conditional space (refused)',
                            'held', detail={k: res[k] for k in ('cases', 'known_finding_cases', 'conditional_refused')})
    total = {'spaces': 0, 'runs': 0}
    bfail, empty = None, None
    for tg in ('0', '1', '2', '3'):
        res, verdict, err = collect_native(natives['builder' + tg])
        if res is None:
            chk.error('C16.standin.SequentialParameterBuilder', 'native enumeration did not run: %s %s' % (verdict, err))
            bfail = 'error'
            break
        total['spaces'] += res['spaces']
        total['runs'] += res['runs']
        empty = res.get('empty_space')
        if res['failures'] and bfail is None:
            bfail = res['failures'][0]
    if bfail not in (None, 'error'):
        chk.obligation('C16.SequentialParameterBuilder.visits_exactly_active', 'SequentialParameterBuilder._coroutine', 'native-enumeration', report.VIOLATED, 0.0,
                       detail=bfail, model=json.dumps(bfail), replay={'cmd': '/venv/bin/python %s standin_builder %s' % (REPLAY, depth), 'first_failure': bfail}, reproduced=True)
    elif bfail is None:
        chk.bounded_standin('SequentialParameterBuilder (generator driven by send) on the real code: visited parameters == active parameters, each once; built ParameterDict == choices',
                            'all conditional spaces of the family: depth <= 3, <= 2 children per parent value (one parent + one leaf), parents CATEGORICAL/INTEGER/DISCRETE/BOOLEAN '
                            'in 4 rotations, 1-2 top-level parameters; every choice sequence; dfs and bfs; parent values supplied in their internal types and in their '
                            'external Python types (bool for boolean, float for integer, int for discrete parameters)', 'held', detail=total)
        fe = chk.finding_for('C16.SequentialParameterBuilder.empty_space')
        if empty and not empty.startswith('visited'):
            if fe:
                chk.obligation('C16.SequentialParameterBuilder.empty_space', 'SequentialParameterBuilder.__init__', 'native-enumeration', report.KNOWN, 0.0,
                               detail='constructor raises %s on an empty search space' % empty, finding=fe['what'])
            else:
                chk.obligation('C16.SequentialParameterBuilder.empty_space', 'SequentialParameterBuilder.__init__', 'native-enumeration', report.VIOLATED, 0.0,
                               detail='constructor raises %s on an empty search space' % empty, model='SequentialParameterBuilder(SearchSpace())',
                               replay={'cmd': '/venv/bin/python %s standin_builder 1' % REPLAY}, reproduced=True)
        elif fe:
            stale_note(chk, 'the recorded finding (SequentialParameterBuilder on an empty space raises) did not reproduce on this tree (%s)' % empty)
    return chk.finish(min_obligations=250)


# =========================================================================================== H. subspaces by parent value
def space_wrap(run):
    """value wrapper of a symbolic value->SearchSpace dict (ParameterConfig._children): stored instances keep their
    identity; unknown entries are abstract SearchSpace instances carrying their term."""
    objs = run.__dict__.setdefault('cfg_objs', {})

    def wrap(term):
        term = z3.simplify(term)            # select(store(a, k, t), k) is t: a stored instance is found again
        key = term.get_id()
        if key not in objs:
            o = Obj(pcm().classes['SearchSpace'], {'__term__': term})
            o.term = term
            o.abstract = True
            objs[key] = o
        return objs[key]
    return wrap


KEY_SORT = {'INTEGER': z3.IntSort(), 'DISCRETE': xreal.XReal, 'CATEGORICAL': Str}


def internal_key(ptype, v):
    """the internal representation of a (member) value, from the property: ints for INTEGER, floats for DISCRETE,
    strings for CATEGORICAL with True/False standing for 'True'/'False'"""
    t = tag_of(v)
    z = E.to_z3(v)
    if ptype == 'INTEGER':
        return E.as_int(z) if t in ('bool', 'int') else (z3.ToInt(xreal.r(z)) if t == 'float' else None)
    if ptype == 'DISCRETE':
        return xreal.lift(z) if t != 'str' else None
    if t == 'str':
        return z
    if t == 'bool':
        return z3.If(z, pm.str_lit(TRUE_S), pm.str_lit(FALSE_S))
    return None


class Subspace:
    """ParameterConfig.get_subspace_deepcopy(value) / subspace(value): the subspace of a parent value is the child
    registered under the value's internal representation (a bool selects the 'True'/'False' child, an int given as float
    the int child); infeasible values are rejected; get_subspace_deepcopy returns a copy and registers nothing."""

    def __init__(self, method, ptype, tag):
        self.method, self.ptype, self.tag = method, ptype, tag
        self.sfx = '.%s.%s' % (ptype, tag)

    def entry(self, it):
        run = it.run
        run.it = it
        run.dom = Dom(run, self.ptype)
        cfg = make_pc(it, run.dom)
        if self.ptype == 'DOUBLE':
            run.ch = None
        else:
            run.ch = SymMap(run, 'children', pm.PyObj, space_wrap(run), ksort=KEY_SORT[self.ptype])
            cfg.attrs['_children'] = run.ch
            run.ch0 = MapSnap(run.ch)
        run.cfg = cfg
        run.v = fresh_value(run, self.tag)
        return call_method(it, cfg, self.method, [run.v])

    def post(self, p):
        run = p.run
        R, s = 'C16.%s.' % self.method, self.sfx
        if self.ptype == 'DOUBLE':
            if self.method == 'subspace':
                return [(R + 'continuous_has_no_subspace' + s, z3.BoolVal(p.kind == 'raise'))]
            r = p.value
            empty = p.kind == 'return' and isinstance(r, Obj) and isinstance(r.attrs.get('_parameter_configs'), M.PyDict) and len(r.attrs['_parameter_configs']) == 0
            return [(R + 'continuous_has_no_subspace' + s, z3.BoolVal(bool(empty)))]
        mem = member(run.dom, run.v)
        ch0, ch1 = run.ch0, MapSnap(run.ch)
        same_map = run.cfg.attrs.get('_children') is run.ch
        if p.kind == 'raise':
            return [(R + 'rejects_only_infeasible' + s, z3.Not(mem)),
                    (R + 'reject_registers_nothing' + s, z3.And(z3.BoolVal(same_map), unchanged(ch0, ch1)))]
        r = p.value
        key = internal_key(self.ptype, run.v)
        obs = [(R + 'rejects_infeasible' + s, mem)]
        if key is None or not isinstance(r, Obj):
            return obs + [(R + 'selects_registered_child' + s, z3.BoolVal(False))]
        stored = [o for o in getattr(run, 'cfg_objs', {}).values()]
        is_real_empty = isinstance(r.attrs.get('_parameter_configs'), M.PyDict) and len(r.attrs['_parameter_configs']) == 0
        if self.method == 'get_subspace_deepcopy':
            if '__term__' in r.attrs:
                sel = z3.And(ch0.dom[key], r.attrs['__term__'] == ch0.val[key])
            else:
                sel = z3.And(z3.Not(ch0.dom[key]), z3.BoolVal(bool(is_real_empty)))
            obs.append((R + 'selects_registered_child' + s, sel))
            obs.append((R + 'returns_a_copy' + s, z3.BoolVal(all(r is not o for o in stored))))
            obs.append((R + 'registers_nothing' + s, z3.And(z3.BoolVal(same_map), unchanged(ch0, ch1))))
            return obs
        # subspace(): the registered child itself, or a newly registered empty subspace for this parent value
        if getattr(r, 'abstract', False):
            obs.append((R + 'selects_registered_child' + s, z3.And(ch0.dom[key], r.term == ch0.val[key], z3.BoolVal(same_map), unchanged(ch0, ch1))))
        else:
            t = getattr(r, 'term', None)
            pv = r.attrs.get('_parent_values')
            ok = t is not None and same_map and is_real_empty and isinstance(pv, tuple) and len(pv) == 1 and z3.is_expr(E.to_z3(pv[0])) \
                and E.to_z3(pv[0]).sort() == key.sort()
            if not ok:
                obs.append((R + 'selects_registered_child' + s, z3.BoolVal(False)))
            else:
                obs.append((R + 'selects_registered_child' + s, z3.And(
                    z3.Not(ch0.dom[key]), ch1.dom == z3.Store(ch0.dom, key, True), ch1.val == z3.Store(ch0.val, key, t), ch1.n == ch0.n + 1,
                    E.to_z3(pv[0]) == key)))
        return obs

    def on_violation(self, name, p, m):
        run = p.run
        key = internal_key(self.ptype, run.v) if self.ptype != 'DOUBLE' else None
        job = {'kind': 'subspace', 'method': self.method, 'pc': dom_spec(m, run.dom), 'value': enc(model_scalar(m, run.v)), 'child_key': None}
        if key is not None and z3.is_true(m.eval(run.ch0.dom[key], model_completion=True)):
            job['child_key'] = enc(model_scalar(m, key))
        return run_replay(job)
