"""C19 -- the vectorised acquisition optimiser returns in-bounds candidates, the best it evaluated.

Contract-based deductive verification of the REAL source of
    vizier/_src/algorithms/optimizers/vectorized_base.py, eagle_strategy.py, random_vectorized_optimizer.py
(AST re-read from $VERIF_REPO on every run, executed by the pyvc symbolic engine; pyvc/jx_model.py supplies the
jnp / jax.lax / jax.random / tfd.Categorical primitives under ASSUMED contracts, each of which is additionally run against
the real library by replay/c19_conformance.py).

How the clauses of C19 are expressed
  * "for any score function": the score function is an uninterpreted function `score : Row -> XReal` of the candidate ROW
    (all n_parallel points x all padded feature dimensions), `Row` being an abstract sort of row contents with projections
    `rowc(row, p, d)`, `rowk(row, p, d)`.  Scoring a batch X returns rewards Y and ghost rows r with
    rowc(r(i), p, d) == X.continuous[i, p, d], rowk(r(i), p, d) == X.categorical[i, p, d], Y[i] == score(r(i)).
    "the reward reported for a candidate is the score of that candidate" is then: there is a row rho with
    reward == score(rho) whose contents are exactly the returned features.
  * PRNG outputs are arbitrary values of the documented range (uniform in [0, 1), Categorical within its support).
  * `lax.fori_loop` bodies are verified with the invariant rule on the real body function; `lax.cond` evaluates both
    branches; `jax.vmap` is the point-wise map.
  * every obligation is proved for symbolic shapes (counts, batch sizes, n_parallel, padded / unpadded feature counts,
    per-feature category counts).  An obligation that is not proved is re-examined on small CONCRETE shapes where every
    library fact and the obligation are quantifier-free: only a solver `sat` there is a violation (then replayed natively).

Sections (modular: each level is verified against the CONTRACT of the level below, which is itself proved from the real code)
  A  VectorizedOptimizer._update_best_results   full functional contract: count, same-index pairs (injective), top-k, monotone
  B  VectorizedOptimizer.__call__               against A's contract and the strategy INTERFACE contract: loop invariant on the
                                                real `_optimization_one_step` (fori_loop and python loop), result in bounds, padding
                                                zero, reward == score of the stored row, call-site obligations, key discipline
  C  VectorizedEagleStrategy                    suggest / update / init_state (+ prior pool population loop) / DefaultRandomSampler /
                                                DefaultProjection meet the interface contract and keep the state invariant;
                                                NaN-freedom of the mutation by value-class abstract interpretation
  D  RandomVectorizedStrategy, factories        in-bounds sampling; the factories establish the class invariants (bounded layouts)
  E  determinism                                read-frame analysis (as C14) + "every key derives from the seed argument"
Recorded open findings (known_findings.d/C19.json, each reproduced natively by replay/c19_replay.py witness <name>):
  nan_ranked_best, prior_not_merged, placeholder_returned, random_strategy_padding, random_normalization_nan.
Not claimed: "best of everything evaluated" for count > 1 (pigeonhole argument); proved for count == 1.
"""
import itertools
import json
import os
import subprocess
import sys
import time

import z3

from pyvc import engine as E, models as M, report, source, verify, xreal as X
from pyvc import attrs_model as AM
from pyvc import jx_model as J
from pyvc.engine import Obj, FuncVal, Builtin, Unsupported, PyRaise
from pyvc.jx_model import JArr, Clause, zi, conc, QA, QE
from pyvc.source import ModuleInfo

VB = 'vizier._src.algorithms.optimizers.vectorized_base'
ES = 'vizier._src.algorithms.optimizers.eagle_strategy'
RV = 'vizier._src.algorithms.optimizers.random_vectorized_optimizer'
TY = 'vizier._src.jax.types'

VERIF = os.path.dirname(os.path.dirname(os.path.abspath(__file__)))
REPLAY = os.path.join(VERIF, 'replay', 'c19_replay.py')
CONFORMANCE = os.path.join(VERIF, 'replay', 'c19_conformance.py')
OUT = os.path.join(VERIF, 'out', 'c19')
VENV_PY = '/venv/bin/python'

A_MATH = 'machine arithmetic treated as mathematical (no rounding, no overflow); IEEE specials (+-inf, NaN) are modelled exactly'
A_SCORE = ('the score function is a deterministic function of the candidate row (its n_parallel points over all padded feature '
           'dimensions) and of the fixed acquisition seed: it does not depend on the other rows of the batch')


# ------------------------------------------------------------------------------------------ helpers
def method(modname, qual):
    mod = ModuleInfo.get(modname)
    cls, node = mod.find(qual)
    return FuncVal(mod, node, cls)


def klass(modname, name):
    return ModuleInfo.get(modname).find_class(name)


def CC(cont, cat):
    return Obj(klass(TY, 'ContinuousAndCategorical'), {'continuous': cont, 'categorical': cat})


def dims(run, names, concrete=None, lows=None):
    """symbolic (default) or concrete extents; lows: name -> lower bound (default 0)."""
    out = {}
    for n in names:
        lo = (lows or {}).get(n, 0)
        if concrete is not None and n in concrete:
            out[n] = concrete[n]
        else:
            v = z3.Int(n)
            run.assume(v >= lo)
            out[n] = v
    return out


def feat_arrays(it, tag, n, d):
    return CC(J.fresh_array(it, tag + '_c', (n, d['P'], d['Dc']), 'float'), J.fresh_array(it, tag + '_k', (n, d['P'], d['Dk']), 'int'))


def cont_of(f):
    return f.attrs['continuous']


def cat_of(f):
    return f.attrs['categorical']


def shape_eq(got, want):
    if len(got) != len(want):
        return z3.BoolVal(False)
    cs = [zi(a) == zi(b) for a, b in zip(got, want)]
    return z3.And(*cs) if cs else z3.BoolVal(True)


def sk(run, name):
    return run.fresh('sk_' + name, z3.IntSort())


def rng(v, n):
    return z3.And(v >= 0, v < zi(n))


def not_nan(x):
    return z3.Not(X.is_nan(x))


# ------------------------------------------------------------------------------------------ A. _update_best_results
# spec: with ALL = new batch ++ old best (index space [0, B + count)):
#   count     : the result holds exactly `count` rewards and `count` feature rows of unchanged trailing shape
#   pairs     : there is an injective idx : [0, count) -> [0, B + count) with result.rewards[t] == ALL.rewards[idx t] and
#               result.features[t] == ALL.features[idx t]   (the same index selects reward and features)
#   topk      : rank(r) = -inf if r is NaN else r.  Every pair that is not selected has a rank <= the rank of every selected
#               pair: the result is the top `count` of the non-NaN rewards, NaN entries (ranked as -inf) only fill up
#   monotone  : for every old best reward there is a new best reward of at least its rank (the best real reward never decreases)
# While the finding `nan_ranked_best` is open AND reproduces, topk / monotone are stated as residuals (unless a selected reward is NaN).
UBR = 'VectorizedOptimizer._update_best_results'
F_NAN = ('_update_best_results ranks a NaN reward as the BEST: jnp.argpartition(-all_rewards, count-1) sorts a sign-negated NaN '
         'first, so candidates whose score is NaN displace every real candidate and are returned as the best results')


def rank(x):
    """NaN is not a number: it ranks as -inf."""
    return z3.If(X.is_nan(x), X.ninf, x)


NAN_FINDING_ACTIVE = [False]       # set by main(): the finding is listed open and its witness reproduces on the current tree
STRONG_MERGE = [True]              # the full (rank-based) top-k contract of _update_best_results was proved in section A


def ubr_entry(concrete=None):
    def entry(it):
        run = it.run
        d = dims(run, ['count', 'B', 'P', 'Dc', 'Dk'], concrete, {'count': 1, 'P': 1})
        cls = klass(VB, 'VectorizedOptimizer')
        best = Obj(klass(VB, 'VectorizedStrategyResults'),
                   {'features': feat_arrays(it, 'best', d['count'], d), 'rewards': J.fresh_array(it, 'best_r', (d['count'],), 'float'),
                    'aux': M.PyDict()})
        newf = feat_arrays(it, 'new', d['B'], d)
        newr = J.fresh_array(it, 'new_r', (d['B'],), 'float')
        run.c19 = {'d': d, 'best': best, 'newf': newf, 'newr': newr}
        return it.invoke(method(VB, UBR), [Obj(cls, {}), best, d['count'], newf, newr], {})
    return entry


def ubr_all(c):
    """the union ALL of the spec as total functions of the union index j."""
    d, best, newf, newr = c['d'], c['best'], c['newf'], c['newr']
    B = zi(d['B'])
    r = lambda j: z3.If(j < B, newr.at(j), best.attrs['rewards'].at(j - B))
    fc = lambda j, p, k: z3.If(j < B, cont_of(newf).at(j, p, k), cont_of(best.attrs['features']).at(j - B, p, k))
    fk = lambda j, p, k: z3.If(j < B, cat_of(newf).at(j, p, k), cat_of(best.attrs['features']).at(j - B, p, k))
    return r, fc, fk


def ubr_post(path):
    if path.kind == 'end':
        return []
    if path.kind != 'return':
        return [('C19._update_best_results.returns', z3.BoolVal(False))]
    run, res = path.run, path.value
    c = run.c19
    d = c['d']
    count, B, P, Dc, Dk = (d[k] for k in ('count', 'B', 'P', 'Dc', 'Dk'))
    N = zi(B) + zi(count)
    out = []
    try:
        rr, rf = res.attrs['rewards'], res.attrs['features']
        rc, rk = cont_of(rf), cat_of(rf)
        ok_shape = z3.And(shape_eq(rr.shape, (count,)), shape_eq(rc.shape, (count, P, Dc)), shape_eq(rk.shape, (count, P, Dk)))
    except (AttributeError, KeyError):
        return [('C19._update_best_results.count', z3.BoolVal(False))]
    out.append(('C19._update_best_results.count', ok_shape))
    allr, allc, allk = ubr_all(c)
    parts = getattr(run, 'jx_perms', [])       # selection permutations recorded by the argpartition / argsort contracts
    conc_shapes = all(conc(v) is not None for v in d.values())
    if conc_shapes:
        # quantifier-free twin: the existential over index maps is expanded
        n, k = conc(N), conc(count)
        rows = range(conc(P))
        maps = list(itertools.permutations(range(n), k))

        def pairs(m):
            cs = []
            for t in range(k):
                cs.append(rr.at(t) == allr(z3.IntVal(m[t])))
                for p in rows:
                    cs += [rc.at(t, p, e) == allc(z3.IntVal(m[t]), z3.IntVal(p), z3.IntVal(e)) for e in range(conc(Dc))]
                    cs += [rk.at(t, p, e) == allk(z3.IntVal(m[t]), z3.IntVal(p), z3.IntVal(e)) for e in range(conc(Dk))]
            return z3.And(*cs)

        def topk(m, residual):
            cs = []
            for j in range(n):
                if j in m:
                    continue
                for t in range(k):
                    a, b = rr.at(t), allr(z3.IntVal(j))
                    good = X.ge(rank(a), rank(b))
                    cs.append(z3.Or(good, X.is_nan(a)) if residual else good)
            return z3.And(*cs) if cs else z3.BoolVal(True)
        if z3.is_true(z3.simplify(ok_shape)):
            out.append(('C19._update_best_results.pairs', z3.Or(*[pairs(m) for m in maps])))
            out.append(('C19._update_best_results.topk', z3.Or(*[z3.And(pairs(m), topk(m, False)) for m in maps])))
            mono, mono_res = [], []
            for t0 in range(k):
                o = c['best'].attrs['rewards'].at(t0)
                mono.append(z3.Or(*[X.ge(rank(rr.at(t)), rank(o)) for t in range(k)]))
                mono_res.append(z3.Or(*[z3.Or(X.is_nan(rr.at(t)), X.ge(rank(rr.at(t)), rank(o))) for t in range(k)]))
            out.append(('C19._update_best_results.best_never_decreases', z3.And(*mono)))
            if NAN_FINDING_ACTIVE[0]:
                out.append(('C19._update_best_results.topk.residual', z3.Or(*[z3.And(pairs(m), topk(m, True)) for m in maps])))
                out.append(('C19._update_best_results.best_never_decreases.residual', z3.And(*mono_res)))
        return out
    if not parts:
        # no selection permutation recorded by the argpartition contract: nothing to instantiate the witness with
        out.append(('C19._update_best_results.pairs', z3.BoolVal(False)))
        return out
    p, q = parts[-1]['p'], parts[-1]['q']
    t, pp, e = sk(run, 't'), sk(run, 'p'), sk(run, 'd')
    t2 = sk(run, 't2')
    out.append(('C19._update_best_results.pairs.index_in_union', z3.Implies(rng(t, count), rng(p(t), N))))
    out.append(('C19._update_best_results.pairs.injective', z3.Implies(z3.And(rng(t, count), rng(t2, count), t != t2), p(t) != p(t2))))
    out.append(('C19._update_best_results.pairs.reward_of_selected_index', z3.Implies(rng(t, count), rr.at(t) == allr(p(t)))))
    out.append(('C19._update_best_results.pairs.continuous_of_same_index',
                z3.Implies(z3.And(rng(t, count), rng(pp, P), rng(e, Dc)), rc.at(t, pp, e) == allc(p(t), pp, e))))
    out.append(('C19._update_best_results.pairs.categorical_of_same_index',
                z3.Implies(z3.And(rng(t, count), rng(pp, P), rng(e, Dk)), rk.at(t, pp, e) == allk(p(t), pp, e))))
    j = sk(run, 'j')
    unsel = z3.And(rng(j, N), z3.Not(z3.And(rng(q(j), count), p(q(j)) == j)))       # j is not in the image of idx on [0, count)
    a, b = rr.at(t), allr(j)
    good = X.ge(rank(a), rank(b))
    out.append(('C19._update_best_results.topk', z3.Implies(z3.And(rng(t, count), unsel), good)))
    if NAN_FINDING_ACTIVE[0]:
        out.append(('C19._update_best_results.topk.residual', z3.Implies(z3.And(rng(t, count), unsel), z3.Or(good, X.is_nan(a)))))
    out.append(('C19._update_best_results.pairs.inverse_on_selected', z3.Implies(z3.And(rng(t, count), rng(j, N), p(t) == j), z3.And(rng(q(j), count), p(q(j)) == j))))
    o = c['best'].attrs['rewards'].at(t)
    wit = z3.If(rng(q(zi(B) + t), count), q(zi(B) + t), z3.IntVal(0))
    out.append(('C19._update_best_results.best_never_decreases', z3.Implies(rng(t, count), X.ge(rank(rr.at(wit)), rank(o)))))
    if NAN_FINDING_ACTIVE[0]:
        # residual of the NaN finding: the same clause unless the selected reward it talks about is NaN
        out.append(('C19._update_best_results.best_never_decreases.residual',
                    z3.Implies(rng(t, count), z3.Or(X.is_nan(rr.at(wit)), X.ge(rank(rr.at(wit)), rank(o))))))
    return out


# ------------------------------------------------------------------------------------------ B. VectorizedOptimizer.__call__
# The optimizer is verified against the INTERFACE contract of a vectorized strategy (modular verification):
#   suggest(seed, state, n_parallel) returns features of shape (batch, n_parallel, padded dims) whose continuous values lie
#   in [0, 1] and whose categorical value of feature d (d < number of real categorical features) lies in [0, size_d);
#   init_state / update return an opaque state.  Sections C and D prove that the Eagle and the random strategy meet it.
CALL = 'VectorizedOptimizer.__call__'
Row = z3.DeclareSort('Row')
ROWC = z3.Function('rowc', Row, z3.IntSort(), z3.IntSort(), X.XReal)
ROWK = z3.Function('rowk', Row, z3.IntSort(), z3.IntSort(), z3.IntSort())
SCORE = z3.Function('score', Row, X.XReal)
SIZES = z3.Function('categorical_size', z3.IntSort(), z3.IntSort())     # number of categories of the d-th categorical feature


def unit(x):
    return z3.And(X.is_fin(x), X.r(x) >= 0, X.r(x) <= 1)


def cat_ok(k, e, nk):
    """valid categorical value at (padded) feature position e: a category index of feature e, 0 on padding positions."""
    return z3.If(e < zi(nk), z3.And(k >= 0, k < SIZES(e)), k == 0)


def cont_ok(x, e, nc):
    return z3.If(e < zi(nc), unit(x), X.eq(x, X.lit(0.0)))


class CallCtx:
    """everything the models below record about one symbolic execution of __call__ (ghost state)."""

    def __init__(self, d):
        self.d = d
        self.score_calls = []       # dicts: rows (Int -> Row), n, cont, cat, out
        self.suggests, self.updates, self.inits = [], [], []


def padded_input(it, x):
    """(JArr of a PaddedArray record | JArr)"""
    return x.attrs['padded_array'] if isinstance(x, Obj) else x


def make_score_fn(ctx, with_aux=False):
    def score(it, args, kw):
        run = it.run
        mi = args[0]
        xc, xk = padded_input(it, mi.attrs['continuous']), padded_input(it, mi.attrs['categorical'])
        d = ctx.d
        squeezed = xc.rank == 2
        n = xc.shape[0]
        rows = J.fresh_fn(it, 'row', 1, Row)
        fc = (lambda i, p, e: xc.at(i, e)) if squeezed else (lambda i, p, e: xc.at(i, p, e))
        fk = (lambda i, p, e: xk.at(i, e)) if squeezed else (lambda i, p, e: xk.at(i, p, e))
        P = 1 if squeezed else xc.shape[1]
        J.fact(it, J.ALL(3, lambda i, p, e: ROWC(rows(i), p, e) == fc(i, p, e), shape=(n, P, xc.shape[-1]),
                         pats=lambda i, p, e: ROWC(rows(i), p, e)))
        J.fact(it, J.ALL(3, lambda i, p, e: ROWK(rows(i), p, e) == fk(i, p, e), shape=(n, P, xk.shape[-1]),
                         pats=lambda i, p, e: ROWK(rows(i), p, e)))
        out = JArr((n,), 'float', lambda i: SCORE(rows(i)))
        if getattr(ctx, 'scores_above_neg_inf', False):
            # hypothesis of the no-placeholder clause: the score function never returns -inf / NaN (which tie with the placeholders)
            J.fact(it, J.ALL(1, lambda i: z3.And(not_nan(SCORE(rows(i))), SCORE(rows(i)) != X.ninf), shape=(n,), pats=lambda i: SCORE(rows(i))))
        rec = {'rows': rows, 'n': n, 'cont': fc, 'cat': fk, 'out': out, 'P': P, 'mi': mi, 'seed': args[1] if len(args) > 1 else kw.get('seed'),
               'shape_c': xc.shape, 'shape_k': xk.shape, 'aux': with_aux}
        ctx.score_calls.append(rec)
        if with_aux:
            aux = M.PyDict()
            aux.set(it, 'aux_of_rows', JArr((n,), 'int', lambda i: z3.IntVal(0)))
            rec['aux_value'] = aux
            return (out, aux)
        return out
    return Builtin('score_with_aux_fn' if with_aux else 'score_fn', score)


def make_strategy(ctx):
    d = ctx.d

    def init_state(it, args, kw):
        ctx.inits.append({'seed': args[0] if args else kw.get('seed'), 'n_parallel': kw.get('n_parallel', args[1] if len(args) > 1 else 1),
                          'prior_features': kw.get('prior_features'), 'prior_rewards': kw.get('prior_rewards')})
        return Obj('StrategyState', {'_version': z3.IntVal(0)})

    def suggest(it, args, kw):
        seed = args[0] if args else kw.get('seed')
        npar = kw.get('n_parallel', args[2] if len(args) > 2 else 1)
        ctx.suggests.append({'seed': seed, 'n_parallel': npar, 'state': kw.get('state', args[1] if len(args) > 1 else None)})
        B, P, Dc, Dk = d['B'], d['P'], d['Dc'], d['Dk']
        c = J.fresh_array(it, 'sug_c', (B, P, Dc), 'float')
        k = J.fresh_array(it, 'sug_k', (B, P, Dk), 'int')
        J.fact(it, J.ALL(3, lambda i, p, e: unit(c.at(i, p, e)), shape=(B, P, Dc), pats=lambda i, p, e: c.at(i, p, e)))
        J.fact(it, J.ALL(3, lambda i, p, e: z3.Implies(z3.And(e >= 0, e < zi(d['nk'])), z3.And(k.at(i, p, e) >= 0, k.at(i, p, e) < SIZES(e))),
                         shape=(B, P, Dk), pats=lambda i, p, e: k.at(i, p, e)))
        return CC(c, k)

    def update(it, args, kw):
        ctx.updates.append({'seed': args[0], 'state': args[1], 'features': args[2], 'rewards': args[3]})
        return Obj('StrategyState', {'_version': it.run.fresh('state_version', z3.IntSort())})

    return Obj('AbstractVectorizedStrategy', {'init_state': Builtin('strategy.init_state', init_state),
                                             'suggest': Builtin('strategy.suggest', suggest),
                                             'update': Builtin('strategy.update', update)})


def call_entry(concrete=None, use_fori=True, prior=True, parallel=True, seeded=True, aux=False, track_evaluated=False, scores_above_neg_inf=False):
    def entry(it):
        run = it.run
        d = dims(run, ['count', 'B', 'P', 'Dc', 'Dk', 'nc', 'nk', 'M', 'Np', 'No'], concrete, {'count': 1, 'B': 1, 'P': 1, 'M': 1})
        run.assume(z3.And(zi(d['nc']) <= zi(d['Dc']), zi(d['nk']) <= zi(d['Dk']), zi(d['No']) <= zi(d['Np'])))
        if not parallel:
            if concrete is None or 'P' not in concrete:
                run.assume(zi(d['P']) == 1)
            d['P'] = 1
        ctx = CallCtx(d)
        run.c19 = ctx
        ctx.track_evaluated = track_evaluated
        ctx.scores_above_neg_inf = scores_above_neg_inf
        if track_evaluated and not STRONG_MERGE[0]:
            rho = z3.Const('rho!nn', Row)
            run.axiom(z3.ForAll([rho], z3.Not(X.is_nan(SCORE(rho))), patterns=[SCORE(rho)]))      # hypothesis of this clause: no NaN scores
        if concrete is not None and not track_evaluated and all(conc(v) is not None for v in d.values()):
            run.jx_unroll_fori = True
        J.fact(it, J.ALL(1, lambda e: SIZES(e) >= 1, shape=(d['Dk'],), pats=lambda e: SIZES(e)))     # every categorical feature has a category
        cls = klass(VB, 'VectorizedOptimizer')
        dt = CC(J.DType('float', 'float64'), J.DType('int', 'int32'))
        self = Obj(cls, {'strategy': make_strategy(ctx), 'n_feature_dimensions': CC(d['nc'], d['nk']),
                         'n_feature_dimensions_with_padding': CC(d['Dc'], d['Dk']), 'suggestion_batch_size': d['B'],
                         'max_evaluations': d['M'], 'dtype': dt, 'use_fori': use_fori})
        kw = {'count': d['count']}
        if prior:
            PA = klass(TY, 'PaddedArray')
            pc = J.fresh_array(it, 'prior_c', (d['Np'], d['Dc']), 'float')
            pk = J.fresh_array(it, 'prior_k', (d['Np'], d['Dk']), 'int')
            mk = lambda arr, nreal, fill: Obj(PA, {'padded_array': arr, 'fill_value': fill,
                                                   '_original_shape': J.as_arr(it, [d['No'], nreal]),
                                                   '_mask': J.fresh_array(it, 'prior_mask', arr.shape, 'bool'), '_nopadding_done': False})
            kw['prior_features'] = CC(mk(pc, d['nc'], X.nan), mk(pk, d['nk'], z3.IntVal(-1)))
            ctx.prior = (pc, pk)
        if parallel:
            kw['n_parallel'] = d['P']
        if seeded:
            kw['seed'] = z3.Const('seed', J.Key)
        if aux:
            kw['score_with_aux_fn'] = make_score_fn(ctx, with_aux=True)
        ctx.kw = kw
        return it.invoke(method(VB, CALL), [self, make_score_fn(ctx)], kw)
    return entry


# ---- contract of _update_best_results (proved in section A from the real code) used while verifying __call__
def ubr_model(it, args, kw):
    """MODEL = the contract proved in section A: the result rows are the rows idx(0..count-1) of ALL = new batch ++ old best,
    idx injective with partial inverse inv; every unselected pair has a reward <= every selected reward unless a NaN is involved."""
    self, best, count, newf, newr = (list(args) + [kw.get(k) for k in ('best_results', 'count', 'batch_features', 'batch_rewards')][len(args) - 1:])[:5]
    run = it.run
    br, bf = best.attrs['rewards'], best.attrs['features']
    B, cnt = newr.shape[0], zi(count)
    Bz = zi(B)
    N = Bz + zi(br.shape[0])
    # preconditions of the contract (shapes of the operands agree)
    pre = z3.And(shape_eq(cont_of(newf).shape[1:], cont_of(bf).shape[1:]), shape_eq(cat_of(newf).shape[1:], cat_of(bf).shape[1:]),
                 shape_eq(cont_of(newf).shape[:1], (B,)), shape_eq(cat_of(newf).shape[:1], (B,)), cnt >= 1, cnt <= N)
    run.oblige('C19.__call__._update_best_results.precondition', pre)
    idx, inv = J.fresh_fn(it, 'idx', 1, z3.IntSort()), J.fresh_fn(it, 'idx_inv', 1, z3.IntSort())
    allr = lambda j: z3.If(j < Bz, newr.at(j), br.at(j - Bz))
    allc = lambda j, p, e: z3.If(j < Bz, cont_of(newf).at(j, p, e), cont_of(bf).at(j - Bz, p, e))
    allk = lambda j, p, e: z3.If(j < Bz, cat_of(newf).at(j, p, e), cat_of(bf).at(j - Bz, p, e))
    J.fact(it, J.ALL(1, lambda t: z3.Implies(rng(t, cnt), z3.And(rng(idx(t), N), inv(idx(t)) == t)), shape=(count,), pats=lambda t: idx(t)))
    sel = lambda j: z3.And(rng(inv(j), cnt), idx(inv(j)) == j)
    rr = JArr((count,), 'float', lambda t: allr(idx(t)))
    rc = JArr((count,) + tuple(cont_of(bf).shape[1:]), 'float', lambda t, p, e: allc(idx(t), p, e))
    rk = JArr((count,) + tuple(cat_of(bf).shape[1:]), 'int', lambda t, p, e: allk(idx(t), p, e))
    if STRONG_MERGE[0]:
        topk = lambda t, j: z3.Implies(z3.And(rng(t, cnt), rng(j, N), z3.Not(sel(j))), X.ge(rank(rr.at(t)), rank(allr(j))))
    else:       # only the residual of the NaN finding is available
        topk = lambda t, j: z3.Implies(z3.And(rng(t, cnt), rng(j, N), z3.Not(sel(j))), z3.Or(X.is_nan(rr.at(t)), X.ge(rank(rr.at(t)), rank(allr(j)))))
    J.fact(it, J.ALL(2, topk, shape=(count, J.norm(N)), pats=lambda t, j: z3.MultiPattern(idx(t), inv(j))))
    rec = {'idx': idx, 'inv': inv, 'B': B, 'count': count, 'allr': allr, 'sel': sel, 'old': best, 'newf': newf, 'newr': newr, 'topk': topk}
    run.__dict__.setdefault('c19_merges', []).append(rec)
    res = Obj(klass(VB, 'VectorizedStrategyResults'), {'rewards': rr, 'features': CC(rc, rk), 'aux': M.PyDict()})
    res.merge = rec
    return res


UBR_KEY = VB + ':' + UBR


def _best_parts(carry):
    """(rewards, continuous, categorical) of the loop-carried best results, or None if the structure is not as expected."""
    try:
        best = carry[1]
        rr, f = best.attrs['rewards'], best.attrs['features']
        rc, rk = cont_of(f), cat_of(f)
        if not all(isinstance(a, JArr) for a in (rr, rc, rk)):
            return None
        return rr, rc, rk
    except (AttributeError, KeyError, IndexError, TypeError):
        return None


class RowClause(Clause):
    """forall rho : Row. body(rho) -- assumed with the given pattern, proved for a fresh Skolem row."""

    def __init__(self, name, body, pat):
        Clause.__init__(self, name, (), None)
        self.rbody, self.rpat = body, pat

    def formula(self):
        rho = z3.Const('rho!%d' % next(J._uid), Row)
        return z3.ForAll([rho], self.rbody(rho), patterns=[self.rpat(rho)])

    def goal(self, it):
        run = getattr(it, 'run', it)
        return self.rbody(run.fresh('sk_row', Row))


def call_invariant(it, carry, i, ctx):
    """loop invariant of the suggest-evaluate-update loop over carry = (strategy state, best results, PRNG key)."""
    run = it.run
    cc = run.c19
    d = cc.d
    count, P, Dc, Dk, nc, nk = (d[k] for k in ('count', 'P', 'Dc', 'Dk', 'nc', 'nk'))
    parts = _best_parts(carry) if isinstance(carry, tuple) and len(carry) == 3 else None
    if parts is None or not J.is_key(carry[2]):
        return [Clause('structure', (), lambda: z3.BoolVal(False))]
    rr, rc, rk = parts
    phase = ctx['phase']
    if ctx.get('upper') is not None:
        cc.steps = zi(ctx['upper']) - zi(ctx['lower'])
    if phase == 'init':
        ev, g = (lambda t: z3.BoolVal(False)), (lambda t: z3.Const('row_none', Row))
    elif phase in ('head', 'exit'):
        ev, g = J.fresh_fn(it, 'evaluated', 1, z3.BoolSort()), J.fresh_fn(it, 'row_of', 1, Row)
        ctx['ghost_' + phase] = (ev, g)
        cc.ghost = (ev, g)
    else:
        ev0, g0 = ctx['ghost_head']
        merges = getattr(run, 'c19_merges', [])
        best = carry[1]
        m = getattr(best, 'merge', None)
        sc = cc.score_calls[-1] if cc.score_calls else None
        if m is None or sc is None:
            # the new best results are not the result of the merge contract / nothing was scored: no witness for the ghost
            return [Clause('structure', (), lambda: z3.BoolVal(False))]
        idx, Bz, rows = m['idx'], zi(m['B']), sc['rows']
        ev = lambda t: z3.If(idx(t) < Bz, z3.BoolVal(True), ev0(idx(t) - Bz))
        g = lambda t: z3.If(idx(t) < Bz, rows(idx(t)), g0(idx(t) - Bz))
    zero = X.lit(0.0)
    cl = [
        Clause('result_shapes', (), lambda: z3.And(shape_eq(rr.shape, (count,)), shape_eq(rc.shape, (count, P, Dc)), shape_eq(rk.shape, (count, P, Dk)))),
        Clause('continuous_in_unit_cube_padding_zero', (count, P, Dc), lambda t, p, e: cont_ok(rc.at(t, p, e), e, nc), pats=lambda t, p, e: rc.at(t, p, e)),
        Clause('categorical_valid_padding_zero', (count, P, Dk), lambda t, p, e: cat_ok(rk.at(t, p, e), e, nk), pats=lambda t, p, e: rk.at(t, p, e)),
        Clause('reward_is_score_of_row', (count,), lambda t: z3.If(ev(t), rr.at(t) == SCORE(g(t)), rr.at(t) == X.ninf), pats=lambda t: rr.at(t)),
        Clause('row_is_the_stored_continuous_features', (count, P, Dc),
               lambda t, p, e: z3.If(ev(t), rc.at(t, p, e) == ROWC(g(t), p, e), rc.at(t, p, e) == zero), pats=lambda t, p, e: rc.at(t, p, e)),
        Clause('row_is_the_stored_categorical_features', (count, P, Dk),
               lambda t, p, e: z3.If(ev(t), rk.at(t, p, e) == ROWK(g(t), p, e), rk.at(t, p, e) == 0), pats=lambda t, p, e: rk.at(t, p, e)),
    ]
    if conc(count) == 1 and getattr(cc, 'scores_above_neg_inf', False):
        # count == 1, scores above -inf: after the first step the single best result is an evaluated candidate, never the placeholder
        if phase == 'preserve':
            m = carry[1].merge
            cl.append(Clause('evaluated_after_the_first_step[count=1]', (), lambda: z3.Implies(z3.And(zi(m['B']) >= 1, m['topk'](z3.IntVal(0), z3.IntVal(0))), ev(0))))
        else:
            cl.append(Clause('evaluated_after_the_first_step[count=1]', (), lambda: z3.Implies(zi(i) >= 1, ev(0))))
    if conc(count) == 1 and getattr(cc, 'track_evaluated', False):
        # count == 1, score function without NaN values: the best result dominates EVERY row evaluated so far (ghost set Ev)
        if phase == 'init':
            Ev = lambda rho: z3.BoolVal(False)
        elif phase in ('head', 'exit'):
            evf = z3.Function('evaluated_rows!%d' % next(J._uid), Row, z3.BoolSort())
            Ev = lambda rho: evf(rho)
            ctx['Ev_' + phase] = Ev
            cc.Ev = Ev
        else:
            Ev0, sc, m = ctx['Ev_head'], cc.score_calls[-1], carry[1].merge
            Ev = lambda rho: z3.Or(Ev0(rho), QE(sc['n'], lambda k: rho == sc['rows'](k)))
        above = (lambda rho: X.ge(rank(rr.at(0)), rank(SCORE(rho)))) if STRONG_MERGE[0] else (lambda rho: X.ge(rr.at(0), SCORE(rho)))
        dom = lambda rho: z3.Implies(Ev(rho), above(rho))
        if phase == 'preserve':
            m, sc = carry[1].merge, cc.score_calls[-1]
            Bz = zi(m['B'])
            k0 = run.fresh('sk_k', z3.IntSort())
            # instances of the (assumed, proved in section A) top-k fact of the merge contract at the indices this step talks about
            hints = lambda rho: z3.And(m['topk'](z3.IntVal(0), Bz), z3.Implies(z3.And(rng(k0, sc['n']), rho == sc['rows'](k0)), m['topk'](z3.IntVal(0), k0)),
                                       ctx['Ev_head'](rho) == ctx['Ev_head'](rho))
            body = lambda rho: z3.Implies(hints(rho), z3.Implies(z3.Or(ctx['Ev_head'](rho), z3.And(rng(k0, sc['n']), rho == sc['rows'](k0))), above(rho)))
            cl.append(RowClause('dominates_every_evaluated_row[count=1]', body, lambda rho: SCORE(rho)))
        else:
            cl.append(RowClause('dominates_every_evaluated_row[count=1]', dom, (lambda rho: Ev(rho)) if phase != 'init' else (lambda rho: SCORE(rho))))
    if phase == 'preserve':
        # step clause: the best reward never decreases (residual of the NaN finding: unless the compared new reward is NaN)
        old = ctx['head_carry'][1].attrs['rewards']
        m = carry[1].merge
        inv, Bz = m['inv'], zi(m['B'])
        wit = lambda t: z3.If(m['sel'](Bz + t), inv(Bz + t), z3.IntVal(0))
        if STRONG_MERGE[0]:
            cl.append(Clause('best_reward_never_decreases', (count,), lambda t: X.ge(rank(rr.at(wit(t))), rank(old.at(t)))))
        else:
            cl.append(Clause('best_reward_never_decreases.residual', (count,),
                             lambda t: z3.Or(X.is_nan(rr.at(wit(t))), X.ge(rank(rr.at(wit(t))), rank(old.at(t))))))
    return cl


J.FORI[(VB, '_optimization_one_step')] = J.ForiSpec(call_invariant, name='C19.__call__.loop')


def _carry_name(node):
    assigned, _ = E.loop_write_set(node)
    tgt = {n.id for n in __import__('ast').walk(node.target) if hasattr(n, 'id')}
    names = sorted(assigned - tgt)
    if len(names) != 1:
        raise Unsupported('loop contract of __call__: expected exactly one loop-carried variable, found %s' % names)
    return names[0]


def call_pyloop_invariant(it, fr, lctx):
    """the same invariant for the `use_fori=False` python loop (engine.LOOPS adapter)."""
    name = _carry_name(lctx.node)
    carry = fr.env[name]
    st = lctx.__dict__.setdefault('jx', {'lower': 0, 'upper': getattr(lctx.iter, 'n', None), 'key': (VB, '_optimization_one_step')})
    st['phase'] = lctx.phase
    if lctx.phase == 'head':
        st['head_carry'] = carry
    cls = call_invariant(it, carry, lctx.i, st)
    if lctx.phase == 'head':
        return [(c.name, c.formula()) for c in cls]
    return [(c.name, c.goal(it)) for c in cls]


E.LOOPS[(VB, CALL, 1)] = E.LoopSpec(call_pyloop_invariant)


def compose_ghost(run, cc, res):
    """ghost (evaluated?, row) of the final best results when the loop was unrolled: composed along the chain of merges that
    produced `res` (None when `res` is not the product of such a chain starting at the all-placeholder initial value)."""
    chain, cur = [], res
    while getattr(cur, 'merge', None) is not None:
        chain.append(cur.merge)
        cur = cur.merge['old']
    ev = lambda t: z3.BoolVal(False)
    g = lambda t: z3.Const('row_none', Row)
    if not chain:
        # no merge happened on this path at all (zero steps): nothing was evaluated -- the ghost of the untouched initial value
        return (ev, g) if not getattr(run, 'c19_merges', []) else (None, None)
    for m in reversed(chain):
        sc = [s for s in cc.score_calls if s['out'] is m['newr']]
        if not sc:
            return None, None
        idx, Bz, rows = m['idx'], zi(m['B']), sc[0]['rows']
        ev = (lambda t, idx=idx, Bz=Bz, ev0=ev: z3.If(idx(t) < Bz, z3.BoolVal(True), ev0(idx(t) - Bz)))
        g = (lambda t, idx=idx, Bz=Bz, rows=rows, g0=g: z3.If(idx(t) < Bz, rows(idx(t)), g0(idx(t) - Bz)))
    return ev, g


def key_root(t):
    while z3.is_app(t) and t.num_args() > 0 and t.decl().name() in ('jx_split', 'jx_fold_in'):
        t = t.arg(0)
    return t


def call_sites(path, result_parts):
    """obligations at the call sites of the strategy / the score function recorded on this path (any path kind)."""
    run = path.run
    cc = run.c19
    d = cc.d
    count, B, P, Dc, Dk, nc, nk = (d[k] for k in ('count', 'B', 'P', 'Dc', 'Dk', 'nc', 'nk'))
    N = 'C19.__call__.'
    out = []
    p, e = sk(run, 'p'), sk(run, 'e')
    rr = result_parts[0] if result_parts is not None else None
    scs = cc.score_calls
    if scs:
        out.append((N + 'acquisition_seed_fixed', z3.And(*[z3.BoolVal(J.is_key(s['seed']) and s['seed'].eq(scs[0]['seed'])) for s in scs])))
    for s in scs:
        i = sk(run, 'i')
        out.append((N + 'scored_features_have_zero_padding', z3.And(
            z3.Implies(z3.And(rng(i, s['n']), rng(p, s['P']), rng(e, Dc), e >= zi(nc)), X.eq(s['cont'](i, p, e), X.lit(0.0))),
            z3.Implies(z3.And(rng(i, s['n']), rng(p, s['P']), rng(e, Dk), e >= zi(nk)), s['cat'](i, p, e) == 0))))
        out.append((N + 'scored_batch_shapes', z3.And(shape_eq(s['shape_c'][-1:], (Dc,)), shape_eq(s['shape_k'][-1:], (Dk,)))))
    keys = []
    for u in cc.updates:
        f, rw = u['features'], u['rewards']
        i = sk(run, 'i')
        fcu, fku = cont_of(f), cat_of(f)
        sc = [s for s in scs if s['out'] is rw]
        out.append((N + 'update_receives_the_scores_of_the_features_it_receives', z3.BoolVal(bool(sc))))
        if sc:
            s = sc[0]
            out.append((N + 'update_receives_the_scored_features', z3.And(
                shape_eq(fcu.shape, (B, P, Dc)), shape_eq(fku.shape, (B, P, Dk)),
                z3.Implies(z3.And(rng(i, B), rng(p, P), rng(e, Dc)), fcu.at(i, p, e) == s['cont'](i, p, e)),
                z3.Implies(z3.And(rng(i, B), rng(p, P), rng(e, Dk)), fku.at(i, p, e) == s['cat'](i, p, e)))))
        out.append((N + 'update_receives_in_bounds_features', z3.And(
            z3.Implies(z3.And(rng(i, B), rng(p, P), rng(e, Dc)), cont_ok(fcu.at(i, p, e), e, nc)),
            z3.Implies(z3.And(rng(i, B), rng(p, P), rng(e, Dk)), cat_ok(fku.at(i, p, e), e, nk)))))
        keys.append(('update', u['seed']))
    for s in cc.suggests:
        out.append((N + 'suggest_called_with_parallel_dim', zi(s['n_parallel']) == zi(P)))
        keys.append(('suggest', s['seed']))
    for ini in cc.inits:
        out.append((N + 'init_state_called_with_parallel_dim', zi(ini['n_parallel']) == zi(P)))
        keys.append(('init_state', ini['seed']))
        pf, pr = ini['prior_features'], ini['prior_rewards']
        if hasattr(cc, 'prior'):
            if pf is None or pr is None or not scs:
                out.append((N + 'prior_features_reach_the_strategy', z3.BoolVal(False)))
            else:
                s0 = scs[0]
                nb = pr.shape[0]
                b = sk(run, 'b')
                nvalid = J.int_floordiv(d['No'], P)
                out.append((N + 'prior_features_reach_the_strategy', z3.And(
                    shape_eq(cont_of(pf).shape, (nb, P, Dc)), shape_eq(cat_of(pf).shape, (nb, P, Dk)),
                    zi(nb) == J.int_floordiv(d['Np'], P))))
                out.append((N + 'padded_prior_rows_get_neg_inf_reward', z3.Implies(z3.And(rng(b, nb), b >= nvalid), pr.at(b) == X.ninf)))
                out.append((N + 'valid_prior_rows_keep_their_score', z3.Implies(z3.And(rng(b, nb), b < nvalid), pr.at(b) == SCORE(s0['rows'](b)))))
                pc, pk = cc.prior
                out.append((N + 'prior_rows_are_the_given_prior_features', z3.And(
                    z3.Implies(z3.And(rng(b, nb), rng(p, P), rng(e, Dc), e < zi(nc)), cont_of(pf).at(b, p, e) == pc.at(b * zi(P) + p, e)),
                    z3.Implies(z3.And(rng(b, nb), rng(p, P), rng(e, Dk), e < zi(nk)), cat_of(pf).at(b, p, e) == pk.at(b * zi(P) + p, e)))))
        elif pf is not None or pr is not None:
            out.append((N + 'prior_features_reach_the_strategy', z3.BoolVal(False)))
    # randomness: every key handed out is derived by split/fold_in from the seed argument (or PRNGKey(0) when none is given, or
    # the loop-carried key, itself covered by the invariant `structure` clause), and no key is handed to two consumers
    seed = cc.kw.get('seed')
    roots_ok, distinct = [], []
    for who, k in keys + [('score', s['seed']) for s in scs[:1]]:
        if not J.is_key(k):
            roots_ok.append(False)
            continue
        r = key_root(k)
        roots_ok.append(bool((seed is not None and r.eq(seed)) or (seed is None and r.eq(J.K_OF(z3.IntVal(0)))) or
                             any(r.eq(k) for k in getattr(run, 'jx_carried_keys', []))))
    ks = [k for _, k in keys] + [s['seed'] for s in scs[:1]]
    for a in range(len(ks)):
        for b2 in range(a + 1, len(ks)):
            distinct.append(not (J.is_key(ks[a]) and J.is_key(ks[b2]) and ks[a].eq(ks[b2])))
    out.append((N + 'randomness_only_from_seed', z3.BoolVal(all(roots_ok))))
    out.append((N + 'keys_not_reused', z3.BoolVal(all(distinct))))
    return out


def call_post(path):
    run = path.run
    cc = run.c19
    d = cc.d
    count, B, P, Dc, Dk, nc, nk = (d[k] for k in ('count', 'B', 'P', 'Dc', 'Dk', 'nc', 'nk'))
    out = []
    N = 'C19.__call__.'
    if path.kind == 'end':
        return call_sites(path, None)          # a loop-body path: only the call-site obligations
    if path.kind != 'return':
        return [(N + 'returns', z3.BoolVal(False))]
    res = path.value
    parts = _best_parts((None, res, None))
    if parts is None:
        return [(N + 'returns_requested_count', z3.BoolVal(False))]
    rr, rc, rk = parts
    out.append((N + 'returns_requested_count', z3.And(shape_eq(rr.shape, (count,)), shape_eq(rc.shape, (count, P, Dc)), shape_eq(rk.shape, (count, P, Dk)))))
    t, p, e, j = (sk(run, n) for n in 'tpej')
    gc = z3.And(rng(t, count), rng(p, P), rng(e, Dc))
    gk = z3.And(rng(t, count), rng(p, P), rng(e, Dk))
    out.append((N + 'continuous_in_unit_cube', z3.Implies(z3.And(gc, e < zi(nc)), unit(rc.at(t, p, e)))))
    out.append((N + 'categorical_is_valid_category_index', z3.Implies(z3.And(gk, e < zi(nk)), z3.And(rk.at(t, p, e) >= 0, rk.at(t, p, e) < SIZES(e)))))
    out.append((N + 'padding_never_leaks.continuous', z3.Implies(z3.And(gc, e >= zi(nc)), X.eq(rc.at(t, p, e), X.lit(0.0)))))
    out.append((N + 'padding_never_leaks.categorical', z3.Implies(z3.And(gk, e >= zi(nk)), rk.at(t, p, e) == 0)))
    ev, g = getattr(cc, 'ghost', (None, None))
    if ev is None:
        ev, g = compose_ghost(run, cc, res)
    if ev is not None:
        evaluated = lambda tt: z3.And(rr.at(tt) == SCORE(g(tt)), z3.Implies(z3.And(rng(p, P), rng(e, Dc)), rc.at(tt, p, e) == ROWC(g(tt), p, e)),
                                      z3.Implies(z3.And(rng(p, P), rng(e, Dk)), rk.at(tt, p, e) == ROWK(g(tt), p, e)))
        out.append((N + 'reward_is_score_of_candidate.residual', z3.Implies(z3.And(rng(t, count), rr.at(t) != X.ninf), evaluated(t))))
        out.append((N + 'reward_is_score_of_candidate', z3.Implies(rng(t, count), z3.And(ev(t), evaluated(t)))))
    # the loop runs ceil(max_evaluations / batch) steps: the whole evaluation budget is used, and not more than one batch beyond it
    steps = getattr(cc, 'steps', None)
    if steps is None:
        chain, cur = 0, res
        while getattr(cur, 'merge', None) is not None:
            chain, cur = chain + 1, cur.merge['old']
        steps = z3.IntVal(chain)
    Mz, Bz_ = zi(d['M']), zi(B)
    out.append((N + 'evaluation_budget_is_used', z3.And(steps * Bz_ >= Mz, (steps - 1) * Bz_ < Mz)))
    if getattr(cc, 'scores_above_neg_inf', False) and conc(count) == 1 and ev is not None:
        out.append((N + 'no_placeholder_within_budget[count=1]', z3.And(ev(0), rr.at(0) == SCORE(g(0)))))
    if getattr(cc, 'track_evaluated', False) and getattr(cc, 'Ev', None) is not None:
        rho = run.fresh('sk_row', Row)
        if STRONG_MERGE[0]:
            out.append((N + 'returns_the_best_evaluated_row[count=1]', z3.Implies(cc.Ev(rho), X.ge(rank(rr.at(0)), rank(SCORE(rho))))))
        else:
            out.append((N + 'returns_the_best_evaluated_row[count=1,score_never_nan]', z3.Implies(cc.Ev(rho), X.ge(rr.at(0), SCORE(rho)))))
    out += call_sites(path, (rr, rc, rk))
    if cc.kw.get('score_with_aux_fn') is not None:
        ax = [s for s in cc.score_calls if s['aux']]
        if not ax or res.attrs.get('aux') is not ax[-1].get('aux_value'):
            out.append((N + 'aux_computed_on_returned_features', z3.BoolVal(False)))
        else:
            s = ax[-1]
            out.append((N + 'aux_computed_on_returned_features', z3.And(
                z3.Implies(gc, s['cont'](t, p, e) == rc.at(t, p, e)), z3.Implies(gk, s['cat'](t, p, e) == rk.at(t, p, e)),
                zi(s['n']) == zi(count))))
    return out


# ------------------------------------------------------------------------------------------ orchestration
class Prover:
    """explore + discharge on symbolic shapes; obligations that are not proved are re-examined on concrete shapes (every
    fact and obligation quantifier-free, loops unrolled) -- only a `sat` there is a violation; it is then replayed natively."""

    def __init__(self, chk, tier):
        self.chk, self.tier = chk, tier
        self.timeout_ms = 6000 if tier == 'quick' else 30000
        self.observer = None

    OPEN = {'t': 0.0}          # seconds spent so far (whole check) in queries that did not come back `unsat`
    OPEN_LIMIT = 60.0

    @classmethod
    def discharge(cls, run, f, npc, nax, budget_ms):
        """z3 resource-limit budget (deterministic: budget_ms * 2500 rlimit units); the wall clock is only a >= 20x safety net.
        An `unknown` is retried once in a fresh solver context with three times the budget.  On a failing tree the run time is
        bounded: once OPEN_LIMIT seconds went into open queries the remaining budgets shrink 20x and nothing is retried (a query
        that runs out of budget is undecided, never a verdict; on a tree where everything is proved this never triggers)."""
        tight = cls.OPEN['t'] > cls.OPEN_LIMIT
        if tight:
            budget_ms = max(int(budget_ms / 20), 100)
        v, m, dt = E.discharge(run, f, npc, nax, timeout_ms=max(2 * budget_ms, 6000), rlimit=int(budget_ms) * 2500)
        if v == 'unknown' and not tight:
            v, m, dt2 = E.discharge(run, f, npc, nax, timeout_ms=max(6 * budget_ms, 6000), rlimit=int(budget_ms) * 7500)
            dt += dt2
        if v != 'unsat':
            cls.OPEN['t'] += dt
        return v, m, dt

    def _collect(self, entries, post, skip=(), setup=None, timeout_ms=None, want_model=False):
        inst, unsupported = {}, []
        for label, entry in entries:
            if setup is not None:
                setup(label)
            for pi, p in enumerate(E.explore(entry, max_paths=400, timeout_ms=1500)):
                if p.kind == 'unsupported':
                    unsupported.append('%s: %s' % (label, p.describe()))
                    continue
                if self.observer is not None and not want_model:
                    self.observer(label, p)
                v0, _, _ = E.discharge(p.run, z3.BoolVal(False), timeout_ms=6000, rlimit=250 * 2500)      # vacuity: inconsistent assumptions show up at once
                vacuous = v0 == 'unsat'
                obs = [(n, f, npc, nax) for (n, f, npc, nax, info) in p.run.obligations]
                if post is not None and p.kind in ('return', 'raise', 'end') and not vacuous:
                    obs += [(n, f, None, None) for n, f in post(p)]
                explained = False
                for n, f, npc, nax in obs:
                    if getattr(self, 'only', None) is not None and not self.only(n):
                        continue
                    if n in skip:
                        inst.setdefault(n, []).append({'v': 'skipped', 'dt': 0.0, 'label': label, 'kind': p.kind})
                        continue
                    if isinstance(f, bool):
                        f = z3.BoolVal(f)
                    v, m, dt = self.discharge(p.run, f, npc, nax, timeout_ms or self.timeout_ms)
                    rec = {'v': v, 'dt': dt, 'label': label, 'kind': p.kind}
                    if v == 'sat' and want_model:
                        rec['model'], rec['run'], rec['path'] = m, p.run, p
                    if v == 'unknown':
                        rec['reason'] = str(m)[:200]
                    if v != 'unsat':
                        explained = True
                    inst.setdefault(n, []).append(rec)
                if vacuous and not explained:
                    # (an obligation emitted before the assumptions became inconsistent that fails explains the inconsistency)
                    unsupported.append('%s: the assumptions of path %d (%s) are inconsistent (vacuous proof)' % (label, pi, p.kind))
        return inst, unsupported

    def run(self, fname, entries, post, twins=(), setup=None, twin_setup=None, findings=None, replay=None, rename=None, only=None):
        findings = dict(findings or {})
        """findings: {obligation name: finding description}; replay(name, rec) -> (replay dict, reproduced)"""
        t_run = time.time()
        try:
            self.only = only
            return self._run(fname, entries, post, twins, setup, twin_setup, findings, replay, rename)
        finally:
            if os.environ.get('VERIF_C19_PROFILE'):
                print('PROFILE %-45s %.1fs' % (fname, time.time() - t_run))

    def _run(self, fname, entries, post, twins=(), setup=None, twin_setup=None, findings=None, replay=None, rename=None):
        chk, findings = self.chk, dict(findings or {})
        rn = rename or (lambda n: n)
        stale = {}
        inst, bad = self._collect(entries, post, skip=set(findings), setup=setup)
        if bad:
            chk.obligation('%s.supported' % fname, fname, 'checker', report.ERROR, 0.0,
                           detail='the real code of %s left the supported subset: %s' % (fname, '; '.join(sorted(set(bad)))[:1500]))
        open_names = [n for n, l in inst.items() if any(i['v'] != 'unsat' for i in l)]
        tw = {}
        if (open_names or bad) and twins:
            tw, tbad = self._collect(twins, post, setup=twin_setup or setup, timeout_ms=20000, want_model=True)
            self.last_twin_unsupported = tbad
        elif twins:
            # nothing to decide: the concrete shapes still serve as a satisfiability witness of the assumptions (vacuity check:
            # on concrete shapes everything is quantifier-free, so `sat` is definite)
            for label, entry in twins[:1]:
                if twin_setup or setup:
                    (twin_setup or setup)(label)
                for pi, p in enumerate(E.explore(entry, max_paths=60, timeout_ms=1500)):
                    if p.kind == 'unsupported':
                        continue
                    v0, _, _ = E.discharge(p.run, z3.BoolVal(False), timeout_ms=10000, rlimit=5000 * 2500)
                    if v0 == 'unsat':
                        chk.obligation('%s.vacuity' % fname, fname, 'checker', report.ERROR, 0.0,
                                       detail='the assumptions of the contract are inconsistent on the concrete shapes %s' % label)
        for n, l in inst.items():
            tsum = sum(i['dt'] for i in l)
            detail = {'instances': len(l), 'configurations': sorted({i['label'] for i in l})[:12]}
            name = rn(n)
            tl = tw.get(n, [])
            sats = [i for i in tl if i['v'] == 'sat']
            if n in findings:
                if n in UNVERIFIED:
                    detail['reason'] = 'recorded open finding whose native witness could not be run (%s): neither counted nor dismissed' % UNVERIFIED[n]
                    chk.obligation(name, fname, 'native witness', report.UNDECIDED, tsum, detail=detail)
                elif sats or not twins:
                    chk.obligation(name, fname, 'z3 (concrete-shape twin)', report.KNOWN, tsum, detail=detail, finding=findings[n])
                elif tl and all(i['v'] == 'unsat' for i in tl):
                    stale[n] = findings[n]
                else:
                    detail['reason'] = 'recorded finding neither confirmed nor refuted on the concrete shapes'
                    chk.obligation(name, fname, 'z3', report.UNDECIDED, tsum, detail=detail)
                continue
            if all(i['v'] == 'unsat' for i in l):
                chk.obligation(name, fname, 'z3', report.PROVED, tsum, detail=detail)
                continue
            if sats:
                i = sats[0]
                rep, reproduced = (None, None)
                if replay is not None:
                    try:
                        rep, reproduced = replay(n, i)
                    except Exception as ex:      # replay construction must never turn into a verdict
                        rep, reproduced = {'replay_error': repr(ex)}, None
                detail['refuted_on'] = 'concrete shapes %s (quantifier-free, loops unrolled): solver sat' % i['label']
                chk.obligation(name, fname, 'z3 (concrete-shape twin)', report.VIOLATED, tsum, detail=detail,
                               model=str(i.get('model'))[:6000], replay=rep, reproduced=reproduced)
                continue
            unk = [i for i in l if i['v'] != 'unsat']
            detail['reason'] = unk[0].get('reason', unk[0]['v'])
            detail['undecided'] = [(i['label'], i['kind']) for i in unk][:8]
            detail['twin'] = sorted({i['v'] for i in tl}) if tl else 'obligation not generated on the concrete shapes'
            chk.obligation(name, fname, 'z3', report.UNDECIDED, tsum, detail=detail)
        # violations visible only on the concrete shapes (the symbolic run did not reach / state the clause)
        for n, tl in tw.items():
            if n in inst:
                continue
            sats = [i for i in tl if i['v'] == 'sat']
            if sats and n not in findings:
                rep, reproduced = (None, None)
                if replay is not None:
                    try:
                        rep, reproduced = replay(n, sats[0])
                    except Exception as ex:
                        rep, reproduced = {'replay_error': repr(ex)}, None
                chk.obligation(rn(n), fname, 'z3 (concrete-shape twin)', report.VIOLATED, 0.0,
                               detail={'refuted_on': 'concrete shapes %s; the symbolic run did not state this clause' % sats[0]['label']},
                               model=str(sats[0].get('model'))[:6000], replay=rep, reproduced=reproduced)
        # stale findings: a plain NOTE, and the full obligation is now attempted like any other
        if stale:
            inst2, _ = self._collect(entries, lambda p: [(n, f) for n, f in post(p) if n in stale], setup=setup)
            for n, desc in stale.items():
                print('NOTE: known finding no longer reproduced by the check (stale): property=C19 obligation=%s' % rn(n))
                l = inst2.get(n, [])
                ok = bool(l) and all(i['v'] == 'unsat' for i in l)
                chk.obligation(rn(n), fname, 'z3', report.PROVED if ok else report.UNDECIDED, sum(i['dt'] for i in l),
                               detail={'note': 'recorded known finding is stale', 'instances': len(l)})
        return inst, tw


# ------------------------------------------------------------------------------------------ C. Eagle strategy
EAGLE = 'VectorizedEagleStrategy'


def catv(k, size):
    """valid categorical value for a feature with `size` categories (size 0 = padding position: only 0)."""
    return z3.And(k >= 0, k < z3.If(size >= 1, size, z3.IntVal(1)))


def unit_or_nan(x):
    return z3.Or(X.is_nan(x), unit(x))


class EagleCtx:
    pass


def eagle_config(it, norm='MEAN', pert='ADDITIVE', symbolic=True):
    run = it.run
    cfgc = klass(ES, 'EagleStrategyConfig')
    attrs = {}
    for (name, owner, has_default, dnode, factory, static, conv) in J.record_fields(cfgc):
        attrs[name] = it.eval(E.Frame(owner.mod, {}), dnode) if has_default else None
    if symbolic:
        # every float knob is an arbitrary finite number (positive where the code divides by it / takes its logarithm)
        for name in ('visibility', 'gravity', 'negative_gravity', 'perturbation', 'categorical_perturbation_factor',
                     'pure_categorical_perturbation_factor', 'perturbation_lower_bound', 'penalize_factor', 'normalization_scale'):
            if name in attrs:
                v = run.fresh('cfg_' + name, z3.RealSort())
                attrs[name] = X.fin(v)
        if 'prob_same_category_without_perturbation' in attrs:
            v = run.fresh('cfg_prob_same', z3.RealSort())
            run.assume(z3.And(v > 0, v < 1))
            attrs['prob_same_category_without_perturbation'] = X.fin(v)
    attrs['mutate_normalization_type'] = AM.enum_member(it, klass(ES, 'MutateNormalizationType'), norm)
    attrs['continuous_feature_perturbation_type'] = AM.enum_member(it, klass(ES, 'ContinuousFeaturePerturbationType'), pert)
    return Obj(cfgc, attrs)


def eagle_self(it, d, norm='MEAN', pert='ADDITIVE', symbolic_cfg=True):
    """a VectorizedEagleStrategy instance satisfying the class invariant established by VectorizedEagleStrategyFactory."""
    run = it.run
    sizes = J.fresh_array(it, 'sizes', (d['Dk'],), 'int')
    K = d['K']
    J.fact(it, J.ALL(1, lambda e: z3.And(sizes.at(e) >= 0, sizes.at(e) <= zi(K), z3.Implies(z3.And(e >= 0, e < zi(d['nk'])), sizes.at(e) >= 1)),
                     shape=(d['Dk'],), pats=lambda e: sizes.at(e)))
    sampler = Obj(klass(ES, 'DefaultRandomSampler'), {'_max_categorical_size': K, '_categorical_sizes': sizes, '_continuous_padded_dim': d['Dc']})
    proj = Obj(klass(ES, 'DefaultProjection'), {})
    self = Obj(klass(ES, EAGLE), {
        'n_feature_dimensions': CC(d['nc'], d['nk']), 'categorical_sizes': sizes,
        'n_feature_dimensions_with_padding': CC(d['Dc'], d['Dk']), 'max_categorical_size': K, 'pool_size': d['pool'],
        'dtype': CC(J.DType('float', 'float64'), J.DType('int', 'int32')), 'random_sampler': sampler, 'projection': proj,
        'batch_size': d['B'], 'config': eagle_config(it, norm, pert, symbolic_cfg)})
    return self, sizes


def eagle_state(it, d, tag='state'):
    run = it.run
    pool, P, Dc, Dk = d['pool'], d['P'], d['Dc'], d['Dk']
    st = Obj(klass(ES, 'VectorizedEagleStrategyState'), {
        'iterations': run.fresh(tag + '_iterations', z3.IntSort()),
        # value classes (ghost, justified by the invariant clauses of eagle_inv): features finite, perturbations finite;
        # the pool rewards are arbitrary (a NaN score received while the pool is being initialised is stored as is)
        'features': CC(J.fresh_array(it, tag + '_c', (pool, P, Dc), 'float', kinds_=J.FINITE), J.fresh_array(it, tag + '_k', (pool, P, Dk), 'int', kinds_=J.NONNEG)),
        'rewards': J.fresh_array(it, tag + '_r', (pool,), 'float', kinds_=J.TOP),
        'best_reward': run.fresh(tag + '_best', X.XReal),
        'perturbations': J.fresh_array(it, tag + '_pert', (pool,), 'float', kinds_=J.FINITE)})
    return st


def eagle_inv(st, d, sizes):
    """state invariant: the pool holds finite continuous and valid categorical features, finite perturbations, a non-negative
    iteration counter."""
    pool, P, Dc, Dk = d['pool'], d['P'], d['Dc'], d['Dk']
    f = st.attrs['features']
    c, k, pert = cont_of(f), cat_of(f), st.attrs['perturbations']
    ok = isinstance(c, JArr) and isinstance(k, JArr) and isinstance(pert, JArr) and isinstance(st.attrs['rewards'], JArr)
    if not ok:
        return [Clause('state_structure', (), lambda: z3.BoolVal(False))]
    itn = J.unwrap0(st.attrs['iterations'])
    return [
        Clause('state_shapes', (), lambda: z3.And(shape_eq(c.shape, (pool, P, Dc)), shape_eq(k.shape, (pool, P, Dk)), shape_eq(pert.shape, (pool,)),
                                                 shape_eq(st.attrs['rewards'].shape, (pool,)), zi(itn) >= 0)),
        # (the pool may hold prior points from OUTSIDE the unit cube: only the projection in `suggest` brings them back)
        Clause('pool_continuous_finite', (pool, P, Dc), lambda i, p, e: X.is_fin(c.at(i, p, e)), pats=lambda i, p, e: c.at(i, p, e)),
        Clause('pool_categorical_valid', (pool, P, Dk), lambda i, p, e: catv(k.at(i, p, e), sizes.at(e)), pats=lambda i, p, e: k.at(i, p, e)),
        Clause('perturbations_finite', (pool,), lambda i: X.is_fin(pert.at(i)), pats=lambda i: pert.at(i)),
    ]


EAGLE_DIMS = ['pool', 'B', 'P', 'Dc', 'Dk', 'nc', 'nk', 'K']
EAGLE_LOWS = {'pool': 1, 'B': 1, 'P': 1}


def eagle_dims(run, concrete):
    d = dims(run, EAGLE_DIMS, concrete, EAGLE_LOWS)
    run.assume(z3.And(zi(d['nc']) <= zi(d['Dc']), zi(d['nk']) <= zi(d['Dk']), zi(d['B']) <= zi(d['pool']),
                      zi(d['nc']) + zi(d['nk']) >= 1, z3.Implies(zi(d['K']) == 0, zi(d['Dk']) == 0)))
    return d


def suggest_entry(concrete=None, norm='MEAN', pert='ADDITIVE'):
    def entry(it):
        run = it.run
        d = eagle_dims(run, concrete)
        self, sizes = eagle_self(it, d, norm, pert)
        st = eagle_state(it, d)
        for cl in eagle_inv(st, d, sizes):
            cl.assume(it)
        c = EagleCtx()
        c.d, c.sizes, c.state, c.self = d, sizes, st, self
        run.c19 = c
        return it.invoke(method(ES, EAGLE + '.suggest'), [self, z3.Const('seed', J.Key)], {'state': st, 'n_parallel': d['P']})
    return entry


def suggest_post(path):
    run = path.run
    c = run.c19
    d, sizes = c.d, c.sizes
    N = 'C19.eagle.suggest.'
    if path.kind == 'end':
        return []
    if path.kind != 'return':
        return [(N + 'returns', z3.BoolVal(False))]
    f = path.value
    try:
        fc, fk = cont_of(f), cat_of(f)
    except (AttributeError, KeyError):
        return [(N + 'result_shapes', z3.BoolVal(False))]
    i, p, e = (sk(run, n) for n in 'ipe')
    return [
        (N + 'result_shapes', z3.And(shape_eq(fc.shape, (d['B'], d['P'], d['Dc'])), shape_eq(fk.shape, (d['B'], d['P'], d['Dk'])))),
        (N + 'continuous_in_unit_cube_or_nan', z3.Implies(z3.And(rng(i, d['B']), rng(p, d['P']), rng(e, d['Dc'])), unit_or_nan(fc.at(i, p, e)))),
        (N + 'categorical_valid', z3.Implies(z3.And(rng(i, d['B']), rng(p, d['P']), rng(e, d['Dk'])), catv(fk.at(i, p, e), sizes.at(e)))),
        (N + 'randomness_only_from_seed', keys_from_seed(run)),
    ]


def keys_from_seed(run):
    """every PRNG key consumed (split / uniform / laplace / categorical) on this path derives from the `seed` argument."""
    seed = z3.Const('seed', J.Key)
    uses = getattr(run, 'jx_key_uses', [])
    return z3.BoolVal(all(J.is_key(k) and key_root(k).eq(seed) for _, k in uses))


class PathIt:
    """just enough of an Interp for the lazy parts of the array model after a path has finished"""

    def __init__(self, run):
        self.run, self.pure = run, 0


def suggest_classes(path):
    """value classes of the continuous features returned on this path (abstract interpretation, see jx_model)."""
    if path.kind != 'return':
        return None
    try:
        return J.kinds(cont_of(path.value), PathIt(path.run))
    except (AttributeError, KeyError):
        return None


def inb_features(f, d, sizes, n, guard=None, cont='unit', cat=True):
    """[Clause]: the n rows of the feature pair f (optionally only the rows r with guard(r)) have continuous features in the unit
    cube (cont='unit') / finite (cont='finite') and, if cat, valid categorical features."""
    c, k = cont_of(f), cat_of(f)
    g = guard or (lambda r: z3.BoolVal(True))
    pred, nm = (unit, 'continuous_in_unit_cube') if cont == 'unit' else (X.is_fin, 'continuous_finite')
    out = [Clause(nm, (n, d['P'], d['Dc']), lambda r, p, e: z3.Implies(g(r), pred(c.at(r, p, e))), pats=lambda r, p, e: c.at(r, p, e))]
    if cat:
        out.append(Clause('categorical_valid', (n, d['P'], d['Dk']), lambda r, p, e: z3.Implies(g(r), catv(k.at(r, p, e), sizes.at(e))), pats=lambda r, p, e: k.at(r, p, e)))
    return out


def update_entry(concrete=None, norm='MEAN', pert='ADDITIVE'):
    def entry(it):
        run = it.run
        d = eagle_dims(run, concrete)
        self, sizes = eagle_self(it, d, norm, pert)
        st = eagle_state(it, d)
        for cl in eagle_inv(st, d, sizes):
            cl.assume(it)
        bf = CC(J.fresh_array(it, 'batch_c', (d['B'], d['P'], d['Dc']), 'float'), J.fresh_array(it, 'batch_k', (d['B'], d['P'], d['Dk']), 'int'))
        for cl in inb_features(bf, d, sizes, d['B']):
            cl.assume(it)
        br = J.fresh_array(it, 'batch_r', (d['B'],), 'float')
        c = EagleCtx()
        c.d, c.sizes, c.state, c.self = d, sizes, st, self
        run.c19 = c
        return it.invoke(method(ES, EAGLE + '.update'), [self, z3.Const('seed', J.Key), st, bf, br], {})
    return entry


def state_post(prefix):
    def post(path):
        run = path.run
        c = run.c19
        if path.kind == 'end':
            return []
        if path.kind != 'return':
            return [(prefix + 'returns', z3.BoolVal(False))]
        st = path.value
        if not (isinstance(st, Obj) and 'features' in st.attrs and 'perturbations' in st.attrs):
            return [(prefix + 'state_structure', z3.BoolVal(False))]
        return [(prefix + cl.name, cl.goal(path.run)) for cl in eagle_inv(st, c.d, c.sizes)] + [(prefix + 'randomness_only_from_seed', keys_from_seed(path.run))]
    return post


def init_entry(concrete=None, prior=False, cat_valid=True):
    """prior rows: ARBITRARY finite continuous features (also outside the unit cube); categorical features valid category
    indices when cat_valid (the residual regime of the out-of-vocabulary finding), arbitrary integers otherwise."""
    def entry(it):
        run = it.run
        d = eagle_dims(run, concrete)
        d.update(dims(run, ['Nb'], concrete))
        self, sizes = eagle_self(it, d)
        c = EagleCtx()
        c.d, c.sizes, c.self = d, sizes, self
        run.c19 = c
        kw = {'n_parallel': d['P']}
        if prior:
            pf = CC(J.fresh_array(it, 'prior_c', (d['Nb'], d['P'], d['Dc']), 'float'), J.fresh_array(it, 'prior_k', (d['Nb'], d['P'], d['Dk']), 'int'))
            pr = J.fresh_array(it, 'prior_r', (d['Nb'],), 'float')
            # precondition (established by VectorizedOptimizer.__call__, section B): padded prior rows carry the reward -inf
            for cl in inb_features(pf, d, sizes, d['Nb'], guard=lambda r: pr.at(r) != X.ninf, cont='finite', cat=cat_valid):
                cl.assume(it)
            c.cat_valid = cat_valid
            kw['prior_features'], kw['prior_rewards'] = pf, pr
            c.prior = (pf, pr)
        return it.invoke(method(ES, EAGLE + '.init_state'), [self, z3.Const('seed', J.Key)], kw)
    return entry


def populate_invariant(it, carry, i, ctx):
    """fori_loop of _populate_pool_with_prior_trials: every chosen row whose ORIGINAL reward is not -inf is in bounds."""
    c = it.run.c19
    d, sizes = c.d, c.sizes
    try:
        f, r = carry
        f0, r0 = ctx['init']
        fc, fk = cont_of(f), cat_of(f)
        ok = all(isinstance(a, JArr) for a in (fc, fk, r, r0))
    except (TypeError, ValueError, AttributeError, KeyError):
        ok = False
    if not ok:
        return [Clause('structure', (), lambda: z3.BoolVal(False))]
    m = r0.shape[0]
    cl = [Clause('shapes', (), lambda: z3.And(shape_eq(fc.shape, cont_of(f0).shape), shape_eq(fk.shape, cat_of(f0).shape), shape_eq(r.shape, r0.shape)))]
    for x in inb_features(f, d, sizes, m, guard=lambda row: r0.at(row) != X.ninf, cont='finite', cat=getattr(c, 'cat_valid', True)):
        x.name = 'chosen_rows_with_original_reward_above_neg_inf.' + x.name
        cl.append(x)
    return cl


J.FORI[(ES, '_loop_body')] = J.ForiSpec(populate_invariant, name='C19.eagle.init_state.populate')


def sampler_entry(concrete=None):
    def entry(it):
        run = it.run
        d = eagle_dims(run, concrete)
        d.update(dims(run, ['n'], concrete))
        self, sizes = eagle_self(it, d)
        c = EagleCtx()
        c.d, c.sizes = d, sizes
        run.c19 = c
        return it.invoke(method(ES, 'DefaultRandomSampler.__call__'), [self.attrs['random_sampler'], d['n'], d['P'], z3.Const('seed', J.Key)], {})
    return entry


def sampler_post(path):
    run = path.run
    c = run.c19
    d, sizes = c.d, c.sizes
    N = 'C19.eagle.DefaultRandomSampler.'
    if path.kind == 'end':
        return []
    if path.kind != 'return':
        return [(N + 'returns', z3.BoolVal(False))]
    f = path.value
    try:
        fc, fk = cont_of(f), cat_of(f)
    except (AttributeError, KeyError):
        return [(N + 'result_shapes', z3.BoolVal(False))]
    out = [(N + 'result_shapes', z3.And(shape_eq(fc.shape, (d['n'], d['P'], d['Dc'])), shape_eq(fk.shape, (d['n'], d['P'], d['Dk']))))]
    out += [(N + cl.name, cl.goal(path.run)) for cl in inb_features(f, d, sizes, d['n'])]
    out.append((N + 'randomness_only_from_seed', keys_from_seed(path.run)))
    return out


def projection_entry(concrete=None):
    def entry(it):
        run = it.run
        d = eagle_dims(run, concrete)
        d.update(dims(run, ['n'], concrete))
        x = CC(J.fresh_array(it, 'x_c', (d['n'], d['P'], d['Dc']), 'float'), J.fresh_array(it, 'x_k', (d['n'], d['P'], d['Dk']), 'int'))
        c = EagleCtx()
        c.d, c.x = d, x
        run.c19 = c
        return it.invoke(method(ES, 'DefaultProjection.__call__'), [Obj(klass(ES, 'DefaultProjection'), {}), x], {})
    return entry


def projection_post(path):
    run = path.run
    c = run.c19
    d = c.d
    N = 'C19.eagle.DefaultProjection.'
    if path.kind == 'end':
        return []
    if path.kind != 'return':
        return [(N + 'returns', z3.BoolVal(False))]
    f = path.value
    try:
        fc, fk = cont_of(f), cat_of(f)
    except (AttributeError, KeyError):
        return [(N + 'result_shapes', z3.BoolVal(False))]
    i, p, e = (sk(run, n) for n in 'ipe')
    g = z3.And(rng(i, d['n']), rng(p, d['P']))
    return [(N + 'result_shapes', z3.And(shape_eq(fc.shape, (d['n'], d['P'], d['Dc'])), shape_eq(fk.shape, (d['n'], d['P'], d['Dk'])))),
            (N + 'continuous_in_unit_cube_or_nan', z3.Implies(z3.And(g, rng(e, d['Dc'])), unit_or_nan(fc.at(i, p, e)))),
            (N + 'continuous_not_nan_unless_input_nan', z3.Implies(z3.And(g, rng(e, d['Dc']), not_nan(cont_of(c.x).at(i, p, e))), unit(fc.at(i, p, e)))),
            (N + 'in_cube_values_unchanged', z3.Implies(z3.And(g, rng(e, d['Dc']), unit(cont_of(c.x).at(i, p, e))), fc.at(i, p, e) == cont_of(c.x).at(i, p, e))),
            (N + 'categorical_unchanged', z3.Implies(z3.And(g, rng(e, d['Dk'])), fk.at(i, p, e) == cat_of(c.x).at(i, p, e)))]


# ------------------------------------------------------------------------------------------ D. factories and the random strategy
# The converter is outside C19's code; it is an abstract object with the contract of TrialToModelInputConverter that the
# optimizers rely on: `to_features([])` has the PADDED feature counts as trailing extents, `output_specs.continuous /
# .categorical` list the REAL features, a categorical spec has bounds (0, number of categories) and type DISCRETE.
CORE = 'vizier.pyvizier.converters.core'
A_CONV = ('TrialToModelInputConverter contract: to_features([]) has the padded feature counts as trailing extents; output_specs lists the real '
          'continuous (type CONTINUOUS) and categorical (type DISCRETE, bounds (0, #categories), #categories >= 1) features; padded >= real')


def make_converter(it, n_cont, sizes_list, pad_c, pad_k):
    """n_cont: z3 Int | int (number of real continuous features); sizes_list: concrete list of (symbolic) category counts."""
    run = it.run
    st = klass(CORE, 'NumpyArraySpecType')
    DISC, CONT = AM.enum_member(it, st, 'DISCRETE'), AM.enum_member(it, st, 'CONTINUOUS')
    Dc = J.norm(zi(n_cont) + zi(pad_c))
    Dk = len(sizes_list) + pad_k
    PA = klass(TY, 'PaddedArray')
    mkpa = lambda dd, dt: Obj(PA, {'padded_array': J.fresh_array(it, 'empty', (0, dd), dt), 'fill_value': 0, '_original_shape': (0, dd),
                                   '_mask': J.fresh_array(it, 'empty_m', (0, dd), 'bool'), '_nopadding_done': False})
    cat_specs = [Obj('NumpyArraySpec', {'bounds': (0, s), 'type': DISC, 'num_dimensions': 1}) for s in sizes_list]
    nconc = conc(n_cont)
    if nconc is not None:
        cont_specs = [Obj('NumpyArraySpec', {'bounds': (0.0, 1.0), 'type': CONT, 'num_dimensions': 1}) for _ in range(nconc)]
    else:
        arr = z3.K(z3.IntSort(), z3.IntVal(0))
        cont_specs = J.SymList(zi(n_cont), arr, 'int')      # only len() of the continuous spec list is used
    conv = Obj('TrialToModelInputConverter', {
        'to_features': Builtin('converter.to_features', lambda it_, a, k: CC(mkpa(Dc, 'float'), mkpa(Dk, 'int'))),
        'output_specs': CC(cont_specs, cat_specs),
        '_impl': Obj('DefaultTrialConverter', {'dtype': CC(J.DType('float', 'float64'), J.DType('int', 'int32'))})})
    return conv, Dc, Dk


LAYOUTS_QUICK = [(0, 0), (1, 0), (2, 0), (2, 1), (0, 1)]          # (number of categorical parameters, categorical padding positions)
LAYOUTS_THOROUGH = [(a, b) for a in range(4) for b in range(3)]


def layout_dims(it, ncat, concrete=None):
    run = it.run
    d = dims(run, ['nc', 'padc', 'B', 'P', 'M'], concrete, {'B': 1, 'P': 1, 'M': 1})
    sizes = []
    for k in range(ncat):
        if concrete is not None and 'sizes' in concrete:
            sizes.append(concrete['sizes'][k])
        else:
            s = z3.Int('size%d' % k)
            run.assume(s >= 1)
            sizes.append(s)
    return d, sizes


def random_entry(ncat, padk, concrete=None):
    def entry(it):
        run = it.run
        d, sizes = layout_dims(it, ncat, concrete)
        conv, Dc, Dk = make_converter(it, d['nc'], sizes, d['padc'], padk)
        c = EagleCtx()
        c.d, c.sizes_list, c.Dc, c.Dk, c.padk, c.ncat = d, sizes, Dc, Dk, padk, ncat
        run.c19 = c
        strat = it.call(klass(RV, 'RandomVectorizedStrategy'), [], {'converter': conv, 'suggestion_batch_size': d['B']})
        c.strategy = strat
        out = it.invoke(method(RV, 'RandomVectorizedStrategy.suggest'), [strat, z3.Const('seed', J.Key), None], {'n_parallel': d['P']})
        return out
    return entry


F_RANDPAD = ('RandomVectorizedStrategy ignores feature padding: it declares n_feature_dimensions = the PADDED counts (so the optimizer never masks '
             'the padding positions and uniform random numbers leak into padded continuous positions), and it samples only the real '
             'categorical features, so with padded categorical positions the optimizer fails with a shape error')


def random_post(path):
    run = path.run
    c = run.c19
    d = c.d
    N = 'C19.random.suggest.'
    if path.kind == 'end':
        return []
    if path.kind != 'return':
        return [(N + 'returns', z3.BoolVal(False))]
    f = path.value
    try:
        fc, fk = cont_of(f), cat_of(f)
    except (AttributeError, KeyError):
        return [(N + 'result_shapes', z3.BoolVal(False))]
    nopad = z3.And(zi(d['padc']) == 0, z3.BoolVal(c.padk == 0))
    shapes = z3.And(shape_eq(fc.shape, (d['B'], d['P'], c.Dc)), shape_eq(fk.shape, (d['B'], d['P'], c.Dk)))
    i, p, e = (sk(run, n) for n in 'ipe')
    out = [(N + 'result_shapes', shapes), (N + 'result_shapes.residual', z3.Implies(nopad, shapes)),
           (N + 'continuous_in_unit_cube', z3.Implies(z3.And(rng(i, d['B']), rng(p, d['P']), rng(e, fc.shape[2] if fc.rank == 3 else 0)), unit(fc.at(i, p, e))))]
    ncols = conc(fk.shape[2]) if fk.rank == 3 else 0
    for col in range(min(ncols or 0, c.ncat)):
        out.append((N + 'categorical_valid', z3.Implies(z3.And(rng(i, d['B']), rng(p, d['P'])),
                                                        z3.And(fk.at(i, p, col) >= 0, fk.at(i, p, col) < zi(c.sizes_list[col])))))
    if not c.ncat:
        out.append((N + 'categorical_valid', z3.BoolVal(True)))
    nf = c.strategy.attrs.get('n_feature_dimensions')
    try:
        declared = z3.And(zi(nf.attrs['continuous']) == zi(d['nc']), zi(nf.attrs['categorical']) == c.ncat)
    except (AttributeError, KeyError):
        declared = z3.BoolVal(False)
    out.append(('C19.random.declares_real_feature_counts', declared))
    out.append(('C19.random.declares_real_feature_counts.residual', z3.Implies(nopad, declared)))
    out.append((N + 'randomness_only_from_seed', keys_from_seed(path.run)))
    return out


def random_init_entry(prior):
    """RandomVectorizedStrategy.init_state(seed, prior_features=..., prior_rewards=...): do the prior points reach the state?"""
    def entry(it):
        run = it.run
        d, sizes = layout_dims(it, 1, None)
        d.update(dims(run, ['Nb'], None))
        conv, Dc, Dk = make_converter(it, d['nc'], sizes, d['padc'], 0)
        strat = it.call(klass(RV, 'RandomVectorizedStrategy'), [], {'converter': conv, 'suggestion_batch_size': d['B']})
        c = EagleCtx()
        c.d, c.prior = d, None
        run.c19 = c
        kw = {'n_parallel': d['P']}
        if prior:
            pf = CC(J.fresh_array(it, 'prior_c', (d['Nb'], d['P'], Dc), 'float'), J.fresh_array(it, 'prior_k', (d['Nb'], d['P'], Dk), 'int'))
            pr = J.fresh_array(it, 'prior_r', (d['Nb'],), 'float')
            kw['prior_features'], kw['prior_rewards'] = pf, pr
            c.prior = (pf, pr)
        return it.invoke(method(RV, 'RandomVectorizedStrategy.init_state'), [strat, z3.Const('seed', J.Key)], kw)
    return entry


def _mentions(v, arrays, depth=0):
    """does the value (a pytree / object graph) contain one of the given arrays?"""
    if depth > 6:
        return False
    if any(v is a for a in arrays):
        return True
    if isinstance(v, JArr):
        return any(_mentions(x, arrays, depth + 1) for x in (v._src or []) if isinstance(x, JArr))
    if isinstance(v, (tuple, list)):
        return any(_mentions(x, arrays, depth + 1) for x in v)
    if isinstance(v, Obj):
        return any(_mentions(x, arrays, depth + 1) for x in v.attrs.values())
    return False


def random_init_post(path):
    N = 'C19.random.init_state.'
    if path.kind == 'end':
        return []
    if path.kind != 'return':
        return [(N + 'returns', z3.BoolVal(False))]
    c = path.run.c19
    if c.prior is None:
        return [(N + 'uses_prior_features.residual', z3.BoolVal(True))]        # no prior point given: nothing to evaluate
    pf, pr = c.prior
    used = _mentions(path.value, [cont_of(pf), cat_of(pf), pr])
    return [(N + 'uses_prior_features', z3.BoolVal(bool(used)))]


def factory_entry(kind, ncat, padk, concrete=None):
    """VectorizedOptimizerFactory(strategy_factory=<eagle | random>)(converter): the optimizer / strategy configuration."""
    def entry(it):
        run = it.run
        d, sizes = layout_dims(it, ncat, concrete)
        conv, Dc, Dk = make_converter(it, d['nc'], sizes, d['padc'], padk)
        c = EagleCtx()
        c.d, c.sizes_list, c.Dc, c.Dk, c.padk, c.ncat, c.kind = d, sizes, Dc, Dk, padk, ncat, kind
        run.c19 = c
        if kind == 'eagle':
            sf = it.call(klass(ES, 'VectorizedEagleStrategyFactory'), [], {})
        else:
            sf = FuncVal(ModuleInfo.get(RV), ModuleInfo.get(RV).funcs['random_strategy_factory'])
        fac = it.call(klass(VB, 'VectorizedOptimizerFactory'), [], {'strategy_factory': sf, 'max_evaluations': d['M'], 'suggestion_batch_size': d['B']})
        return it.call(fac, [conv], {})
    return entry


def factory_post(path):
    run = path.run
    c = run.c19
    d = c.d
    N = 'C19.factory[%s].' % c.kind
    if path.kind == 'end':
        return []
    if path.kind != 'return':
        return [(N + 'returns', z3.BoolVal(False))]
    opt = path.value
    out = []
    try:
        nf, nfp = opt.attrs['n_feature_dimensions'], opt.attrs['n_feature_dimensions_with_padding']
        real = z3.And(zi(nf.attrs['continuous']) == zi(d['nc']), zi(nf.attrs['categorical']) == c.ncat)
        padded = z3.And(zi(nfp.attrs['continuous']) == zi(c.Dc), zi(nfp.attrs['categorical']) == c.Dk)
        cfg = z3.And(zi(opt.attrs['suggestion_batch_size']) == zi(d['B']), zi(opt.attrs['max_evaluations']) == zi(d['M']))
    except (AttributeError, KeyError):
        return [(N + 'optimizer_configuration', z3.BoolVal(False))]
    nopad = z3.And(zi(d['padc']) == 0, z3.BoolVal(c.padk == 0))
    out.append((N + 'optimizer_masks_exactly_the_padding' + ('.residual' if c.kind == 'random' else ''), z3.Implies(nopad, real) if c.kind == 'random' else real))
    if c.kind == 'random':
        out.append((N + 'optimizer_masks_exactly_the_padding', real))
    out.append((N + 'optimizer_knows_padded_extents', padded))
    out.append((N + 'optimizer_configuration', cfg))
    if c.kind == 'eagle':
        s = opt.attrs['strategy']
        try:
            pool, B = s.attrs['pool_size'], s.attrs['batch_size']
            sz = s.attrs['categorical_sizes']
            K = s.attrs['max_categorical_size']
            inv = [zi(B) == zi(d['B']), zi(pool) >= zi(B), zi(pool) % zi(B) == 0, shape_eq(sz.shape, (c.Dk,)), zi(K) >= 0]
            for col in range(c.Dk):
                inv.append(sz.at(col) == (zi(c.sizes_list[col]) if col < c.ncat else 0))
                inv.append(sz.at(col) <= zi(K))
            inv.append(z3.BoolVal(c.ncat > 0) if False else z3.Implies(zi(K) == 0, z3.BoolVal(c.ncat == 0)))
            smp = s.attrs['random_sampler']
            ssz = J.as_arr(None, smp.attrs['_categorical_sizes']) if not isinstance(smp.attrs['_categorical_sizes'], JArr) else smp.attrs['_categorical_sizes']
            inv.append(shape_eq(ssz.shape, (c.Dk,)))
            for col in range(c.Dk):
                inv.append(ssz.at(col) == sz.at(col))
            inv += [zi(smp.attrs['_max_categorical_size']) == zi(K), zi(smp.attrs['_continuous_padded_dim']) == zi(c.Dc)]
            nfs, nfps = s.attrs['n_feature_dimensions'], s.attrs['n_feature_dimensions_with_padding']
            inv += [zi(nfs.attrs['continuous']) == zi(d['nc']), zi(nfs.attrs['categorical']) == c.ncat,
                    zi(nfps.attrs['continuous']) == zi(c.Dc), zi(nfps.attrs['categorical']) == c.Dk]
            out.append((N + 'strategy_class_invariant', z3.And(*inv)))
        except (AttributeError, KeyError) as ex:
            out.append((N + 'strategy_class_invariant', z3.BoolVal(False)))
    return out


# ------------------------------------------------------------------------------------------ native replay
def run_native(script, args, payload=None, timeout=3600):
    env = dict(os.environ)
    env['VERIF_REPO'] = source.REPO
    try:
        p = subprocess.run([VENV_PY, script] + list(args), input=json.dumps(payload) if payload is not None else None, capture_output=True,
                           text=True, timeout=timeout, env=env, cwd=VERIF)
    except subprocess.TimeoutExpired:
        return {'error': 'native run timed out'}
    for line in reversed((p.stdout or '').strip().splitlines()):
        if line.startswith('{'):
            try:
                return json.loads(line)
            except ValueError:
                break
    return {'error': 'native driver produced no result: rc=%s %s' % (p.returncode, ((p.stderr or '') + (p.stdout or ''))[-600:])}


def xval(m, t):
    v = X.model_value(m, t)
    return 'nan' if v != v else 'inf' if v == float('inf') else '-inf' if v == float('-inf') else v


def ubr_replay(name, rec):
    """concrete arrays of the twin's counter-model -> the real _update_best_results -> the section A specification."""
    m, run = rec['model'], rec['run']
    c = run.c19
    d = {k: conc(v) for k, v in c['d'].items()}
    iv = lambda t: m.eval(t, model_completion=True).as_long()
    rows_c = lambda f, n: [[[xval(m, cont_of(f).at(i, p, e)) for e in range(d['Dc'])] for p in range(d['P'])] for i in range(n)]
    rows_k = lambda f, n: [[[iv(cat_of(f).at(i, p, e)) for e in range(d['Dk'])] for p in range(d['P'])] for i in range(n)]
    payload = {'count': d['count'], 'P': d['P'], 'Dc': d['Dc'], 'Dk': d['Dk'],
               'new_rewards': [xval(m, c['newr'].at(i)) for i in range(d['B'])], 'new_cont': rows_c(c['newf'], d['B']), 'new_cat': rows_k(c['newf'], d['B']),
               'best_rewards': [xval(m, c['best'].attrs['rewards'].at(i)) for i in range(d['count'])],
               'best_cont': rows_c(c['best'].attrs['features'], d['count']), 'best_cat': rows_k(c['best'].attrs['features'], d['count'])}
    res = run_native(REPLAY, ['ubr'], payload)
    clause = name.split('C19._update_best_results.')[-1]
    key = clause if clause in res.get('clauses', {}) else clause.split('.')[0]
    reproduced = (res.get('clauses', {}).get(key) is False) if 'clauses' in res else None
    return {'driver': 'replay/c19_replay.py ubr', 'input': payload, 'native': res}, reproduced


BATTERY = {}
T_START = [0.0]
CLAUSE_OF = {     # obligation-name fragment -> clause name checked by the native battery
    'continuous_in_unit_cube': 'continuous_in_unit_cube', 'continuous_not_nan': 'continuous_in_unit_cube', 'pool_continuous': 'continuous_in_unit_cube',
    'categorical': 'categorical_is_valid_category_index', 'padding_never_leaks.continuous': 'padding_never_leaks.continuous',
    'padding_never_leaks.categorical': 'padding_never_leaks.categorical', 'padding_zero': 'padding_never_leaks.continuous',
    'reward_is_score': 'reward_is_score_of_candidate.residual', 'row_is_the_stored': 'reward_is_score_of_candidate.residual',
    'count': 'returns_requested_count', 'shapes': 'returns_requested_count', 'randomness': 'same_seed_same_result',
    'zero_padding': 'padding_never_leaks.continuous', 'update_receives': 'reward_is_score_of_candidate.residual',
    'returns': 'returns_requested_count', 'no_ambient': 'same_seed_same_result', 'seed_reaches': 'same_seed_same_result',
    'acquisition_seed': 'reward_is_score_of_candidate.residual', 'padded_prior': 'continuous_in_unit_cube',
}


def battery_replay(name, rec):
    """directed native search: the end-to-end battery on the real optimizer; reproduced iff the clause this obligation feeds fails."""
    finish_standins()
    for frag, sn in (('continuous_in_unit_cube', 'standin_in_cube_any_prior'), ('pool_continuous', 'standin_in_cube_any_prior'),
                     ('evaluation_budget', 'standin_no_placeholder'), ('no_placeholder', 'standin_no_placeholder'),
                     ('evaluated_after', 'standin_no_placeholder'), ('reward_is_score_of_candidate', 'standin_no_placeholder'),
                     ('pool_size', 'standin_eagle_priors')):
        r = STANDIN_RES.get(sn)
        if frag in name and isinstance(r, dict) and r.get('held') is False:
            return {'driver': 'replay/c19_replay.py witness %s' % sn, 'failing_input': r.get('failing_input'), 'bound': r.get('bound')}, True
    if 'res' not in BATTERY and BATTERY.get('tier') == 'quick' and time.time() - T_START[0] > 240:
        # run-time bound of the quick tier on a failing tree: no (minutes long) native battery any more; the verdict does not depend on it
        return {'driver': 'replay/c19_replay.py battery', 'skipped': 'quick-tier run-time bound reached'}, None
    if 'res' not in BATTERY:
        BATTERY['res'] = run_native(REPLAY, ['battery'] + (['quick'] if BATTERY.get('tier') == 'quick' else []), timeout=7200)
    res = BATTERY['res']
    if 'violated' not in res:
        return {'driver': 'replay/c19_replay.py battery', 'native': res}, None
    clause = None
    for frag, cl in CLAUSE_OF.items():
        if frag in name:
            clause = cl
            break
    hits = [r for r in res.get('failing_runs', []) if clause in r.get('violated', [])] if clause else []
    hit = res['violated'].get(clause) if clause else None
    # failures explained by the recorded findings are not evidence for THIS obligation
    def explained(inp):
        if inp.get('strategy') == 'random' and inp.get('feature_padding'):
            return True                                              # random strategy ignores padding
        if inp.get('strategy') == 'eagle[RANDOM]' and inp.get('score') in ('neginf', 'nan_region') and 'continuous_in_unit_cube' == clause:
            return 'continuous_not_nan[RANDOM]' not in name          # RANDOM normalisation NaN
        return False
    cands = [h for h in ([hit] if hit else []) + hits if h is not None and not explained(h)]
    hit = cands[0] if cands else None
    return {'driver': 'replay/c19_replay.py battery', 'clause': clause, 'failing_input': hit, 'runs': res.get('runs')}, (True if hit else False)


# ------------------------------------------------------------------------------------------ E. determinism (read frame)
FRAME_ENTRIES = [
    dict(name='VectorizedOptimizer.__call__', kind='object', mod=VB, cls='VectorizedOptimizer', seeds=(), methods=(('__call__', ('seed',)),),
         factories=(), randomized=True),
    dict(name='VectorizedEagleStrategy', kind='object', mod=ES, cls='VectorizedEagleStrategy', seeds=(),
         methods=(('init_state', ('seed',)), ('suggest', ('seed',)), ('update', ('seed',))), factories=(), randomized=True),
    dict(name='DefaultRandomSampler.__call__', kind='object', mod=ES, cls='DefaultRandomSampler', seeds=(), methods=(('__call__', ('seed',)),),
         factories=(), randomized=True),
    dict(name='RandomVectorizedStrategy', kind='object', mod=RV, cls='RandomVectorizedStrategy', seeds=(),
         methods=(('suggest', ('seed',)),), factories=(), randomized=True),
]


def frame_obligations(chk):
    """no ambient nondeterminism (time, global RNGs, uuid, set iteration ...) is reachable from the optimizer and the strategies;
    the only randomness is jax.random fed from the seed argument (class-aware call-graph closure over the real AST)."""
    from contracts import c14
    chk.trust('pyvc.readframe abstract interpreter (class-aware closure, taint, guard evaluation) as used by C14')
    for entry in FRAME_ENTRIES:
        t0 = time.time()
        try:
            s, found, converged, methods, missing = c14.analyse(entry)
        except Exception as ex:          # analyser failure is a checker error, never a verdict
            chk.error('C19.%s.frame' % entry['name'], 'read-frame analysis failed: %r' % (ex,))
            continue
        amb, seedv, assumptions = c14.decide(entry, s, found)
        dt = time.time() - t0
        for a in assumptions[:6]:
            chk.assume('%s: %s' % (entry['name'], a))
        fn = entry['name']
        if missing:
            chk.obligation('C19.%s.frame_entry' % fn, fn, 'frame', report.ERROR, dt, detail='methods / seed parameters not found: %s' % missing)
            continue
        if not converged:
            chk.obligation('C19.%s.no_ambient_nondeterminism' % fn, fn, 'frame', report.UNDECIDED, dt, detail='fixpoint not reached')
            continue
        detail = {'methods': methods, 'functions_in_closure': s.get('functions', None) if isinstance(s, dict) else None}
        if amb:
            rep, reproduced = battery_replay('C19.%s.no_ambient_nondeterminism' % fn, None)
            chk.obligation('C19.%s.no_ambient_nondeterminism' % fn, fn, 'frame', report.VIOLATED, dt, detail=dict(detail, ambient=amb[:6]),
                           model='\n'.join(str(a) for a in amb[:10]), replay=rep, reproduced=reproduced)
        else:
            chk.obligation('C19.%s.no_ambient_nondeterminism' % fn, fn, 'frame', report.PROVED, dt, detail=detail)
        if seedv:
            chk.obligation('C19.%s.seed_reaches_every_rng' % fn, fn, 'frame', report.VIOLATED, 0.0, detail={'violations': seedv[:6]},
                           model='\n'.join(seedv[:10]), replay={'driver': 'replay/c19_replay.py battery', 'clause': 'same_seed_same_result'}, reproduced=None)
        else:
            chk.obligation('C19.%s.seed_reaches_every_rng' % fn, fn, 'frame', report.PROVED, 0.0, detail={'seed_parameters': found})


# ------------------------------------------------------------------------------------------ conformance of the assumed contracts
CONTRACT_USERS = {
    'argpartition': 'C19._update_best_results.topk.residual, C19._update_best_results.pairs.*',
    'argsort': 'C19.eagle.init_state.* (prior path: _mask_flip)', 'argmin_argmax': 'C19.eagle.init_state.populate.*',
    'clip': 'C19.eagle.DefaultProjection.*, C19.eagle.suggest.continuous_in_unit_cube_or_nan',
    'maximum_minimum': 'C19.eagle.suggest.continuous_not_nan[*]', 'nan_to_num': 'C19.eagle.suggest.continuous_not_nan[MEAN]',
    'float_predicates': 'C19.eagle.init_state.*, C19.eagle.suggest.continuous_not_nan[*]', 'ieee_specials_in_arithmetic': 'every obligation over rewards / logits',
    'where_concatenate_reshape': 'all sections', 'broadcasting': 'all sections', 'traced_index': 'C19._update_best_results.pairs.*, C19.eagle.*',
    'at_set_add': 'C19.eagle.suggest.categorical_valid, C19.eagle.init_state.populate.*', 'dynamic_slice_in_dim': 'C19.eagle.suggest.*, C19.eagle.update.*',
    'dynamic_update_slice_in_dim': 'C19.eagle.update.*', 'cond': 'C19.eagle.suggest.*, C19.eagle.update.*, C19.eagle.init_state.populate.*',
    'fori_loop': 'C19.__call__.loop.*, C19.eagle.init_state.populate.*', 'vmap': 'C19.eagle.suggest.categorical_valid',
    'tree_map': 'C19.__call__.*, C19.eagle.*', 'random': 'C19.*.continuous_in_unit_cube, C19.*.randomness_only_from_seed',
    'categorical': 'C19.eagle.suggest.categorical_valid, C19.eagle.DefaultRandomSampler.categorical_valid, C19.random.suggest.categorical_valid',
    'conformance_test_ran': 'the conformance test itself',
}


def start_conformance(tier):
    env = dict(os.environ)
    env['VERIF_REPO'] = source.REPO
    os.makedirs(OUT, exist_ok=True)
    return subprocess.Popen([VENV_PY, CONFORMANCE, tier], stdout=subprocess.PIPE, stderr=subprocess.PIPE, text=True, env=env, cwd=VERIF)


def finish_conformance(chk, proc, tier):
    try:
        out, err = proc.communicate(timeout=3600)
    except subprocess.TimeoutExpired:
        proc.kill()
        chk.error('C19.conformance', 'the native conformance test timed out (not a verdict)')
        return
    res = None
    for line in reversed((out or '').strip().splitlines()):
        if line.startswith('{'):
            try:
                res = json.loads(line)
            except ValueError:
                pass
            break
    if res is None:
        chk.error('C19.conformance', 'the native conformance test produced no result: rc=%s %s' % (proc.returncode, (err or '')[-500:]))
        return
    failed = {k: v for k, v in res.items() if not v.get('ok')}
    chk.extra['conformance'] = {'contracts_tested': len(res), 'cases': sum(v.get('cases', 0) for v in res.values()), 'failed': sorted(failed)}
    chk.bounded_standin('C19.conformance: every assumed jnp / lax / jax.random / tfd.Categorical contract of pyvc/jx_model.py against the real library',
                        '%d contracts, %d native cases (%s tier)' % (len(res), sum(v.get('cases', 0) for v in res.values()), tier),
                        'held' if not failed else 'FAILED: %s' % sorted(failed))
    for k, v in sorted(failed.items()):
        users = CONTRACT_USERS.get(k.split('.')[0], 'obligations of contracts/c19.py')
        chk.obligation('C19.assumed_contract.%s' % k, 'pyvc/jx_model.py', 'native conformance test', report.VIOLATED, 0.0,
                       detail={'assumption_used_by': users, 'native_counterexample': v.get('detail')},
                       model=json.dumps(v.get('detail'))[:3000], replay={'driver': 'replay/c19_conformance.py', 'contract': k, 'counterexample': v.get('detail')},
                       reproduced=True)


# ------------------------------------------------------------------------------------------ main
F_PRIOR = ('RandomVectorizedStrategy.init_state ignores prior_features / prior_rewards, and VectorizedOptimizer.__call__ does not merge the scored '
           'priors into its best results ("TODO: Consider initializing with prior features/rewards"): with the random strategy the optimizer returns a '
           'result worse than the best prior point it was seeded with')
F_OOV = ('a prior row whose categorical feature is the out-of-vocabulary index (the converter\'s encoding of an unknown / missing category, == number of '
         'categories) enters the Eagle pool and is suggested unchanged during the initialisation rounds (DefaultProjection only clips the continuous '
         'features): the optimizer returns a candidate whose categorical feature is not a valid category index')
F_PLACEHOLDER = ('the best-results buffer starts as `count` all-zero candidates with reward -inf that were never evaluated; they are returned when the '
                 'caller asks for more results than it allows evaluations (count > max_evaluations) or when the score function returns -inf / NaN '
                 '(which tie with them): the reported reward -inf is not the score of the returned all-zero candidate')
F_RANDNORM = ('MutateNormalizationType.RANDOM divides the random pull / push weight matrix by its row sum, which is 0 for a firefly without a '
              'positive pull (e.g. all pool rewards non-finite): 0/0 = NaN reaches the continuous features, jnp.clip keeps NaN, and NaN '
              'candidates are returned')

FINDINGS = {
    'C19._update_best_results.topk': F_NAN, 'C19._update_best_results.best_never_decreases': F_NAN,
    'C19.random.init_state.uses_prior_features': F_PRIOR, 'C19.__call__.reward_is_score_of_candidate': F_PLACEHOLDER,
    'C19.eagle.init_state.pool_categorical_valid': F_OOV,
    'C19.random.suggest.result_shapes': F_RANDPAD, 'C19.random.declares_real_feature_counts': F_RANDPAD,
    'C19.factory[random].optimizer_masks_exactly_the_padding': F_RANDPAD,
    'C19.eagle.suggest.continuous_not_nan[RANDOM]': F_RANDNORM,
}


INIT_FULL = []
STANDINS = {
    'standin_in_cube_any_prior': ('C19.eagle.suggest.continuous_in_unit_cube[native stand-in: priors outside the cube]', EAGLE + '.suggest'),
    'standin_no_placeholder': ('C19.__call__.no_placeholder_within_budget[native stand-in: count > 1]', CALL),
    'standin_eagle_priors': ('C19.eagle.not_worse_than_best_prior[native stand-in]', EAGLE + '.init_state'),
}
STANDIN_RES = {}


def standins(chk):
    """bounded native stand-ins for the clauses that are not proved deductively in full generality (never counted as proved)."""
    for name, (obl, fn) in STANDINS.items():
        r = STANDIN_RES.get(name)
        if not isinstance(r, dict) or 'held' not in r:
            chk.bounded_standin(obl, 'native run', 'not run: %s' % (r,))
            continue
        chk.bounded_standin(obl, r.get('bound'), 'held' if r['held'] else 'FAILED', detail=r.get('failing_input'))
        if not r['held']:
            chk.obligation(obl, fn, 'native stand-in', report.VIOLATED, 0.0, detail={'bound': r.get('bound')}, model=json.dumps(r.get('failing_input'))[:3000],
                           replay={'driver': 'replay/c19_replay.py witness %s' % name, 'failing_input': r.get('failing_input')}, reproduced=True)


WITNESS = {}         # witness name -> True (reproduces on the current tree) | False | None (could not be run)
UNVERIFIED = {}      # obligation -> reason
_NOTED = set()


def witness_name(f):
    args = (f.get('witness') or {}).get('args') or []
    return args[1] if len(args) > 1 and args[0] == 'witness' else None


def _spawn(names):
    env = dict(os.environ)
    env['VERIF_REPO'] = source.REPO
    return subprocess.Popen([VENV_PY, REPLAY, 'witness'] + list(names), stdout=subprocess.PIPE, stderr=subprocess.PIPE, text=True, env=env, cwd=VERIF)


def _join(proc, timeout=3600):
    """-> dict of the driver's JSON line, {} when the subprocess failed / timed out (never a verdict)."""
    if proc is None:
        return {}
    try:
        out, err = proc.communicate(timeout=timeout)
    except subprocess.TimeoutExpired:
        proc.kill()
        return {}
    for line in reversed((out or '').strip().splitlines()):
        if line.startswith('{'):
            try:
                return json.loads(line)
            except ValueError:
                return {}
    return {}


WPROC = {}


def start_witnesses(chk):
    """three native subprocesses in parallel: the witnesses of the open findings; the stand-ins (two groups)."""
    names = sorted({witness_name(f) for f in chk.findings if f.get('status', 'open') == 'open' and witness_name(f)})
    WPROC.clear()
    WPROC.update({'names': names, 'findings': _spawn(names) if names else None,
                  'standins': [(g, _spawn(g)) for g in (['standin_eagle_priors'], ['standin_no_placeholder', 'standin_in_cube_any_prior'])]})
    WITNESS.clear()
    STANDIN_RES.clear()
    UNVERIFIED.clear()
    _NOTED.clear()
    return WPROC['findings'], names


def finish_witnesses(proc=None, names=None):
    """join the subprocess replaying the witnesses of the open findings (idempotent)."""
    if WPROC.get('findings_done') or 'names' not in WPROC:
        return
    WPROC['findings_done'] = True
    for n in WPROC['names']:
        WITNESS[n] = None
    res = _join(WPROC['findings'])
    for n in WPROC['names']:
        r = res.get(n)
        if isinstance(r, dict) and isinstance(r.get('reproduced'), bool):
            WITNESS[n] = r['reproduced']


def finish_standins():
    if WPROC.get('standins_done') or 'standins' not in WPROC:
        return
    WPROC['standins_done'] = True
    for group, proc in WPROC['standins']:
        res = _join(proc)
        for n in group:
            STANDIN_RES[n] = res.get(n)


def active_finding(chk, name):
    """the recorded finding of obligation `name` iff it is listed OPEN and its witness reproduces on the current tree.
    Listed open but not reproducing: a plain NOTE, the full obligation is attempted.  Witness not runnable: UNVERIFIED."""
    f = chk.finding_for(name)
    if f is None:
        return None
    w = witness_name(f)
    st = WITNESS.get(w) if w else None
    if st is True:
        return f
    if st is False:
        if name not in _NOTED:
            _NOTED.add(name)
            print('NOTE: known finding no longer reproduced on the current tree (stale, witness %s): property=C19 obligation=%s' % (w, name))
        return None
    UNVERIFIED[name] = 'witness %s' % w
    return f


def open_findings(chk, names):
    """the ACTIVE findings among `names`: listed open in known_findings.d/C19.json and reproduced natively in this run."""
    out = {}
    for n in names:
        f = active_finding(chk, n)
        if f is not None:
            out[n] = f.get('what', FINDINGS.get(n, n))
    return out


def nan_obligations(chk, pv, modes, classes):
    """C19.eagle.suggest.continuous_not_nan[<normalization>]: NaN is not among the value classes of the returned continuous
    features (abstract interpretation of the same symbolic paths; together with continuous_in_unit_cube_or_nan: inside [0, 1])."""
    fn = EAGLE + '.suggest'
    by_norm = {}
    for label, ks in classes.items():
        norm = label[len('suggest['):].split(',')[0]
        by_norm.setdefault(norm, []).extend(ks)
    for norm, kss in sorted(by_norm.items()):
        name = 'C19.eagle.suggest.continuous_not_nan[%s]' % norm
        t0 = time.time()
        detail = {'paths': len(kss), 'classes': sorted({k for ks in kss if ks is not None for k in ks}), 'assumption': J.A_LAPLACE}
        if any(ks is None for ks in kss):
            chk.obligation(name, fn, 'value classes', report.UNDECIDED, 0.0, detail=dict(detail, reason='no returned features on some path'))
            continue
        free = all('nan' not in ks for ks in kss)
        finding = active_finding(chk, name)
        if free:
            if finding is not None and name not in UNVERIFIED:
                print('NOTE: known finding no longer reproduced by the check (stale): property=C19 obligation=%s' % name)
            chk.obligation(name, fn, 'value classes (z3-derived transformers)', report.PROVED, time.time() - t0, detail=detail)
            continue
        if finding is not None and name in UNVERIFIED:
            chk.obligation(name, fn, 'native witness', report.UNDECIDED, 0.0, detail=dict(detail, reason='recorded open finding whose native witness could not be run'))
            continue
        if finding is not None:
            chk.obligation(name, fn, 'value classes (z3-derived transformers)', report.KNOWN, 0.0, detail=detail, finding=finding.get('what', F_RANDNORM))
            # residual: the same analysis when no self-normalisation x / jnp.sum(x, ...) divides by zero
            J.RESIDUAL_SELFNORM[0] = True
            try:
                res_ok, npaths, sites = True, 0, 0
                for m in [m for m in modes if m[0] == norm]:
                    for p in E.explore(suggest_entry(None, *m), max_paths=400):
                        if p.kind != 'return':
                            continue
                        npaths += 1
                        sites += len(getattr(p.run, 'jx_selfnorm', []))
                        ks = suggest_classes(p)
                        res_ok = res_ok and ks is not None and 'nan' not in ks
            finally:
                J.RESIDUAL_SELFNORM[0] = False
            chk.obligation(name + '.residual', fn, 'value classes (z3-derived transformers)', report.PROVED if res_ok else report.UNDECIDED, time.time() - t0,
                           detail={'clause': 'no NaN when no self-normalisation x / jnp.sum(x, axis, keepdims=True) divides by zero (outside the finding\'s witness class)',
                                   'paths': npaths, 'self_normalisation_sites': sites})
            continue
        # "may be NaN" is not a refutation: directed native search on the real code
        rep, reproduced = battery_replay(name, None)
        if reproduced:
            chk.obligation(name, fn, 'value classes + native battery', report.VIOLATED, 0.0, detail=detail, model='value classes of the returned continuous '
                           'features: %s' % detail['classes'], replay=rep, reproduced=True)
        else:
            chk.obligation(name, fn, 'value classes (z3-derived transformers)', report.UNDECIDED, 0.0,
                           detail=dict(detail, reason='NaN is among the possible value classes; the native battery found no failing input'))


def pool_entry(concrete=None, batch_given=True):
    """VectorizedEagleStrategyFactory.__call__ with SYMBOLIC numbers of features, batch size and max_pool_size (eagle_config.pool_size
    == 0, the programmatic pool size): pure integer arithmetic of the real factory code."""
    def entry(it):
        run = it.run
        d = dims(run, ['nfeat', 'B', 'maxpool'], concrete, {'nfeat': 1, 'B': 1, 'maxpool': 1})
        conv, Dc, Dk = make_converter(it, 0, [], 0, 0)
        c = EagleCtx()
        c.d, c.batch_given = d, batch_given
        run.c19 = c
        FD = klass(ES, 'FeatureDimensions')
        fd = Obj(FD, {'categorical_sizes': [], 'n_feature_dimensions_with_padding': CC(d['nfeat'], 0), 'n_feature_dimensions': CC(d['nfeat'], 0)})
        E.MODELS[ES + ':compute_feature_dimensions_from_converter'] = lambda it_, a, k: fd       # contract: the feature counts of the converter
        try:
            cfg = eagle_config(it, symbolic=False)
            cfg.attrs['max_pool_size'] = d['maxpool']
            cfg.attrs['pool_size'] = 0
            fac = it.call(klass(ES, 'VectorizedEagleStrategyFactory'), [], {'eagle_config': cfg})
            return it.call(fac, [conv], {'suggestion_batch_size': d['B'] if batch_given else None})
        finally:
            E.MODELS.pop(ES + ':compute_feature_dimensions_from_converter', None)
    return entry


def pool_post(path):
    N = 'C19.eagle.factory.'
    if path.kind == 'end':
        return []
    if path.kind != 'return':
        return [(N + 'returns', z3.BoolVal(False))]
    run = path.run
    c = run.c19
    st = path.value
    try:
        pool, batch = st.attrs['pool_size'], st.attrs['batch_size']
    except (AttributeError, KeyError):
        return [(N + 'pool_size_multiple_of_batch', z3.BoolVal(False))]
    pool, batch = zi(J.unwrap0(pool)), zi(J.unwrap0(batch))
    if conc(pool) is not None and conc(batch) is not None:
        mult = z3.BoolVal(conc(batch) >= 1 and conc(pool) % conc(batch) == 0)
    else:
        # exists k. pool == k * batch; candidates for k: 1 (batch := pool) and the values rounded by math.ceil in the factory
        ks = [z3.IntVal(1)] + list(getattr(run, 'jx_ceils', []))
        mult = z3.Or(*[pool == k * batch for k in ks])
    out = [(N + 'pool_size_multiple_of_batch', mult), (N + 'pool_size_at_least_one_batch', z3.And(batch >= 1, pool >= batch))]
    if c.batch_given:
        out.append((N + 'batch_size_is_the_requested_one', batch == zi(c.d['B'])))
    return out


FACTORY_LAYOUTS = [(2, 1, 0, 0, 5), (0, 2, 1, 0, 25), (3, 0, 0, 1, 7), (1, 3, 2, 3, 1), (1, 0, 0, 0, 25)]      # (n_cont, n_cat, pad_cat, pad_cont, batch)


def factories(chk, pv, quick):
    """bounded: the factories establish the class invariants assumed in sections B-D, on enumerated layouts (category counts symbolic)."""
    layouts = FACTORY_LAYOUTS[:3] if quick else FACTORY_LAYOUTS
    sub = report.Check('C19', chk.tier)
    sub.findings = chk.findings
    pv2 = Prover(sub, chk.tier)
    ent = [('eagle n_cont=%d n_cat=%d pad_cat=%d pad_cont=%d batch=%d' % l, factory_entry('eagle', l[1], l[2], {'nc': l[0], 'padc': l[3], 'B': l[4]})) for l in layouts]
    ent += [('random n_cat=%d pad_cat=%d' % (l[1], l[2]), factory_entry('random', l[1], l[2])) for l in layouts]
    known = open_findings(chk, ['C19.factory[random].optimizer_masks_exactly_the_padding'])
    pv2.run('VectorizedOptimizerFactory.__call__', ent, factory_post, twins=ent, findings=known, replay=battery_replay)
    bad = [o for o in sub.obligations if o['result'] in (report.VIOLATED, report.UNDECIDED, report.ERROR)]
    for o in sub.obligations:
        if o['result'] == report.KNOWN:
            chk.obligation(o['obligation'], o['function'], o['backend'], report.KNOWN, o['time_s'], detail=o.get('detail'), finding=o.get('finding'))
        elif o['result'] == report.PROVED and o['obligation'].endswith('.residual'):
            chk.obligation(o['obligation'], o['function'], o['backend'], report.PROVED, o['time_s'], detail=o.get('detail'))
    for o in bad:
        # a definite counterexample on an enumerated layout is a violation like any other
        chk.obligation(o['obligation'], o['function'], o['backend'], o['result'], o['time_s'], detail=o.get('detail'),
                       model=str(o.get('detail'))[:2000] if o['result'] == report.VIOLATED else None,
                       replay={'driver': 'replay/c19_replay.py battery'} if o['result'] == report.VIOLATED else None)
    chk.bounded_standin('C19.factory: VectorizedOptimizerFactory / VectorizedEagleStrategyFactory / random_strategy_factory establish the optimizer '
                        'configuration and the Eagle class invariant (sizes, padding zeros, max size, pool size a multiple of the batch size)',
                        '%d enumerated layouts (n_cont, n_cat, padding, batch), category counts symbolic' % len(layouts),
                        'held' if not bad else 'FAILED: %s' % [o['obligation'] for o in bad],
                        detail=[(o['obligation'], o['result']) for o in sub.obligations])


def main(tier):
    quick = tier == 'quick'
    chk = report.Check('C19', tier, level='proof',
                       technique='contract-based deductive verification: the real ASTs of vectorized_base / eagle_strategy / random_vectorized_optimizer '
                                 'are executed symbolically (pyvc engine + pyvc/jx_model.py: arrays as total functions over symbolic shapes, jnp/lax/'
                                 'jax.random/tfd primitives under assumed, natively conformance-tested contracts, score function uninterpreted, '
                                 'fori_loop by invariant on the real body function, vmap point-wise); obligations discharged by z3; NaN-freedom by '
                                 'value-class abstract interpretation with z3-derived transformers; determinism by read-frame analysis; open '
                                 'obligations are decided on concrete shapes (quantifier-free, loops unrolled) and replayed natively')
    wproc, wnames = start_witnesses(chk)
    proc = start_conformance(tier)
    for t in J.TRUST:
        chk.trust(t)
    for t in AM.TRUST[:1]:
        chk.trust(t)
    chk.assume(A_MATH)
    chk.assume(A_SCORE)
    chk.assume(A_CONV)
    chk.assume('prior features handed to the optimizer: the continuous features of unpadded prior rows are arbitrary FINITE reals (also outside the unit '
               'cube; a trial that lacks a parameter value gives NaN, which is outside the claim); their categorical features are arbitrary (an index '
               'outside the categories is the recorded out-of-vocabulary finding); padded rows / positions may hold anything (NaN, -1)')
    chk.assume('class invariant of VectorizedEagleStrategy that its methods rely on (batch arithmetic, dynamic_slice_in_dim): pool_size is a positive multiple '
               'of batch_size -- established by the factory for eagle_config.pool_size == 0 (C19.eagle.factory.pool_size_multiple_of_batch, proved for '
               'symbolic feature counts / batch / max_pool_size); an explicitly configured eagle_config.pool_size must itself be such a multiple')
    chk.assume('the Eagle configuration knobs are arbitrary finite numbers; prob_same_category_without_perturbation in (0, 1); the search space '
               'has at least one feature; pool_size >= batch_size >= 1')
    for mod, qual in ((VB, UBR), (VB, CALL), (VB, '_optimizer_to_model_input'), (VB, 'optimizer_to_model_input_single_array'),
                      (VB, '_reshape_to_parallel_batches'), (VB, 'VectorizedOptimizerFactory.__call__'),
                      (ES, EAGLE + '.suggest'), (ES, EAGLE + '._create_features'), (ES, EAGLE + '._create_logits_vector'),
                      (ES, EAGLE + '._create_logits_one_feature'), (ES, EAGLE + '._create_categorical_feature_logits'),
                      (ES, EAGLE + '._create_random_perturbations'), (ES, EAGLE + '.update'), (ES, EAGLE + '._update_pool_features_and_rewards'),
                      (ES, EAGLE + '._trim_pool'), (ES, EAGLE + '.init_state'), (ES, EAGLE + '._populate_pool_with_prior_trials'),
                      (ES, '_mask_flip'), (ES, '_compute_features_dist_squared'), (ES, 'DefaultRandomSampler.__call__'),
                      (ES, 'DefaultProjection.__call__'), (ES, 'VectorizedEagleStrategyFactory.__call__'),
                      (ES, 'compute_feature_dimensions_from_converter'), (RV, 'RandomVectorizedStrategy.__init__'),
                      (RV, 'RandomVectorizedStrategy.suggest'), (RV, 'random_strategy_factory')):
        chk.function(mod, qual)
    pv = Prover(chk, tier)
    Prover.OPEN['t'] = 0.0
    T_START[0] = time.time()
    E.MODELS.pop(UBR_KEY, None)
    BATTERY.clear()
    BATTERY['tier'] = tier

    # (the sections that do not depend on recorded findings run first, while the native witnesses of the open findings are replayed)
    # ---- C. Eagle strategy meets the interface contract and keeps its state invariant
    ctw = {'pool': 2, 'B': 1, 'P': 1, 'Dc': 1, 'Dk': 1, 'nc': 1, 'nk': 1, 'K': 2, 'n': 2, 'Nb': 3}
    pv.run('DefaultProjection.__call__', [('symbolic', projection_entry())], projection_post, twins=[('concrete', projection_entry(ctw))], replay=battery_replay)
    pv.run('DefaultRandomSampler.__call__', [('symbolic', sampler_entry())], sampler_post, twins=[('concrete', sampler_entry(ctw))], replay=battery_replay)
    modes = [('MEAN', 'ADDITIVE'), ('RANDOM', 'ADDITIVE'), ('UNNORMALIZED', 'MULTIPLICATIVE')] if quick else \
        [(a, b) for a in ('MEAN', 'RANDOM', 'UNNORMALIZED') for b in ('ADDITIVE', 'MULTIPLICATIVE')]
    classes = {}

    def observe(label, path):
        if label.startswith('suggest['):
            ks = suggest_classes(path)
            classes.setdefault(label, []).append(ks)
    pv.observer = observe
    pv.run(EAGLE + '.suggest', [('suggest[%s,%s]' % m, suggest_entry(None, *m)) for m in modes], suggest_post,
           twins=[('suggest[%s,%s] concrete' % m, suggest_entry(ctw, *m)) for m in modes[:2]], replay=battery_replay)
    pv.observer = None
    pv.run(EAGLE + '.update', [('update[%s,%s]' % m, update_entry(None, *m)) for m in modes[:1]], state_post('C19.eagle.update.'),
           twins=[('concrete', update_entry(ctw))], replay=battery_replay)
    # priors: arbitrary finite continuous features; categorical priors valid = residual regime of the out-of-vocabulary finding
    res_name = lambda n: n + '.residual' if n.endswith('pool_categorical_valid') else n
    pv.run(EAGLE + '.init_state', [('no prior', init_entry()), ('prior, categorical priors valid', init_entry(prior=True))], state_post('C19.eagle.init_state.'),
           twins=[('no prior concrete', init_entry(ctw)), ('prior concrete', init_entry(ctw, prior=True))], replay=battery_replay, rename=res_name)
    INIT_FULL.append(lambda: pv.run(EAGLE + '.init_state', [('no prior', init_entry()), ('prior, arbitrary categorical priors', init_entry(prior=True, cat_valid=False))],
                                    state_post('C19.eagle.init_state.'), twins=[('prior concrete, arbitrary categorical priors', init_entry(ctw, prior=True, cat_valid=False))],
                                    findings=open_findings(chk, ['C19.eagle.init_state.pool_categorical_valid']), replay=battery_replay,
                                    only=lambda n: n.endswith('init_state.pool_categorical_valid')))

    # ---- E. determinism
    frame_obligations(chk)
    # ---- recorded findings count only if listed open AND reproduced natively on the current tree
    finish_witnesses(wproc, wnames)
    for thunk in INIT_FULL:
        thunk()
    del INIT_FULL[:]
    # ---- A. _update_best_results (real code, full functional contract)
    known_a = open_findings(chk, ['C19._update_best_results.topk', 'C19._update_best_results.best_never_decreases'])
    NAN_FINDING_ACTIVE[0] = bool(known_a)
    twins_a = [('count=%d,B=%d' % (c, b), ubr_entry({'count': c, 'B': b, 'P': 1, 'Dc': 1, 'Dk': 1})) for c, b in ((2, 2), (1, 1), (2, 1))]
    pv.run(UBR, [('symbolic', ubr_entry())], ubr_post, twins=twins_a, findings=known_a, replay=ubr_replay)
    res_a = {o['obligation']: o['result'] for o in chk.obligations if o['obligation'].startswith('C19._update_best_results.')}
    STRONG_MERGE[0] = bool(res_a) and all(r == report.PROVED for n, r in res_a.items() if not n.endswith('.residual'))
    chk.note('Section B uses the %s top-k contract of _update_best_results (what section A proved on this tree). '
             % ('full rank-based' if STRONG_MERGE[0] else 'residual (NaN finding open)'))

    # ---- B. __call__ against the strategy interface contract, with the contract of A as the model of _update_best_results
    E.MODELS[UBR_KEY] = ubr_model
    try:
        combos = list(itertools.product([True, False], repeat=5))
        if quick:
            combos = [c for k, c in enumerate(combos) if (c[3] == c[0]) and (c[4] != c[1])]       # 8 configurations covering every flag pair-wise
        entries = [('fori=%d,prior=%d,n_parallel=%d,seed=%d,aux=%d' % tuple(map(int, c)), call_entry(None, *c)) for c in combos]
        tw = [('fori=1,prior=1,n_parallel=2,count=2,batch=1,iterations=2', call_entry({'count': 2, 'B': 1, 'P': 2, 'Dc': 2, 'Dk': 1, 'nc': 1, 'nk': 1, 'M': 2, 'Np': 4, 'No': 2},
                                                                                 True, True, True, True, False)),
              ('fori=0,prior=0,aux=1,count=1,batch=2,max_evaluations=3', call_entry({'count': 1, 'B': 2, 'P': 1, 'Dc': 1, 'Dk': 2, 'nc': 1, 'nk': 1, 'M': 3, 'Np': 0, 'No': 0},
                                                                                   False, False, False, False, True)),
              ('fori=1,prior=0,count=1,batch=2,max_evaluations=1', call_entry({'count': 1, 'B': 2, 'P': 1, 'Dc': 1, 'Dk': 1, 'nc': 1, 'nk': 1, 'M': 1, 'Np': 0, 'No': 0},
                                                                             True, False, False, True, False))]
        known_b = open_findings(chk, ['C19.__call__.reward_is_score_of_candidate'])
        ren = lambda n: n.replace('VectorizedOptimizer.__call__.loop1.', 'C19.__call__.loop.pyloop.')
        pv.run(CALL, entries, call_post, twins=tw, findings=known_b, replay=battery_replay, rename=ren)
        # count == 1 (the default), score functions without NaN values: the result dominates every row evaluated in any iteration
        ent1 = [('count=1,fori=%d,track evaluated rows' % f, call_entry({'count': 1}, bool(f), False, True, True, False, track_evaluated=True)) for f in (1, 0)]
        pv.run(CALL, ent1, call_post, findings={}, replay=battery_replay, rename=ren, only=lambda n: 'count=1' in n)
        # count == 1 <= max_evaluations, scores above -inf: the result is an evaluated candidate (residual of the placeholder finding)
        small = {'count': 1, 'B': 2, 'P': 1, 'Dc': 1, 'Dk': 1, 'nc': 1, 'nk': 1, 'M': 1, 'Np': 0, 'No': 0}
        ent2 = [('count=1,fori=%d,scores above -inf' % f, call_entry({'count': 1}, bool(f), False, True, True, False, scores_above_neg_inf=True)) for f in (1, 0)]
        tw2 = [('count=1,fori=%d,batch=2,max_evaluations=1,scores above -inf' % f, call_entry(small, bool(f), False, False, True, False, scores_above_neg_inf=True)) for f in (1, 0)]
        pv.run(CALL, ent2, call_post, twins=tw2, findings={}, replay=battery_replay, rename=ren, only=lambda n: 'count=1' in n)
    finally:
        E.MODELS.pop(UBR_KEY, None)

    nan_obligations(chk, pv, modes, classes)
    # ---- D. random strategy and the factories
    layouts = LAYOUTS_QUICK if quick else LAYOUTS_THOROUGH
    known_d = open_findings(chk, ['C19.random.suggest.result_shapes', 'C19.random.declares_real_feature_counts'])
    pv.run('RandomVectorizedStrategy.suggest', [('ncat=%d,padded_cat=%d' % l, random_entry(*l)) for l in layouts], random_post,
           twins=[('ncat=%d,padded_cat=%d concrete' % l, random_entry(l[0], l[1], {'nc': 1, 'padc': 1, 'B': 2, 'P': 1, 'M': 2, 'sizes': [2, 3, 2]})) for l in layouts[:4]],
           findings=known_d, replay=battery_replay)
    pv.run('RandomVectorizedStrategy.init_state', [('prior', random_init_entry(True)), ('no prior', random_init_entry(False))], random_init_post,
           findings=open_findings(chk, ['C19.random.init_state.uses_prior_features']), replay=battery_replay)
    pv.run('VectorizedEagleStrategyFactory.__call__', [('batch given', pool_entry()), ('batch None', pool_entry(batch_given=False))], pool_post,
           twins=[('n_features=20,batch=25,max_pool_size=30', pool_entry({'nfeat': 20, 'B': 25, 'maxpool': 30})),
                  ('n_features=3,batch=40,max_pool_size=100', pool_entry({'nfeat': 3, 'B': 40, 'maxpool': 100}))], replay=battery_replay)
    factories(chk, pv, quick)

    chk.note('The symbolic results are functions of the PRNG key: jax.random.split/uniform/laplace are modelled as functions of their key, and '
             'every key consumed is shown to derive from the seed argument (randomness_only_from_seed); together with the read-frame obligations '
             'this is the "same seed, same candidates" clause. ')
    finish_standins()
    standins(chk)
    finish_conformance(chk, proc, tier)
    if not quick:
        res = run_native(REPLAY, ['battery'], timeout=7200)
        chk.bounded_standin('C19.battery: end-to-end native runs of the real optimizer (eagle and random strategy; 5 layouts incl. feature padding; 4 score '
                            'functions incl. NaN / -inf; n_parallel None and 2), every clause of C19 re-checked by an independent predicate',
                            '%s runs' % res.get('runs'), 'violations only from recorded findings: %s' % sorted(res.get('violated', {}))
                            if 'violated' in res else 'error: %s' % res.get('error'), detail=res.get('violated'))
    chk.note('Proof claim: for ALL shapes (counts, batch sizes, n_parallel, padded and real feature counts, category counts), all score functions and all '
             'PRNG outputs of the documented ranges. Bounded (not in the claim): the factories / constructors (enumerated layouts). Not claimed: global '
             '"best of everything evaluated" for count > 1 (needs a pigeonhole argument; the one-step top-k contract and the monotonicity of the best '
             'reward are proved). ')
    return chk.finish(min_obligations=60)
