"""C06 -- a failing algorithm is reported and never wedges the study.

Exceptional postconditions of the real SuggestTrials and CheckTrialEarlyStoppingState: on every exit (normal or
exceptional) no suggestion operation is left not-done and no early-stopping operation is left ACTIVE (inductive:
NoOrphan(D) is preserved, so a later call never takes the 'return the unfinished operation' branch and reaches the
algorithm again); plus the client polling loop of VizierClient.get_suggestions.
"""
from pyvc import report
from contracts import suggest, earlystop, pythia_frame


def main(tier):
    from pyvc import engine as _E
    _E.SECOND_SOLVER = (tier == 'thorough')
    chk = report.Check('C06', tier, level='proof',
                       technique='contract-based deductive verification: exceptional postconditions over all paths of the real RPC methods, z3; bounded model query + replay for refutations')
    for t in ('pyvc VC generator and its Python/protobuf models (DESIGN 2, 4)', 'z3 5.1.0',
              'abstract DataStore contract (Appendix A)', 'resource-name algebra (DESIGN 4.3)'):
        chk.trust(t)
    for a in ('resource names are canonical', 'timestamps are unconstrained', 'logging has no effect',
              'exceptions raised by the pyvizier converters on Pythia output are outside the model (converters assumed total, C09)',
              'a policy reaches the Vizier service only through the ServicePolicySupporter it is given (the supporter class is scanned by the frame obligation)'):
        chk.assume(a)
    inl = set()
    inl |= suggest.run(chk, 'C06', tier)
    inl |= earlystop.run(chk, 'C06', tier)
    pythia_frame.run(chk, 'C06')
    pythia_frame.run_reporting(chk, 'C06')
    from contracts import volatile_frame
    volatile_frame.run_client(chk, 'C06')
    chk.extra['inlined_real_functions'] = sorted(inl)
    return chk.finish(min_obligations=20)
