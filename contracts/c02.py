"""C02 -- SuggestTrials hands out exactly the requested trials, sticky per worker, fresh ids.

The function under contract is the real VizierServicer.SuggestTrials (two comprehensions, two `while` loops and one
`for` loop with invariants, DESIGN.md Appendix C); postconditions are in contracts/suggest.py: count, mine, sticky,
own_first, own_list_spec, no_double_assign, fresh_ids, surplus_queued, op_number.
"""
from pyvc import report
from contracts import suggest


def main(tier):
    from pyvc import engine as _E
    _E.SECOND_SOLVER = (tier == 'thorough')
    chk = report.Check('C02', tier, level='proof',
                       technique='contract-based deductive verification: loop invariants + postconditions of the real SuggestTrials, z3')
    for t in ('pyvc VC generator and its Python/protobuf models (DESIGN 2, 4)', 'z3 5.1.0',
              'abstract DataStore contract (Appendix A): discharged for the RAM implementation in C07, bounded for SQL',
              'resource-name algebra (DESIGN 4.3)'):
        chk.trust(t)
    for a in ('resource names are canonical', 'timestamps are unconstrained', 'logging has no effect',
              'the client-side wrappers (VizierClient.get_suggestions, clients.Study.suggest) only unpack the operation: not under contract here',
              'ids increase with creation order is proved as: every new id exceeds every id stored before the call'):
        chk.assume(a)
    inl = suggest.run(chk, 'C02', tier)
    # engine-vs-CPython cross-check (DESIGN 2.8): the symbolic executor on fully concrete scenarios must predict what
    # the real service does; a disagreement means the VC generator or a model is wrong: checker error, not a violation
    from contracts import suggest_bounded
    n = 3 if tier == 'quick' else 40
    good, bad = suggest_bounded.cross_check(n, seed=chk.seed)
    chk.bounded_standin('engine_cross_check.SuggestTrials', '%d random concrete scenarios (<=2 stored trials in random states, count 1..3, Pythia delivering 0..3 or raising), '
                        'engine prediction vs real service' % n, 'agree' if not bad else 'DISAGREE', detail=bad[:3])
    if bad:
        chk.error('engine_cross_check.SuggestTrials', 'the symbolic executor and CPython disagree on a concrete scenario: %s' % str(bad[:2])[:600])
    chk.extra['inlined_real_functions'] = sorted(inl)
    return chk.finish(min_obligations=40)
