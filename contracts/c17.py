"""C17 -- clients receive parameter values in the declared external types.

Functions under contract (real ASTs from $VERIF_REPO): ParameterValue.cast / cast_as_internal / as_bool / as_int /
as_float / as_str, SearchSpaceSelector.add_{float,int,discrete,categorical,bool}_param (external-type selection),
StudyConfig._trial_to_external_values (flat spaces: the while loop under the Appendix-F invariant),
StudyConfig._pytrial_parameters, clients.Trial.parameters.

READING OF THE PROPERTY (used by the oracles below):
 * the declared presentation is the parameter's external type: BOOLEAN -> Python bool, INTEGER ("integer-valued
   discrete parameters") -> Python int, FLOAT ("other discrete parameters") -> Python float, INTERNAL -> the stored
   value itself (continuous parameters are stored as floats, categorical ones as strings).  INTEGER-typed *parameters*
   (add_int_param) are not named by the property: they are INTERNAL and arrive from the wire as floats (3.0); no claim.
 * "equals the stored value": numeric equality, resp. True <-> 'True'/1, False <-> 'False'/0 for booleans (on the wire a
   Python bool is written as the number 1.0/0.0 and a categorical value as a string).
 * the stored value is a legal value of the parameter (C16 membership); outside that no presentation is claimed.
 * a trial parameter whose name is no parameter of the (flat) space is "unknown": the read must raise, not drop it.
"""
import json
import os
import subprocess
import time

import z3

from pyvc import engine as E, models as M, protomodel as pm, report, verify, xreal, source
from pyvc import attrs_model as A
from pyvc.engine import Obj, FuncVal, Builtin, Unsupported, PyRaise
from pyvc.protomodel import SymList, Str
from pyvc.source import ModuleInfo
from contracts import c16
from contracts.c16 import (PCM, TRM, CLI, TAGS, fresh_value, tag_of, numeric_value, num_term, trm, pcm, etype_member, ptype_member,
                           call_method, exc_class, SymMap, MapSnap, make_space, make_parameter_dict, model_scalar, model_str, model_list,
                           enc, Scoped, Collector, model_query, name_of, has_children, cardinality_lemmas)

SCM = 'vizier._src.pyvizier.oss.study_config'
CONV = 'vizier._src.pyvizier.oss.proto_converters'
REPLAY = os.path.join(report.VERIF, 'replay', 'c17_replay.py')
TRUE_S, FALSE_S = 'True', 'False'


def run_replay(job):
    return c16.run_replay(job, driver=REPLAY)


# =========================================================================================== A. ParameterValue.cast
# (parameter type, external type) pairs the builders can produce, and the stored values that are legal for them
COMBOS = [('DOUBLE', 'INTERNAL'), ('INTEGER', 'INTERNAL'), ('DISCRETE', 'INTEGER'), ('DISCRETE', 'FLOAT'), ('DISCRETE', 'INTERNAL'),
          ('CATEGORICAL', 'INTERNAL'), ('CATEGORICAL', 'BOOLEAN')]


def legal_stored(ptype, etype, v):
    """precondition of the cast table: v is a legal stored value of such a parameter (None: tag not admitted)"""
    t = tag_of(v)
    is_num, is_real, r = numeric_value(v)
    if ptype == 'CATEGORICAL' and etype == 'BOOLEAN':
        if t == 'str':
            return z3.Or(v == pm.str_lit(TRUE_S), v == pm.str_lit(FALSE_S))
        if t == 'bool':
            return z3.BoolVal(True)
        return z3.And(is_real, z3.Or(r == 0, r == 1))       # the wire form of a Python bool
    if ptype == 'CATEGORICAL':
        return z3.BoolVal(True) if t in ('str', 'bool') else None
    if not is_num:
        return None
    if ptype == 'INTEGER' or etype == 'INTEGER':
        return z3.And(is_real, z3.IsInt(r))
    return is_real


def py_kind(r):
    """Python type of an engine value: 'bool' | 'int' | 'float' | 'str' | 'none' | 'other'"""
    if r is None:
        return 'none'
    try:
        return tag_of(r)
    except Exception:
        return 'other'


def truth_of_stored(v):
    t = tag_of(v)
    if t == 'str':
        return v == pm.str_lit(TRUE_S)
    if t == 'bool':
        return E.to_z3(v)
    return numeric_value(v)[2] == 1


class CastTable:
    def __init__(self, ptype, etype, tag):
        self.ptype, self.etype, self.tag = ptype, etype, tag
        self.sfx = '%s.%s.%s' % (ptype, etype, tag)

    def entry(self, it):
        run = it.run
        run.v = fresh_value(run, self.tag)
        pre = legal_stored(self.ptype, self.etype, run.v)
        run.assume(pre)
        pv = A.make_instance(it, trm().classes['ParameterValue'], value=run.v)
        return call_method(it, pv, 'cast', [etype_member(it, self.etype)])

    def post(self, p):
        v = p.run.v
        R = 'C17.cast.table.' + self.sfx
        if p.kind == 'raise':
            return [(R + '.no_raise', z3.BoolVal(False))]
        r = p.value
        k = py_kind(r)
        obs = [(R + '.no_raise', z3.BoolVal(True))]
        if self.etype == 'INTERNAL':
            obs.append((R + '.declared_type', z3.BoolVal(k == self.tag)))
            obs.append((R + '.equals_stored', z3.BoolVal(r is v)))
        elif self.etype == 'BOOLEAN':
            obs.append((R + '.declared_type', z3.BoolVal(k == 'bool')))
            obs.append((R + '.equals_stored', (E.zbool(r) == truth_of_stored(v)) if k == 'bool' else z3.BoolVal(False)))
        elif self.etype == 'INTEGER':
            obs.append((R + '.declared_type', z3.BoolVal(k == 'int')))
            obs.append((R + '.equals_stored', (xreal.lift(r) == num_term(v)) if k in ('int', 'bool', 'float') else z3.BoolVal(False)))
        else:
            obs.append((R + '.declared_type', z3.BoolVal(k == 'float')))
            obs.append((R + '.equals_stored', (xreal.lift(r) == num_term(v)) if k in ('int', 'bool', 'float') else z3.BoolVal(False)))
        return obs

    def on_violation(self, name, p, m):
        return run_replay({'kind': 'cast', 'etype': self.etype, 'ptype': self.ptype, 'value': enc(model_scalar(m, p.run.v))})


# =========================================================================================== B. cast_as_internal
class CastInternal:
    def __init__(self, ptype, tag):
        self.ptype, self.tag = ptype, tag
        self.sfx = '%s.%s' % (ptype, tag)

    def entry(self, it):
        run = it.run
        run.v = fresh_value(run, self.tag)
        pv = A.make_instance(it, trm().classes['ParameterValue'], value=run.v)
        return call_method(it, pv, 'cast_as_internal', [ptype_member(it, self.ptype)])

    def post(self, p):
        v = p.run.v
        R = 'C17.cast_as_internal.' + self.sfx
        ok = c16.compatible(self.ptype, v)
        if p.kind == 'raise':
            return [(R + '.raises_only_incompatible', z3.Not(ok))]
        r = p.value
        k = py_kind(r)
        obs = [(R + '.rejects_incompatible', ok)]
        want = {'DOUBLE': 'float', 'DISCRETE': 'float', 'INTEGER': 'int', 'CATEGORICAL': 'str'}[self.ptype]
        obs.append((R + '.declared_type', z3.BoolVal(k == want)))
        if self.ptype == 'CATEGORICAL':
            if self.tag == 'str':
                eq = z3.BoolVal(r is v)
            elif self.tag == 'bool' and k == 'str':
                eq = E.to_z3(r) == z3.If(E.to_z3(v), pm.str_lit(TRUE_S), pm.str_lit(FALSE_S))
            else:
                eq = z3.BoolVal(False)
        else:
            eq = (xreal.lift(r) == num_term(v)) if k in ('int', 'bool', 'float') and self.tag != 'str' else z3.BoolVal(False)
        obs.append((R + '.equals_stored', eq))
        return obs

    def on_violation(self, name, p, m):
        return run_replay({'kind': 'cast_as_internal', 'ptype': self.ptype, 'value': enc(model_scalar(m, p.run.v))})


# =========================================================================================== D. external-type selection
def ext_of(o):
    return o.attrs.get('_external_type')


class ExternalTypeOf:
    """external type chosen by an add_*_param builder (entries shared with C16)"""

    def __init__(self, fam, want, label):
        self.fam, self.want, self.label = fam, want, label
        self.sfx = getattr(fam, 'sfx', '')

    def entry(self, it):
        return self.fam.entry(it)

    def post(self, p):
        if p.kind != 'return':
            return []
        run = p.run
        o = c16.added_config(run, run.m0, MapSnap(run.sm))
        nm = 'C17.add_%s_param.external_type%s' % (self.label, self.sfx)
        if o is None:
            return [(nm, z3.BoolVal(False))]
        got = ext_of(o)
        if callable(self.want):
            return [(nm, self.want(run, got))]
        return [(nm, z3.BoolVal(got is etype_member(run.it, self.want)))]

    def on_violation(self, name, p, m):
        run = p.run
        job = {'kind': 'external_type', 'builder': self.label}
        if hasattr(run, 'xs0'):
            job['values'] = [enc(x) for x in model_list(m, run.xs0)]
            job['auto_cast'] = self.fam.auto_cast
        return run_replay(job)

    def bounded(self, k):
        return ExternalTypeOf(self.fam.bounded(k), self.want, self.label)


def discrete_external(auto_cast):
    def want(run, got):
        xs = run.xs0
        i = z3.Int('i!de')
        integral = z3.ForAll([i], z3.Implies(z3.And(i >= 0, i < xs.n), z3.And(xreal.is_fin(xs.arr[i]), z3.IsInt(xreal.r(xs.arr[i])))))
        is_int, is_float = got is etype_member(run.it, 'INTEGER'), got is etype_member(run.it, 'FLOAT')
        if auto_cast is False:
            return z3.BoolVal(is_float)
        return z3.And(z3.BoolVal(is_int or is_float), z3.BoolVal(is_int) == integral)
    return want


# =========================================================================================== E. _trial_to_external_values (flat)
raw_of = z3.Function('pv_raw_value', pm.PyObj, pm.PyObj)                # ParameterValue.value
etype_of = z3.Function('pc_external_type', pm.PyObj, pm.PyObj)          # ParameterConfig.external_type
cast_uf = z3.Function('pv_cast', pm.PyObj, pm.PyObj, pm.PyObj)          # ParameterValue.cast(external_type)   (contract: C17.cast.table.*)


def pv_wrap17(term):
    o = Obj(trm().classes['ParameterValue'], {'value': M.OpaqueObj(raw_of(term))})
    o.term = term
    o.abstract = True
    return o


def make_trial_parameters(it, name='params'):
    sm = SymMap(it.run, name, pm.PyObj, pv_wrap17)
    return A.make_instance(it, trm().classes['ParameterDict'], _items=sm), sm


_k_ext, _real_ext = c16.abstract_fallback('property', 'ParameterConfig.external_type', 'external_type')


def _prop_external_type(it, obj):
    if getattr(obj, 'abstract', False):
        return M.OpaqueObj(etype_of(obj.term))
    return _real_ext(it, obj)


E.PROPERTIES[_k_ext] = _prop_external_type

_k_kids, _real_kids = c16.abstract_fallback('property', 'ParameterConfig.child_parameter_configs', 'child_parameter_configs')


def _prop_children(it, obj):
    if getattr(obj, 'abstract', False):
        if not getattr(it.run, 'flat_space', False):
            raise Unsupported('child parameter configs of an abstract ParameterConfig (conditional spaces are a bounded stand-in)')
        # precondition of the flat contract: no parameter of the space has children (discharged from the stated axiom)
        it.run.oblige('C17._trial_to_external_values.flat_precondition_used', z3.Not(has_children(obj.term)))
        return []
    return _real_kids(it, obj)


E.PROPERTIES[_k_kids] = _prop_children

_k_cast = '%s:ParameterValue.cast' % TRM


def _model_cast(it, args, kw):
    obj = args[0]
    if getattr(obj, 'abstract', False):
        et = args[1]
        if not isinstance(et, M.OpaqueObj):
            raise Unsupported('cast of an abstract stored value to a concrete external type')
        return M.OpaqueObj(cast_uf(obj.term, et.term))
    saved = E.MODELS.pop(_k_cast)
    try:
        cls = trm().classes['ParameterValue']
        return it.invoke(FuncVal(cls.mod, cls.methods['cast'], cls), list(args), kw)
    finally:
        E.MODELS[_k_cast] = saved


E.MODELS[_k_cast] = _model_cast

_prev_sfm17 = M.symbolic_filter_map


def _sfm17(it, fr, e, xs):
    """[(c, x) for x in xs] over an array-list of instances: an array-list of the instances whose elements are
    presented as the tuples (the constant components are the same for every element)."""
    import ast
    if isinstance(e.elt, ast.Tuple) and not e.generators[0].ifs and 'wrap' in xs.__dict__:
        gen = e.generators[0]
        J = it.run.fresh('cj', z3.IntSort())
        fr2 = E.Frame(fr.mod, {}, parent=fr)
        it.pure += 1
        try:
            it.assign(fr2, gen.target, xs.get(J))
            parts = [it.eval(fr2, x) for x in e.elt.elts]
        finally:
            it.pure -= 1
        sym = [k for k, x in enumerate(parts) if getattr(x, 'abstract', False)]
        if len(sym) == 1 and all(x is None or isinstance(x, (str, int, bool)) for k, x in enumerate(parts) if k != sym[0]):
            k0 = sym[0]
            inner = xs.__dict__['wrap']
            r = SymList(xs.n, xs.arr, xs.elem)
            r.wrap = lambda term: tuple(inner(term) if k == k0 else parts[k] for k in range(len(parts)))
            return r
    return _prev_sfm17(it, fr, e, xs)


M.symbolic_filter_map = _sfm17

_prev_pop = M.symlist_pop


def _symlist_pop(it, lst, args):
    if len(args) == 1 and isinstance(args[0], int) and args[0] == 0:
        if not it.truth(lst.n > 0):
            raise PyRaise(it.make_exc('IndexError', ['pop from empty list']))
        head = lst.get(z3.IntVal(0))
        i = z3.Int('i!pp')
        lst.arr = z3.Lambda([i], lst.arr[i + 1])
        lst.n = lst.n - 1
        lst.touch()
        return head
    return _prev_pop(it, lst, args)


M.symlist_pop = _symlist_pop


def _opaque_wrap(term):
    return M.OpaqueObj(term)


def _fresh_like_hook17(it, v, name, _prev=M.fresh_like_hook):
    if isinstance(v, M.PyDict) and getattr(it.run, 'flat_space', False) and len(v) == 0:
        return SymMap(it.run, name, pm.PyObj, _opaque_wrap)
    return _prev(it, v, name)


M.fresh_like_hook = _fresh_like_hook17


class EmptyMap:
    """view of an empty concrete dict as a map (loop-invariant 'init' phase)"""

    def __init__(self):
        self.n = z3.IntVal(0)
        self.dom = z3.K(Str, z3.BoolVal(False))
        self.val = z3.K(Str, z3.Const('no_value', pm.PyObj))


def as_map(x):
    if isinstance(x, SymMap):
        return x
    if isinstance(x, M.PyDict) and len(x) == 0:
        return EmptyMap()
    if isinstance(x, Obj) and isinstance(x.attrs.get('_items'), SymMap):
        return x.attrs['_items']
    raise Unsupported('map view of %r' % (x,))


def t2e_invariant(it, fr, ctx):
    """Appendix F: parameter_configs = P[i:], external_values = casts of the trial parameters named by P[:i],
    remaining_parameters = trial parameters not named by P[:i]."""
    run = it.run
    C, T = run.C0, run.T0
    q = fr.env['parameter_configs']
    R, X = as_map(fr.env['remaining_parameters']), as_map(fr.env['external_values'])
    if not isinstance(q, SymList):
        raise Unsupported('parameter_configs is not an array-list')
    i = C.n - q.n
    k = z3.Int('k!ti')
    s = z3.Const('s!ti', Str)
    processed = lambda x: z3.And(C.dom[x], C.pos[x] < i)
    extra = []
    if ctx.phase != 'head':
        # aliasing obligation (never assumed): the loop consumes a copy, not the trial's own ParameterDict
        extra.append(('works_on_a_copy_of_the_trial_parameters',
                      z3.BoolVal(fr.env['remaining_parameters'] is not run.params and as_map(fr.env['remaining_parameters']) is not run.Tm)))
    return extra + [
        ('queue_is_suffix', z3.And(q.n >= 0, q.n <= C.n, z3.ForAll([k], z3.Implies(z3.And(k >= 0, k < q.n), q.arr[k] == C.val[C.karr[i + k]])))),
        ('remaining_is_unprocessed', z3.ForAll([s], z3.And(R.dom[s] == z3.And(T.dom[s], z3.Not(processed(s))),
                                                            z3.Implies(R.dom[s], R.val[s] == T.val[s])))),
        ('external_is_cast_of_processed', z3.ForAll([s], z3.And(X.dom[s] == z3.And(T.dom[s], processed(s)),
                                                                 z3.Implies(X.dom[s], X.val[s] == cast_uf(T.val[s], etype_of(C.val[s])))))),
        ('trial_not_mutated', z3.And(run.Tm.dom == T.dom, run.Tm.val == T.val, run.Tm.n == T.n)),
    ]


E.LOOPS[(SCM, 'StudyConfig._trial_to_external_values', 1)] = E.LoopSpec(t2e_invariant)


class TrialToExternal:
    def entry(self, it):
        run = it.run
        run.it = it
        run.flat_space = True
        space, C = make_space(it)
        params, T = make_trial_parameters(it)
        run.C0, run.T0, run.Tm, run.Cm = MapSnap(C), MapSnap(T), T, C
        i = z3.Int('i!fl')
        run.axiom(z3.ForAll([i], z3.Implies(z3.And(i >= 0, i < C.n), z3.Not(has_children(C.val[C.karr[i]])))))   # flat space
        sc = ModuleInfo.get(SCM).classes['StudyConfig']
        cfg = Obj(sc, {'search_space': space})
        trial = Obj('opaque:vz.Trial', {'parameters': params})
        run.params = params
        return call_method(it, cfg, '_trial_to_external_values', [trial])

    def post(self, p):
        run = p.run
        R = 'C17._trial_to_external_values.'
        C, T = run.C0, run.T0
        if p.kind == 'raise':
            return [(R + 'no_raise_on_flat_space', z3.BoolVal(False))]
        X = p.value
        if isinstance(X, M.PyDict) and len(X) == 0:
            X = EmptyMap()
        if not isinstance(X, (SymMap, EmptyMap)):
            return [(R + 'values_are_casts_of_stored', z3.BoolVal(False))]
        s = z3.Const('s!te', Str)
        obs = [
            (R + 'values_are_casts_of_stored', z3.ForAll([s], z3.Implies(X.dom[s], z3.And(T.dom[s], C.dom[s], X.val[s] == cast_uf(T.val[s], etype_of(C.val[s])))))),
            (R + 'every_known_parameter_presented', z3.ForAll([s], z3.Implies(z3.And(T.dom[s], C.dom[s]), X.dom[s]))),
            (R + 'trial_not_mutated', z3.And(run.Tm.dom == T.dom, run.Tm.val == T.val, run.Tm.n == T.n, z3.BoolVal(run.params.attrs['_items'] is run.Tm))),
        ]
        # unknown parameters are detectable by the caller's length comparison (cardinality lemmas, as in C16)
        Xs = type('S', (), {'dom': X.dom, 'n': X.n})()
        lem = cardinality_lemmas(Xs, T)
        unknown = z3.Exists([s], z3.And(T.dom[s], z3.Not(C.dom[s])))
        obs.append((R + 'unknown_parameter_detectable', z3.Implies(z3.And(*lem), (X.n != T.n) == unknown)))
        return obs

    def on_violation(self, name, p, m):
        return run_replay({'kind': 'flat_trial', 'space': ['a', 'b'], 'parameters': {'a': enc(0.5), 'zz': enc(1.0)}})

    def bounded(self, k):
        return TrialToExternalBounded(k)


class TrialToExternalBounded:
    """model query for the flat contract: k abstract parameter configs and k abstract trial parameters on concrete
    dict spines (the loop is unrolled); same clauses as TrialToExternal."""

    def __init__(self, k):
        self.k = k

    def entry(self, it):
        run = it.run
        run.it = it
        run.flat_space = True
        k = self.k
        names = [run.fresh('n%d' % j, Str) for j in range(k)]
        tnames = [run.fresh('t%d' % j, Str) for j in range(k)]
        for xs in (names, tnames):
            for a in range(k):
                for b in range(a + 1, k):
                    run.assume(xs[a] != xs[b])
        wrap = c16.config_wrap(run)
        cfgs, items = M.PyDict(), M.PyDict()
        run.cterms, run.tterms = [], []
        for j in range(k):
            ct = run.fresh('pcobj', pm.PyObj)
            run.assume(name_of(ct) == names[j])
            run.assume(z3.Not(has_children(ct)))
            cfgs.set(it, names[j], wrap(ct))
            tt = run.fresh('pvobj', pm.PyObj)
            items.set(it, tnames[j], pv_wrap17(tt))
            run.cterms.append(ct)
            run.tterms.append(tt)
        run.names, run.tnames = names, tnames
        space = A.make_instance(it, pcm().classes['SearchSpace'], _parameter_configs=cfgs, _parent_values=())
        params = A.make_instance(it, trm().classes['ParameterDict'], _items=items)
        run.items = items
        sc = ModuleInfo.get(SCM).classes['StudyConfig']
        key = (SCM, 'StudyConfig._trial_to_external_values', 1)
        spec = E.LOOPS.pop(key, None)
        try:
            return call_method(it, Obj(sc, {'search_space': space}), '_trial_to_external_values', [Obj('opaque:vz.Trial', {'parameters': params})])
        finally:
            if spec is not None:
                E.LOOPS[key] = spec

    def post(self, p):
        run = p.run
        R = 'C17._trial_to_external_values.'
        if p.kind == 'raise':
            return [(R + 'no_raise_on_flat_space', z3.BoolVal(False))]
        X = p.value
        if not isinstance(X, M.PyDict):
            return [(R + 'values_are_casts_of_stored', z3.BoolVal(False))]
        k = self.k
        casts, present = [], []
        for key, val in X.items():
            key = E.to_z3(key)
            alts = []
            for a in range(k):
                for b in range(k):
                    if isinstance(val, M.OpaqueObj):
                        alts.append(z3.And(key == run.tnames[a], key == run.names[b], val.term == cast_uf(run.tterms[a], etype_of(run.cterms[b]))))
            casts.append(z3.Or(*alts) if alts else z3.BoolVal(False))
        for a in range(k):
            known = z3.Or(*[run.tnames[a] == n for n in run.names])
            shown = z3.Or(*[E.to_z3(key) == run.tnames[a] for key, _ in X.items()]) if len(X) else z3.BoolVal(False)
            present.append(z3.Implies(known, shown))
        same = len(run.items) == k and all(any(z3.eq(E.to_z3(kk), t) for kk in run.items.keys()) for t in run.tnames)
        return [(R + 'values_are_casts_of_stored', z3.And(*casts) if casts else z3.BoolVal(True)),
                (R + 'every_known_parameter_presented', z3.And(*present) if present else z3.BoolVal(True)),
                (R + 'trial_not_mutated', z3.BoolVal(bool(same)))]

    def on_violation(self, name, p, m):
        return run_replay({'kind': 'end_to_end'})


# =========================================================================================== G. clients.Trial.parameters
class ClientTrialParameters:
    """clients.Trial.parameters presents exactly StudyConfig.trial_parameters of the stored trial of this id."""

    def entry(self, it):
        run = it.run
        run.tid = run.fresh('trial_id', z3.IntSort())
        stored = Obj('opaque:vz.Trial', {'measurements': [Obj('opaque:Measurement', {})]})
        proto = M.OpaqueObj(run.fresh('trial_proto', pm.PyObj))
        result = M.OpaqueObj(run.fresh('presented', pm.PyObj))
        run.stored, run.proto, run.result = stored, proto, result

        def get_trial(it_, args, kw):
            it_.run.event('GetTrial', args[0])
            return stored

        def trial_parameters(it_, args, kw):
            it_.run.event('trial_parameters', args[0] is proto)
            return result
        sc = Obj('opaque:StudyConfig', {'trial_parameters': Builtin('trial_parameters', trial_parameters)})

        def get_study_config(it_, args, kw):
            it_.run.event('GetStudyConfig')
            return sc
        client = Obj('opaque:VizierClient', {'get_trial': Builtin('get_trial', get_trial), 'get_study_config': Builtin('get_study_config', get_study_config)})

        def to_proto(it_, args, kw):
            it_.run.event('to_proto', args[-1] is stored)
            return proto
        E.MODELS['%s:TrialConverter.to_proto' % CONV] = to_proto
        try:
            cli = ModuleInfo.get(CLI)
            tr = A.make_instance(it, cli.classes['Trial'], _client=client, _id=run.tid)
            return it.getattr(tr, 'parameters')
        finally:
            E.MODELS.pop('%s:TrialConverter.to_proto' % CONV, None)

    def post(self, p):
        run = p.run
        R = 'C17.clients.Trial.parameters.'
        if p.kind == 'raise':
            return [(R + 'no_raise', z3.BoolVal(False))]
        ev = {e[0]: e for e in run.events}
        gt = ev.get('GetTrial')
        return [(R + 'reads_the_stored_trial_of_this_id', (E.to_z3(gt[1]) == run.tid) if gt else z3.BoolVal(False)),
                (R + 'presents_trial_parameters_of_its_proto', z3.BoolVal(p.value is run.result and ev.get('to_proto', (0, False))[1] is True
                                                                          and ev.get('trial_parameters', (0, False))[1] is True))]

    def on_violation(self, name, p, m):
        return run_replay({'kind': 'end_to_end'})


# =========================================================================================== F. _pytrial_parameters (bounded, symbolic)
is_indexed = z3.Function('is_indexed_name', Str, z3.BoolSort())       # contract of parse_multi_dimensional_parameter_name
base_of = z3.Function('base_of_name', Str, Str)
index_of = z3.Function('index_of_name', Str, z3.IntSort())
_k_parse = '%s:SearchSpaceSelector.parse_multi_dimensional_parameter_name' % PCM


def _model_parse(it, args, kw):
    """contract: None unless the name has the form base[idx]; then (base, idx) with idx >= 0 (the regex itself is
    checked exhaustively on short strings by the native stand-in)"""
    name = E.to_z3(args[-1])
    if it.truth(is_indexed(name)):
        it.run.assume(index_of(name) >= 0)
        return (base_of(name), index_of(name))
    return None


BATTERY = [
    (['w[1]', 'w[0]', 'w[10]', 'w[2]'], [0.1, 0.2, 0.3, 0.4]),
    (['x[10]', 'x[9]', 'y'], [0.1, 0.2, 0.3]),
    (['a[2]', 'b', 'a[0]', 'a[1]'], [0.1, 0.2, 0.3, 0.4]),
    (['a', 'zz'], [0.5, 0.25]),
    (['k[0]', 'zz'], [0.5, 0.25]),
]


class PytrialParameters:
    """the real _pytrial_parameters + _trial_to_external_values + ParameterDict + ParameterValue.cast on a flat space of
    K DOUBLE parameters and a trial of M parameters; all names, indices and values symbolic."""

    def __init__(self, K, M_):
        self.K, self.M = K, M_
        self.sfx = '.K%d.M%d' % (K, M_)

    def entry(self, it):
        run = it.run
        run.it = it
        names = [run.fresh('n%d' % j, Str) for j in range(self.K)]
        tnames = [run.fresh('t%d' % k, Str) for k in range(self.M)]
        vals = [fresh_value(run, 'float', 'v%d' % k) for k in range(self.M)]
        for xs in (names, tnames):
            for a in range(len(xs)):
                for b in range(a + 1, len(xs)):
                    run.assume(xs[a] != xs[b])          # dict keys are distinct
        run.names, run.tnames, run.vals = names, tnames, vals
        cfgs = M.PyDict()
        for j, nm in enumerate(names):
            dom = c16.Dom(run, 'DOUBLE', 'pc%d' % j)
            cfgs.set(it, nm, c16.make_pc(it, dom, name=nm))
        space = A.make_instance(it, pcm().classes['SearchSpace'], _parameter_configs=cfgs, _parent_values=())
        items = M.PyDict()
        for tn, v in zip(tnames, vals):
            items.set(it, tn, A.make_instance(it, trm().classes['ParameterValue'], value=v))
        params = A.make_instance(it, trm().classes['ParameterDict'], _items=items)
        sc = ModuleInfo.get(SCM).classes['StudyConfig']
        cfg = Obj(sc, {'search_space': space})
        trial = Obj('opaque:vz.Trial', {'parameters': params})
        key = (SCM, 'StudyConfig._trial_to_external_values', 1)
        spec = E.LOOPS.pop(key, None)           # concrete spine: the loop is unrolled, not cut by its invariant
        E.MODELS[_k_parse] = _model_parse
        try:
            return call_method(it, cfg, '_pytrial_parameters', [trial])
        finally:
            E.MODELS.pop(_k_parse, None)
            if spec is not None:
                E.LOOPS[key] = spec

    def collision(self, run):
        """witness class of the recorded finding: a plain parameter is named like the base of an indexed one"""
        c = []
        for a in run.tnames:
            for b in run.tnames:
                if a is not b:
                    c.append(z3.And(z3.Not(is_indexed(a)), is_indexed(b), base_of(b) == a))
        return z3.Or(*c) if c else z3.BoolVal(False)

    def post(self, p):
        run = p.run
        known = [z3.Or(*[t == n for n in run.names]) if run.names else z3.BoolVal(False) for t in run.tnames]
        all_known = z3.And(*known) if known else z3.BoolVal(True)
        U = 'C17._pytrial_parameters.unknown_parameter_is_error'
        if p.kind == 'raise':
            return [(U, z3.And(z3.BoolVal(exc_class(p) == 'ValueError'), z3.Not(all_known)))]
        obs = [(U, all_known)]
        final = p.value
        if not isinstance(final, M.PyDict):
            return obs + [('C17.grouping.complete', z3.BoolVal(False))]
        prov = {v.get_id(): k for k, v in enumerate(run.vals)}
        plain_ok, order_ok, complete_ok = [], [], []
        for key, val in final.items():
            key = E.to_z3(key)
            if isinstance(val, list):
                ks = [prov.get(x.get_id()) if z3.is_expr(x) else None for x in val]
                if None in ks or len(set(ks)) != len(ks):
                    complete_ok.append(z3.BoolVal(False))
                    continue
                for a in range(len(ks) - 1):
                    order_ok.append(index_of(run.tnames[ks[a]]) <= index_of(run.tnames[ks[a + 1]]))
                for k in range(self.M):
                    inb = z3.And(is_indexed(run.tnames[k]), base_of(run.tnames[k]) == key)
                    complete_ok.append(inb if k in ks else z3.Not(inb))
            else:
                k = prov.get(val.get_id()) if z3.is_expr(val) else None
                plain_ok.append(z3.And(z3.Not(is_indexed(run.tnames[k])), run.tnames[k] == key) if k is not None else z3.BoolVal(False))
        # every parameter is presented: plain ones under their own name, indexed ones under their base name
        present = []
        for k in range(self.M):
            alts = []
            for key, val in final.items():
                key = E.to_z3(key)
                if isinstance(val, list):
                    if any(z3.is_expr(x) and x.get_id() == run.vals[k].get_id() for x in val):
                        alts.append(z3.And(is_indexed(run.tnames[k]), base_of(run.tnames[k]) == key))
                elif z3.is_expr(val) and val.get_id() == run.vals[k].get_id():
                    alts.append(z3.And(z3.Not(is_indexed(run.tnames[k])), run.tnames[k] == key))
            present.append(z3.Or(*alts) if alts else z3.BoolVal(False))
        obs.append(('C17.grouping.index_order', z3.And(*order_ok) if order_ok else z3.BoolVal(True)))
        obs.append(('C17.grouping.complete', z3.And(*(complete_ok + plain_ok)) if (complete_ok + plain_ok) else z3.BoolVal(True)))
        obs.append(('C17.grouping.every_parameter_presented', z3.And(*present) if present else z3.BoolVal(True)))
        return obs

    def on_violation(self, name, p, m):
        run = p.run
        # concrete names: indexed ones become base[idx]
        params = {}
        names = []
        for k, t in enumerate(run.tnames):
            if z3.is_true(m.eval(is_indexed(t), model_completion=True)):
                nm = '%s[%d]' % (model_str(m, base_of(t)), m.eval(index_of(t), model_completion=True).as_long())
            else:
                nm = model_str(m, t)
            params[nm] = enc(model_scalar(m, run.vals[k]))
            if z3.is_true(m.eval(z3.Or(*[t == n for n in run.names]) if run.names else z3.BoolVal(False), model_completion=True)):
                names.append(nm)
        for j, n in enumerate(run.names):
            if not any(z3.is_true(m.eval(n == t, model_completion=True)) for t in run.tnames):
                names.append('unused%d' % j)
        rep, ok = run_replay({'kind': 'flat_trial', 'space': names, 'parameters': params})
        if ok is True:
            return rep, ok
        # the counter-model orders names by the uninterpreted string order; concrete names are tried as well
        for space, vals in BATTERY:
            job = {'kind': 'flat_trial', 'space': [n for n in space if n != 'zz'], 'parameters': {n: enc(v) for n, v in zip(space, vals)}}
            rep2, ok2 = run_replay(job)
            if ok2 is True:
                rep2['model_input'] = rep.get('job')
                rep2['note'] = 'failing input from the fixed battery of concrete multi-dimensional trials (the model input itself did not reproduce)'
                return rep2, True
        return rep, ok


# =========================================================================================== driver
FUNCTIONS = [
    (TRM, 'ParameterValue.cast'), (TRM, 'ParameterValue.cast_as_internal'), (TRM, 'ParameterValue.as_bool'), (TRM, 'ParameterValue.as_int'),
    (TRM, 'ParameterValue.as_float'), (TRM, 'ParameterValue.as_str'), (TRM, 'ParameterType.assert_correct_type'),
    (TRM, 'ParameterDict.__getitem__'), (TRM, 'ParameterDict.__delitem__'), (TRM, 'ParameterDict.__len__'), (TRM, 'ParameterDict.__iter__'),
    (PCM, 'SearchSpaceSelector.add_float_param'), (PCM, 'SearchSpaceSelector.add_int_param'), (PCM, 'SearchSpaceSelector.add_discrete_param'),
    (PCM, 'SearchSpaceSelector.add_categorical_param'), (PCM, 'SearchSpaceSelector.add_bool_param'), (PCM, 'ParameterConfig.factory'),
    (PCM, 'SearchSpace.parameters'), (SCM, 'StudyConfig._trial_to_external_values'), (SCM, 'StudyConfig._pytrial_parameters'),
    (CLI, 'Trial.parameters'), (CLI, 'Trial.materialize'),
]
COLLISION = 'C17.grouping.every_parameter_presented'


def families():
    fams = []
    for pt, et in COMBOS:
        for tag in TAGS:
            probe = {'bool': True, 'int': 1, 'float': 1.0, 'str': 'a'}[tag]
            if legal_stored(pt, et, probe if tag != 'str' else pm.str_lit('a')) is None:
                continue
            fams.append(('ParameterValue.cast', CastTable(pt, et, tag)))
    for pt in c16.TYPES:
        for tag in TAGS:
            fams.append(('ParameterValue.cast_as_internal', CastInternal(pt, tag)))
    fams += [('SearchSpaceSelector.add_float_param', ExternalTypeOf(c16.AddFloat('float', 'float'), 'INTERNAL', 'float')),
             ('SearchSpaceSelector.add_float_param', ExternalTypeOf(c16.AddFloat('int', 'int', True), 'INTERNAL', 'float')),
             ('SearchSpaceSelector.add_int_param', ExternalTypeOf(c16.AddInt('int', 'int'), 'INTERNAL', 'int')),
             ('SearchSpaceSelector.add_int_param', ExternalTypeOf(c16.AddInt('float', 'float', True), 'INTERNAL', 'int')),
             ('SearchSpaceSelector.add_categorical_param', ExternalTypeOf(c16.AddCategorical('str'), 'INTERNAL', 'categorical'))]
    fams += [('SearchSpaceSelector.add_bool_param', ExternalTypeOf(c16.AddBool(k), 'BOOLEAN', 'bool')) for k in (None, 1, 2)]
    fams += [('SearchSpaceSelector.add_discrete_param', ExternalTypeOf(c16.AddDiscrete(a), discrete_external(a), 'discrete')) for a in (None, True, False)]
    fams += [('StudyConfig._trial_to_external_values', TrialToExternal()), ('Trial.parameters', ClientTrialParameters())]
    return fams


def main(tier):
    chk = report.Check('C17', tier, level='proof',
                       technique='contract-based deductive verification: real ASTs executed symbolically (pyvc), per-tag cast table, loop invariant '
                                 '(Appendix F) for the flat external-value loop over symbolic dicts, z3; bounded stand-ins for grouping and conditional activity')
    for t in A.TRUST + ['pyvc VC generator and its Python models; symbolic insertion-ordered dict model (contracts/c16.py SymMap: well-formed by construction, '
                        'deletion re-enumerates the keys -- Finset.card_erase_of_mem)', 'z3 5.1.0',
                        'finite-set cardinality lemmas Finset.card_le_card / eq_of_subset_card (lean/C13.lean, Mathlib) in C17._trial_to_external_values.unknown_parameter_detectable']:
        chk.trust(t)
    for a in c16.ASSUMPTIONS[:5] + [
            'the stored value of a parameter is a legal value of it (C16 membership); for a boolean parameter also the wire form 1.0/0.0 of a Python bool',
            'C17._trial_to_external_values.* are proved for FLAT spaces (no parameter has children), modularly: ParameterValue.cast by its contract '
            '(C17.cast.table.*), ParameterConfig.name = dict key (C16.SearchSpace.add.names_stay_unique); conditional spaces: bounded stand-in',
            'parse_multi_dimensional_parameter_name by contract (None | (base, index>=0)) in the bounded symbolic run; the regex itself: native exhaustive stand-in',
            'INTEGER-typed parameters (add_int_param) are INTERNAL: after the wire they are presented as floats (3.0); the property names no presentation for them',
            'clients.Trial: the client object and TrialConverter.to_proto are opaque (C09 covers the converter)']:
        chk.assume(a)
    for dotted, q in FUNCTIONS:
        chk.function(dotted, q)
    chk.function(PCM, 'SearchSpaceSelector.parse_multi_dimensional_parameter_name', role='bounded stand-in only (regular expression)')
    natives = {'findings': c16.start_native(['findings'], 'f17', REPLAY), 'regex': c16.start_native(['standin_regex', '6' if tier == 'quick' else '7'], 'rx', REPLAY),
               'end_to_end': c16.start_native(['end_to_end'], 'e2e', REPLAY),
               'multi': c16.start_native(['standin_multi_parent'], 'multi', REPLAY)}
    for r in '0123':
        natives['cond' + r] = c16.start_native(['standin_conditional', '3', r], 'cond' + r, REPLAY)
    timeout = 6000 if tier == 'quick' else 60000
    inlined = set()
    for fname, obj in families():
        col = Collector(chk)
        fr = verify.verify_function(Scoped17(col, '@' + type(obj).__name__ + getattr(obj, 'sfx', '')), fname, obj.entry, obj.post,
                                    on_violation=obj.on_violation, timeout_ms=timeout, deadline_s=120, allow_end_only=False)
        model_query(col, fname, obj, '@' + type(obj).__name__, tier, None, timeout, scope=Scoped17)
        col.flush()
        inlined |= fr.inlined
    chk.extra['inlined_real_functions'] = sorted(inlined)
    # ---- bounded symbolic run of the real _pytrial_parameters chain
    fcol = chk.finding_for(COLLISION)
    sizes = [(1, 1), (2, 2), (1, 2), (2, 3), (3, 3)] if tier == 'quick' else [(1, 1), (2, 2), (1, 2), (2, 3), (3, 3), (3, 4)]
    bounded_ok, saw_collision = True, False
    pending = {}            # one record per obligation name (a natively reproduced one is preferred)
    rank = {report.VIOLATED: 0, report.ERROR: 1, report.UNDECIDED: 2}
    for K, M_ in sizes:
        obj = PytrialParameters(K, M_)
        col = Collector(chk)
        known = {COLLISION: (fcol['what'] if fcol else 'collision', lambda p, o=obj: o.collision(p.run))} if fcol else None
        verify.verify_function(Scoped17(col, ''), 'StudyConfig._pytrial_parameters', obj.entry, obj.post, known=known, on_violation=obj.on_violation,
                               timeout_ms=timeout, deadline_s=200, workers=8 if K * M_ >= 9 else 1)
        for rec in col.records:
            if rec[3] == report.PROVED:
                continue
            if rec[3] == report.KNOWN:
                saw_collision = True
                continue
            bounded_ok = False
            if isinstance(rec[5].get('detail'), dict):
                rec[5]['detail'] = dict(rec[5]['detail'], bound='K=%d parameters, M=%d trial parameters' % (K, M_))
            cur = pending.get(rec[0])
            better = cur is None or rank.get(rec[3], 3) < rank.get(cur[3], 3) or \
                (rec[3] == cur[3] == report.VIOLATED and rec[5].get('reproduced') is True and cur[5].get('reproduced') is not True)
            if better:
                pending[rec[0]] = rec
        if any(r[3] == report.VIOLATED and r[5].get('reproduced') is True for r in pending.values()) and \
                all(r[5].get('reproduced') is True for r in pending.values() if r[3] == report.VIOLATED):
            break               # every refuted clause already has a failing input on the real code
    for rec in pending.values():
        chk.obligation(rec[0], rec[1], rec[2], rec[3], rec[4], **rec[5])
    if bounded_ok:
        chk.bounded_standin('StudyConfig._pytrial_parameters (real chain: _trial_to_external_values, ParameterDict, ParameterValue.cast, grouping loops) executed symbolically',
                            'flat spaces of K<=3 DOUBLE parameters x trials of M<=3 parameters; all names, indices and values symbolic; '
                            'unknown parameter => ValueError, groups complete and in index order', 'held (z3 unsat per size)', detail={'sizes': sizes})
    if fcol:
        if saw_collision:
            chk.obligation(COLLISION, 'StudyConfig._pytrial_parameters', 'z3', report.KNOWN, 0.0,
                           detail='bounded symbolic run: fails exactly when a plain parameter is named like the base of an indexed one; residual proved', finding=fcol['what'])
    # ---- native side
    res, verdict, err = c16.collect_native(natives['findings'])
    if fcol and verdict != 'REPRODUCED':
        # a stale entry (or a witness that crashes on a changed tree) is a plain note: never an error, never a violation
        c16.stale_note(chk, 'the recorded finding "plain name overwritten by the group of its indexed namesakes" did not reproduce on this tree '
                            '(%s %s)' % (verdict, err or res))
    elif fcol:
        chk.note('finding witness replayed on the real code: %s' % json.dumps(res))

    def standin(key, oblig, fname, name, bound, detail_keys):
        res, verdict, err = c16.collect_native(natives[key])
        if res is None:
            chk.error('C17.standin.' + key, 'native stand-in did not run: %s %s' % (verdict, err))
            return None
        if res['n_failures']:
            first = res['failures'][0] if res['failures'] else {}
            chk.obligation(oblig, fname, 'native-enumeration', report.VIOLATED, 0.0, detail=first, model=json.dumps(first),
                           replay={'cmd': '/venv/bin/python %s %s' % (REPLAY, key), 'first_failure': first}, reproduced=True)
            return False
        return {k: res[k] for k in detail_keys}
    d = standin('regex', 'C17.parse_multi_dimensional_parameter_name.regex', 'SearchSpaceSelector.parse_multi_dimensional_parameter_name', '', '', ('strings',))
    if d:
        chk.bounded_standin('parse_multi_dimensional_parameter_name (regex) against an independent parser; format/parse round trip',
                            'every string of length <= %s over the alphabet a[]01()' % ('6' if tier == 'quick' else '7'), 'held', detail=d)
    d = standin('end_to_end', 'C17.clients.Trial.parameters.end_to_end', 'Trial.parameters', '', '', ('cases',))
    if d:
        chk.bounded_standin('clients.Trial.parameters through a local RAM service (the wire: numbers as doubles, bools as 1.0/strings)',
                            '3 trials on a flat space with every builder kind and multi-dimensional names, 4 on a conditional space', 'held', detail=d)
    res, verdict, err = c16.collect_native(natives['multi'])
    if res is None:
        chk.error('C17.standin.multi_parent', 'native stand-in did not run: %s %s' % (verdict, err))
    elif res['n_failures']:
        first = next((f for f in res['failures'] if 'parameters' in f), res['failures'][0])
        chk.obligation('C17.conditional.active_parameters_presented', 'StudyConfig._trial_to_external_values', 'native-enumeration', report.VIOLATED, 0.0,
                       detail=first, model=json.dumps(res['failures'][:4]),
                       replay={'cmd': '/venv/bin/python %s standin_multi_parent' % REPLAY, 'first_failure': first, 'failures': res['failures']}, reproduced=True)
    else:
        chk.bounded_standin('children declared under several parent values in ONE declaration (factory(children=[([v1, v2], child)]) and the same space after '
                            'StudyConfig.to_proto/from_proto = ConditionalParameterSpec with several parent values): active under any declared value => presented, '
                            'otherwise ValueError',
                            '4 parents (CATEGORICAL 3 values with 4 multi-valued declarations incl. a nested one, INTEGER, DISCRETE, BOOLEAN) x every parent value x '
                            'direct and through TrialConverter.to_proto', 'held', detail={'cases': res['cases']})
    tot, ok = {'spaces': 0, 'trials': 0}, True
    for r in '0123':
        res, verdict, err = c16.collect_native(natives['cond' + r])
        if res is None:
            chk.error('C17.standin.conditional', 'native stand-in did not run: %s %s' % (verdict, err))
            ok = False
            break
        if res['n_failures'] and ok:
            first = res['failures'][0] if res['failures'] else {}
            chk.obligation('C17.conditional.active_parameters_only', 'StudyConfig._trial_to_external_values', 'native-enumeration', report.VIOLATED, 0.0,
                           detail=first, model=json.dumps(first), replay={'cmd': '/venv/bin/python %s standin_conditional 3 %s' % (REPLAY, r), 'first_failure': first}, reproduced=True)
            ok = False
        tot['spaces'] += res['spaces']
        tot['trials'] += res['trials']
    if ok:
        chk.bounded_standin('conditional activity (BFS with pop(0)/extend) of _trial_to_external_values/_pytrial_parameters/trial_parameters on the real code',
                            'conditional spaces of depth <= 3, <= 2 children per parent value, parents CATEGORICAL/INTEGER/DISCRETE(auto-cast)/BOOLEAN in 4 rotations; '
                            'every active assignment, +1 inactive, +1 unknown, -1 active leaf; every 5th also through TrialConverter.to_proto', 'held', detail=tot)
    chk.note('observed, not claimed: a conditional BOOLEAN parent stored as Python True (not the string) makes its children inactive (`True not in ("True",)`): '
             'the read raises ValueError; suggestions store the strings')
    return chk.finish(min_obligations=100)


class Scoped17(Scoped):
    def obligation(self, name, *a, **k):
        if not name.startswith('C17.'):
            name = 'C17.' + name + self.suffix
        return self.chk.obligation(name, *a, **k)
