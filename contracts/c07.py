"""C07 -- the RAM datastore refines the abstract DataStore contract; SQL is compared with it by a bounded stand-in.

Part 1 (deductive).  For each of the 20 API methods of `NestedDictRAMDataStore` the REAL method body is executed by the
pyvc engine on a *symbolic store*: `self._owners` is a `pyvc.lazystore.LazyDict` whose initial contents are the image of
a symbolic abstract view D0 = {study, trial, sop, eop : Name -> Option<Msg>, seq, next, owner} under the representation
relation Rep (owner -> OwnerNode.studies[study_id] -> StudyNode{study_proto, trial_protos[int], early_stopping_operations
[operation_id], clients[client].suggestion_operations[operation_id]}), materialised on demand at the keys the path touches.
The abstract contract is *the same code the servicer proofs assume* (`contracts.servicer_model.ds_*`, DESIGN Appendix A):
it is evaluated on D0 first (its `requires` become assumptions, its postcondition facts about a fresh result are captured
and re-stated about the implementation's result), then the real method runs, then

    result / error_class / effect / frame / error_leaves_data_unchanged / order / by_value.* / lock / tree_ownership

are generated per path and discharged (z3; identity clauses are decided on the python object graph of the engine).

Part 2 (bounded stand-in, never counted): `replay/c07_replay.py` evaluates an executable copy of the contract at run time
around the real RAM datastore and the real SQLDataStore (sqlite :memory: and a sqlite file under /verif/out) on all
operation sequences up to a bound, and compares responses / error classes / contents.
"""
import ast
import json
import os
import subprocess
import sys
import time

import z3

from pyvc import engine as E, models as M, protomodel as pm, report, verify, attrs_model  # noqa: F401 (attrs_model registers hooks)
from pyvc import lazystore as LZ
from pyvc.engine import Obj, ExcObj, PyRaise, Builtin, Unsupported
from pyvc.protomodel import Msg, SymList, Str
from pyvc.source import ModuleInfo
from contracts import servicer_model as S
from contracts.servicer_model import Name, acc, is_some, some, none, val, parse, mkname

RAM = 'vizier._src.service.ram_datastore'
SQL = 'vizier._src.service.sql_datastore'
RES = S.RES
CLS = 'NestedDictRAMDataStore'
T, ST, OP, EO = S.S_TRIAL, S.S_STUDY, S.S_OP, S.S_EOP
I = z3.IntSort()

METHODS = ['create_study', 'load_study', 'update_study', 'delete_study', 'list_studies',
           'create_trial', 'get_trial', 'update_trial', 'list_trials', 'delete_trial', 'max_trial_id',
           'create_suggestion_operation', 'get_suggestion_operation', 'update_suggestion_operation',
           'list_suggestion_operations', 'max_suggestion_operation_number',
           'create_early_stopping_operation', 'get_early_stopping_operation', 'update_early_stopping_operation',
           'update_metadata']

# ------------------------------------------------------------------------------------------ ghosts of the initial view
OWN0 = z3.Const('D0_owner', z3.ArraySort(Str, z3.BoolSort()))        # Appendix A: D.owner
NTRIALS = z3.Function('c07_ntrials', Str, Str, I)                     # |{t : (o,s,t) in dom D0.trial}|
SOME_TRIAL = z3.Function('c07_some_trial', Str, Str, I)              # a witness when ntrials > 0
OPCOUNT = z3.Function('c07_opcount', Str, Str, Str, I)               # operation numbers of (o,s,c) are 1..opcount
G = {'o': z3.Const('g_o', Str), 's': z3.Const('g_s', Str), 'c': z3.Const('g_c', Str), 't': z3.Int('g_t'), 'n': z3.Int('g_n')}

ASSUMPTIONS = [
    'canonical resource names (DESIGN 4.3): parse/mkname are mutually inverse on well-formed names; the regexes and f-strings of '
    'resources.py are replaced by this algebra (servicer_model); f-strings evaluated inside resources.py (operation_id) are '
    'injective in their components',
    'Inv(D0), the invariant of the abstract view maintained by the servicer (C01/C02): a trial / operation exists only in an '
    'existing study; an existing study has its owner registered; stored messages carry the name of their key',
    'Inv4(D0) (Appendix A): the suggestion-operation numbers of one (study, client) are 1..k without gaps and were created in '
    'increasing order (the servicer allocates max+1); RAM answers max_suggestion_operation_number with len(ops)',
    'creation stamps D.seq are distinct for distinct present keys and smaller than D.next (maintained by the contract itself)',
    'CPython dict semantics as stated in pyvc/lazystore.py (insertion order, len = number of keys, |{1..k}| = k)',
    'copy.deepcopy of a protobuf message / list of messages yields field-wise equal fresh objects sharing nothing with the argument',
    'create_trial / create_suggestion_operation / create_early_stopping_operation are called on an existing study (contract '
    '`requires`; the real RAM code raises a raw KeyError otherwise -- outside the contract, not a violation)',
    'nondeterminism of the contract is resolved angelically (refinement): a malformed name may raise ValueError or NotFoundError; '
    'list_studies: the owner is registered iff a study of that owner was ever created',
]


def skey(o, s):
    return Name.study(o, s)


def tkey(o, s, t):
    return Name.trial(o, s, t)


def okey(o, s, c, n):
    return Name.sop(o, s, c, n)


def ekey(o, s, t):
    return Name.eop(o, s, t)


def inv_axioms(D0):
    """Inv(D0) as quantified facts (used only when obligations are discharged)."""
    o, s, c = z3.Const('o!iv', Str), z3.Const('s!iv', Str), z3.Const('c!iv', Str)
    t, n, m = z3.Int('t!iv'), z3.Int('n!iv'), z3.Int('m!iv')
    stu = lambda o_, s_: is_some(ST(), D0['D.study'][skey(o_, s_)])
    ax = [
        z3.ForAll([o, s, t], z3.Implies(is_some(T(), D0['D.trial'][tkey(o, s, t)]), stu(o, s))),
        z3.ForAll([o, s, t], z3.Implies(is_some(EO(), D0['D.eop'][ekey(o, s, t)]), stu(o, s))),
        z3.ForAll([o, s, c, n], z3.Implies(is_some(OP(), D0['D.sop'][okey(o, s, c, n)]), stu(o, s))),
        z3.ForAll([o, s], z3.Implies(stu(o, s), OWN0[o])),
        z3.ForAll([o, s, c, n], is_some(OP(), D0['D.sop'][okey(o, s, c, n)]) == z3.And(n >= 1, n <= OPCOUNT(o, s, c))),
        z3.ForAll([o, s, c, n, m], z3.Implies(z3.And(n >= 1, n < m, m <= OPCOUNT(o, s, c)),
                                              D0['D.seq'][okey(o, s, c, n)] < D0['D.seq'][okey(o, s, c, m)])),
        z3.ForAll([o, s, t], z3.Implies(is_some(T(), D0['D.trial'][tkey(o, s, t)]), NTRIALS(o, s) >= 1)),
        z3.ForAll([o, s], z3.And(NTRIALS(o, s) >= 0,
                                 z3.Implies(NTRIALS(o, s) >= 1, is_some(T(), D0['D.trial'][tkey(o, s, SOME_TRIAL(o, s))])))),
        z3.ForAll([o, s], z3.Implies(stu(o, s), D0['D.seq'][skey(o, s)] < D0['D.next'])),
        z3.ForAll([o, s, t], z3.Implies(is_some(T(), D0['D.trial'][tkey(o, s, t)]), D0['D.seq'][tkey(o, s, t)] < D0['D.next'])),
        z3.ForAll([o, s, c, n], z3.Implies(is_some(OP(), D0['D.sop'][okey(o, s, c, n)]), D0['D.seq'][okey(o, s, c, n)] < D0['D.next'])),
    ]
    # the servicer-level invariant of the view (stored messages carry the canonical name of their key, ...), for every key
    k = z3.Const('k!iv', Name)
    ax.append(z3.ForAll([k], S.inv_at(D0, k)))
    return ax


def fstr_axioms(opid):
    """operation_id is injective in its components (DESIGN 4.3), as a quantified fact for the discharge queries."""
    vs = [opid.ph[a] for a in opid.attrs if any(ch.eq(opid.ph[a]) for ch in opid.term.children())]
    body = z3.And(*[fstr_inv(opid.term.decl(), i, ch.sort())(opid.term) == ch for i, ch in enumerate(opid.term.children())])
    return z3.ForAll(vs, body, patterns=[opid.term])


def touch_study(it, D0, o, s):
    run = it.run
    key = ('c07.study', o.get_id(), s.get_id())
    if key in run.instantiated:
        return
    run.instantiated.add(key)
    run.assume(z3.Implies(is_some(ST(), D0['D.study'][skey(o, s)]), OWN0[o]))
    run.assume(z3.And(NTRIALS(o, s) >= 0, z3.Implies(NTRIALS(o, s) >= 1, is_some(T(), D0['D.trial'][tkey(o, s, SOME_TRIAL(o, s))]))))


def touch_trial(it, D0, o, s, t):
    touch_study(it, D0, o, s)
    it.run.assume(z3.Implies(is_some(T(), D0['D.trial'][tkey(o, s, t)]),
                             z3.And(is_some(ST(), D0['D.study'][skey(o, s)]), NTRIALS(o, s) >= 1)))


def touch_eop(it, D0, o, s, t):
    touch_study(it, D0, o, s)
    it.run.assume(z3.Implies(is_some(EO(), D0['D.eop'][ekey(o, s, t)]), is_some(ST(), D0['D.study'][skey(o, s)])))


def touch_sop(it, D0, o, s, c, n):
    touch_study(it, D0, o, s)
    run = it.run
    run.assume(OPCOUNT(o, s, c) >= 0)
    for num in (n, z3.IntVal(1)):
        run.assume(is_some(OP(), D0['D.sop'][okey(o, s, c, num)]) == z3.And(num >= 1, num <= OPCOUNT(o, s, c)))
    run.assume(z3.Implies(is_some(OP(), D0['D.sop'][okey(o, s, c, n)]), is_some(ST(), D0['D.study'][skey(o, s)])))


# ------------------------------------------------------------------------------------------ f-strings of resources.py
_INV = {}
_orig_format_string = M.format_string


def fstr_inv(decl, i, sort):
    key = (decl.name(), i)
    if key not in _INV:
        _INV[key] = z3.Function('inv_%s_%d' % (decl.name().replace('!', '_'), i), Str, sort)
    return _INV[key]


def _format_string(it, parts):
    r = _orig_format_string(it, parts)
    if z3.is_expr(r) and z3.is_app(r) and r.decl().name().startswith('fstr!') and it.stack and it.stack[-1].mod.dotted == RES:
        key = ('fstr.inj', r.get_id())
        if key not in it.run.instantiated:
            it.run.instantiated.add(key)
            for i, ch in enumerate(r.children()):
                it.run.assume(fstr_inv(r.decl(), i, ch.sort())(r) == ch)
    return r


M.format_string = _format_string


class OpId:
    """`resource.operation_id` of the real resources.py as a function of its components (evaluated once per path on
    placeholder components), with the projection onto the number component."""

    def __init__(self, it, cls_name, attrs, num_attr):
        self.ph = {a: z3.Const('ph_%s_%s' % (cls_name, a), I if a == num_attr else Str) for a in attrs}
        o = Obj(S.res_class(cls_name), dict(self.ph))
        self.term = E.to_z3(it.getattr(o, 'operation_id'))
        self.attrs, self.num_attr = attrs, num_attr
        if not (z3.is_app(self.term) and self.term.decl().name().startswith('fstr!')):
            raise Unsupported('%s.operation_id is not an f-string of its components' % cls_name)
        pos = [i for i, ch in enumerate(self.term.children()) if ch.eq(self.ph[num_attr])]
        if len(pos) != 1:
            raise Unsupported('%s.operation_id does not contain %s exactly once' % (cls_name, num_attr))
        self.num = fstr_inv(self.term.decl(), pos[0], I)

    def __call__(self, **kw):
        subs = [(self.ph[a], kw[a]) for a in self.attrs if a in kw]
        return z3.substitute(self.term, *subs)


# ------------------------------------------------------------------------------------------ the symbolic store
class Store:
    pass


def msg_term(v, sch):
    if isinstance(v, Msg) and v.schema.fq == sch.fq:
        return v.pack()
    raise Unsupported('a stored value is not a %s message: %r' % (sch.fq, v))


def node_attr(v, a):
    if not isinstance(v, Obj) or a not in v.attrs:
        raise Unsupported('a stored node has no attribute %s: %r' % (a, v))
    return v.attrs[a]


def build_store(it):
    """self of NestedDictRAMDataStore with `_owners` = Rep^-1(D0), lazily."""
    run = it.run
    D0 = run.D0
    mod = ModuleInfo.get(RAM)
    st = Store()
    st.ctx = LZ.StoreCtx(D0['D.next'])
    st.D0 = D0
    st.cls = mod.classes[CLS]
    st.sopid = OpId(it, 'SuggestionOperationResource', ['owner_id', 'study_id', 'client_id', 'operation_number'], 'operation_number')
    st.eopid = OpId(it, 'EarlyStoppingOperationResource', ['owner_id', 'study_id', 'trial_id'], 'trial_id')
    run.axiom(fstr_axioms(st.sopid))
    run.axiom(fstr_axioms(st.eopid))
    ctx = st.ctx
    ONode, SNode, CNode = mod.classes['OwnerNode'], mod.classes['StudyNode'], mod.classes['ClientNode']

    K_TRIAL = LZ.Kind(T(), lambda m: msg_term(m, T()), lambda term: Msg.from_term(T(), term))
    K_OP = LZ.Kind(OP(), lambda m: msg_term(m, OP()), lambda term: Msg.from_term(OP(), term))
    K_EOP = LZ.Kind(EO(), lambda m: msg_term(m, EO()), lambda term: Msg.from_term(EO(), term), ordered=False)
    K_STUDY = LZ.Kind(ST(), lambda node: msg_term(node_attr(node, 'study_proto'), ST()),
                      lambda term: Obj(SNode, {'study_proto': Msg.from_term(ST(), term), 'trial_protos': LZ.Poison('trial_protos of a listed node'),
                                               'early_stopping_operations': LZ.Poison('early_stopping_operations of a listed node'),
                                               'clients': LZ.Poison('clients of a listed node')}))
    K_NODE = LZ.Kind(None, None, None, ordered=False)

    def trials_bg(o, s):
        k = lambda t: tkey(o, s, t)
        return LZ.Background(
            has=lambda t: is_some(T(), D0['D.trial'][k(t)]), make=lambda it_, t: Msg.from_term(T(), val(T(), D0['D.trial'][k(t)])),
            ord=lambda t: D0['D.seq'][k(t)], vterm=lambda t: val(T(), D0['D.trial'][k(t)]), count=NTRIALS(o, s),
            lookup={'trial': lambda t: D0['D.trial'][k(t)], 'seq_trial': lambda t: D0['D.seq'][k(t)]},
            touch=lambda it_, t: touch_trial(it_, D0, o, s, t))

    def eops_bg(o, s):
        num = st.eopid.num
        wf = lambda ks: ks == st.eopid(study_id=s, trial_id=num(ks))
        return LZ.Background(
            has=lambda ks: z3.And(wf(ks), is_some(EO(), D0['D.eop'][ekey(o, s, num(ks))])),
            make=lambda it_, ks: Msg.from_term(EO(), val(EO(), D0['D.eop'][ekey(o, s, num(ks))])),
            vterm=lambda ks: val(EO(), D0['D.eop'][ekey(o, s, num(ks))]),
            lookup={'eop': lambda ks, t: D0['D.eop'][ekey(o, s, t)]},
            touch=lambda it_, ks: touch_eop(it_, D0, o, s, num(ks)))

    def sops_bg(o, s, c):
        num = st.sopid.num
        wf = lambda ks: ks == st.sopid(study_id=s, client_id=c, operation_number=num(ks))
        return LZ.Background(
            has=lambda ks: z3.And(wf(ks), is_some(OP(), D0['D.sop'][okey(o, s, c, num(ks))])),
            make=lambda it_, ks: Msg.from_term(OP(), val(OP(), D0['D.sop'][okey(o, s, c, num(ks))])),
            ord=lambda ks: D0['D.seq'][okey(o, s, c, num(ks))], vterm=lambda ks: val(OP(), D0['D.sop'][okey(o, s, c, num(ks))]),
            count=OPCOUNT(o, s, c),
            lookup={'sop': lambda ks, n: D0['D.sop'][okey(o, s, c, n)], 'seq_sop': lambda ks, n: D0['D.seq'][okey(o, s, c, n)]},
            touch=lambda it_, ks: touch_sop(it_, D0, o, s, c, num(ks)))

    def clients_bg(o, s):
        return LZ.Background(
            has=lambda c: is_some(OP(), D0['D.sop'][okey(o, s, c, z3.IntVal(1))]),
            make=lambda it_, c: Obj(CNode, {'suggestion_operations': LZ.LazyDict('suggestion_operations', Str, ctx, K_OP, sops_bg(o, s, c))}),
            lookup={'sop': lambda c, n: D0['D.sop'][okey(o, s, c, n)], 'seq_sop': lambda c, n: D0['D.seq'][okey(o, s, c, n)],
                    'client': lambda c: is_some(OP(), D0['D.sop'][okey(o, s, c, z3.IntVal(1))])},
            touch=lambda it_, c: touch_sop(it_, D0, o, s, c, z3.IntVal(1)))

    def make_study(it_, o, s):
        return Obj(SNode, {
            'study_proto': Msg.from_term(ST(), val(ST(), D0['D.study'][skey(o, s)])),
            'trial_protos': LZ.LazyDict('trial_protos', I, ctx, K_TRIAL, trials_bg(o, s)),
            'early_stopping_operations': LZ.LazyDict('early_stopping_operations', Str, ctx, K_EOP, eops_bg(o, s)),
            'clients': LZ.LazyDict('clients', Str, ctx, K_NODE, clients_bg(o, s))})

    def studies_bg(o):
        return LZ.Background(
            has=lambda s: is_some(ST(), D0['D.study'][skey(o, s)]), make=lambda it_, s: make_study(it_, o, s),
            ord=lambda s: D0['D.seq'][skey(o, s)], vterm=lambda s: val(ST(), D0['D.study'][skey(o, s)]),
            lookup={'study': lambda s: D0['D.study'][skey(o, s)], 'seq_study': lambda s: D0['D.seq'][skey(o, s)],
                    'trial': lambda s, t: D0['D.trial'][tkey(o, s, t)], 'seq_trial': lambda s, t: D0['D.seq'][tkey(o, s, t)],
                    'eop': lambda s, t: D0['D.eop'][ekey(o, s, t)],
                    'sop': lambda s, c, n: D0['D.sop'][okey(o, s, c, n)], 'seq_sop': lambda s, c, n: D0['D.seq'][okey(o, s, c, n)],
                    'client': lambda s, c: is_some(OP(), D0['D.sop'][okey(o, s, c, z3.IntVal(1))])},
            touch=lambda it_, s: touch_study(it_, D0, o, s))

    owners_bg = LZ.Background(
        has=lambda o: OWN0[o], make=lambda it_, o: Obj(ONode, {'studies': LZ.LazyDict('studies', Str, ctx, K_STUDY, studies_bg(o))}),
        lookup={'study': lambda o, s: D0['D.study'][skey(o, s)], 'seq_study': lambda o, s: D0['D.seq'][skey(o, s)],
                'trial': lambda o, s, t: D0['D.trial'][tkey(o, s, t)], 'seq_trial': lambda o, s, t: D0['D.seq'][tkey(o, s, t)],
                'eop': lambda o, s, t: D0['D.eop'][ekey(o, s, t)],
                'sop': lambda o, s, c, n: D0['D.sop'][okey(o, s, c, n)], 'seq_sop': lambda o, s, c, n: D0['D.seq'][okey(o, s, c, n)],
                'client': lambda o, s, c: is_some(OP(), D0['D.sop'][okey(o, s, c, z3.IntVal(1))])})
    st.owners = LZ.LazyDict('_owners', Str, ctx, K_NODE, owners_bg)
    st.lock = M.LockObj('_lock')
    st.self = Obj(st.cls, {'_lock': st.lock})
    st.self.c07_store = st
    return st


def _owners_property(it, obj):
    st = getattr(obj, 'c07_store', None)
    if st is None:
        raise Unsupported('NestedDictRAMDataStore._owners of an object that was not built by C07')
    st.ctx.record(it, 'self._owners', st.owners)
    return st.owners


E.PROPERTIES['%s:%s._owners' % (RAM, CLS)] = _owners_property


# ------------------------------------------------------------------------------------------ abstraction function alpha
class PEntry:
    """pseudo entry for an item of a concrete dict created by the code under contract."""

    def __init__(self, value, ord):
        self.value, self.ord, self.present = value, ord, True


def chain(st, d, k, on_entry, bgkind, subkeys, absent):
    """value of `d` at the generic key k as a z3 term (dict created lazily from D0, or a concrete dict built by the code)."""
    if isinstance(d, LZ.LazyDict):
        if d.ksort != k.sort():
            raise Unsupported('store dict %r has keys of sort %s, expected %s' % (d, d.ksort, k.sort()))
        if d.bg is not None and bgkind not in d.bg.lookup:
            raise Unsupported('store dict %r is used at a position where it cannot be (%s)' % (d, bgkind))
        return d.chain(k, on_entry, lambda k_: d.bg.lookup[bgkind](k_, *subkeys), absent)
    if isinstance(d, M.PyDict):
        r = absent
        for idx, (key, v) in enumerate(d.items_):
            kt = LZ.key_term(key)
            if kt is None or kt.sort() != k.sort():
                raise Unsupported('a dict built by the code has a key of an unexpected type: %r' % (key,))
            r = z3.If(k == kt, on_entry(PEntry(v, st.ctx.tick0 + idx)), r)
        return r
    raise Unsupported('store component is not a dict: %r' % (d,))


def _studies(st, o, s, at_study, kind, sub, absent):
    return chain(st, st.owners, o,
                 lambda eo: chain(st, node_attr(eo.value, 'studies'), s, at_study, kind, sub, absent),
                 kind, (s,) + sub, absent)


def A_owner(st, o):
    return st.owners.has_term(o)


def A_study(st, o, s):
    return _studies(st, o, s, lambda e: some(ST(), msg_term(node_attr(e.value, 'study_proto'), ST())), 'study', (), none(ST()))


def A_seq_study(st, o, s):
    return _studies(st, o, s, lambda e: e.ord if e.ord is not None else z3.IntVal(-1), 'seq_study', (), z3.IntVal(-1))


def A_trial(st, o, s, t):
    return _studies(st, o, s, lambda e: chain(st, node_attr(e.value, 'trial_protos'), t, lambda et: some(T(), msg_term(et.value, T())),
                                              'trial', (), none(T())), 'trial', (t,), none(T()))


def A_seq_trial(st, o, s, t):
    return _studies(st, o, s, lambda e: chain(st, node_attr(e.value, 'trial_protos'), t, lambda et: et.ord if et.ord is not None else z3.IntVal(-1),
                                              'seq_trial', (), z3.IntVal(-1)), 'seq_trial', (t,), z3.IntVal(-1))


def A_eop(st, o, s, t):
    ks = st.eopid(study_id=s, trial_id=t)
    return _studies(st, o, s, lambda e: chain(st, node_attr(e.value, 'early_stopping_operations'), ks,
                                              lambda ee: some(EO(), msg_term(ee.value, EO())), 'eop', (t,), none(EO())), 'eop', (t,), none(EO()))


def A_client(st, o, s, c):
    return _studies(st, o, s, lambda e: chain(st, node_attr(e.value, 'clients'), c, lambda ec: z3.BoolVal(True), 'client', (), z3.BoolVal(False)),
                    'client', (c,), z3.BoolVal(False))


def _ops(st, o, s, c, n, at_op, kind, absent):
    ks = st.sopid(study_id=s, client_id=c, operation_number=n)
    return _studies(st, o, s, lambda e: chain(st, node_attr(e.value, 'clients'), c,
                                              lambda ec: chain(st, node_attr(ec.value, 'suggestion_operations'), ks, at_op, kind, (n,), absent),
                                              kind, (n,), absent), kind, (c, n), absent)


def A_sop(st, o, s, c, n):
    return _ops(st, o, s, c, n, lambda eo: some(OP(), msg_term(eo.value, OP())), 'sop', none(OP()))


def A_seq_sop(st, o, s, c, n):
    return _ops(st, o, s, c, n, lambda eo: eo.ord if eo.ord is not None else z3.IntVal(-1), 'seq_sop', z3.IntVal(-1))


def new_concrete_entries(st):
    """number of ordered entries (studies / trials / suggestion operations) living in dicts created by the code itself."""
    n = 0

    def dict_items(d):
        if isinstance(d, M.PyDict):
            return [(True, v) for _, v in d.items_]
        if isinstance(d, LZ.LazyDict):
            return [(False, e.value) for e in d.entries if e.present]
        return []

    for _, on in dict_items(st.owners):
        for new_s, sn in dict_items(node_attr(on, 'studies')):
            n += 1 if new_s else 0
            n += sum(1 for new_t, _ in dict_items(node_attr(sn, 'trial_protos')) if new_t)
            for _, cn in dict_items(node_attr(sn, 'clients')):
                n += sum(1 for new_o, _ in dict_items(node_attr(cn, 'suggestion_operations')) if new_o)
    return n


def store_objects(st):
    """python objects the store consists of (for the identity clauses)."""
    return LZ.reach([st.owners] + list(st.ctx.alias_objs))


def tree_violations(st):
    """nodes / containers / messages reachable by two different paths from `_owners`."""
    seen, dup = {}, []

    def visit(v, path):
        if v is None or isinstance(v, (bool, int, float, str, bytes)) or z3.is_expr(v) or isinstance(v, LZ.Poison):
            return
        if id(v) in seen:
            dup.append('%s and %s' % (seen[id(v)], path))
            return
        seen[id(v)] = path
        if isinstance(v, LZ.LazyDict):
            for i, e in enumerate(e for e in v.entries if e.present):
                visit(e.value, '%s[%s]' % (path, e.key))
        elif isinstance(v, M.PyDict):
            for k, x in v.items_:
                visit(x, '%s[%s]' % (path, k))
        elif isinstance(v, Obj):
            for a, x in v.attrs.items():
                visit(x, '%s.%s' % (path, a))
        elif isinstance(v, (list, tuple)):
            for i, x in enumerate(v):
                visit(x, '%s[%d]' % (path, i))
    visit(st.owners, '_owners')
    return dup


# ------------------------------------------------------------------------------------------ evaluating the contract
POST_CALLERS = {'_fresh_list', 'max_id_of', 'add_key_fact', 'ds_list_studies', 'ds_list_trials', 'ds_list_sops', 'ds_max_sop_number'}
EITHER = 'ValueError|NotFoundError'
FLT = None


def filter_symbol():
    global FLT
    if FLT is None:
        FLT = z3.Function('c07_filter_fn', pm.msg_sort(OP()), z3.BoolSort())
    return FLT


def run_contract(it, method, args, owner_exists):
    """Evaluate servicer_model.ds_<method> on the ghost view.  Returns (outcome, captured postcondition facts, requires).
    * facts that the contract *assumes about its fresh result* are captured instead of assumed (they are obligations here);
    * `requires` obligations of the contract become assumptions;
    * the contract's nondeterministic choices are resolved angelically (see ASSUMPTIONS)."""
    run = it.run
    captured, requires = [], []
    R = type(run)

    def assume(c):
        if sys._getframe(1).f_code.co_name in POST_CALLERS:
            captured.append(('assume', c))
            return
        R.assume(run, c)

    def axiom(c):
        if sys._getframe(1).f_code.co_name in POST_CALLERS:
            captured.append(('axiom', c))
            return
        R.axiom(run, c)

    def oblige(name, formula, info=None):
        if name.startswith('datastore.') and '.requires.' in name:
            requires.append(name)
            R.assume(run, formula)
            return
        R.oblige(run, name, formula, info)

    def choose(cond):
        if z3.is_expr(cond) and z3.is_const(cond) and cond.decl().name().startswith('owner_exists!'):
            if owner_exists is None:
                raise Unsupported('the contract asks whether an owner exists in a method where C07 did not expect it')
            return R.choose(run, owner_exists)
        return R.choose(run, cond)

    old_malformed = S._malformed
    S._malformed = lambda it_: PyRaise(ExcObj(E.BuiltinClass(EITHER), {'args': ('malformed resource name',)}))
    run.assume, run.axiom, run.oblige, run.choose = assume, axiom, oblige, choose
    try:
        try:
            out = ('return', S.DS_METHODS[method](it, [None] + list(args), {}))
        except PyRaise as pr:
            out = ('raise', pr.exc)
    finally:
        S._malformed = old_malformed
        for a in ('assume', 'axiom', 'oblige', 'choose'):
            run.__dict__.pop(a, None)
        run.key_facts = []
    return out, captured, requires


# ------------------------------------------------------------------------------------------ arguments
class Rec:
    pass


def sym_msg(sch, name):
    return Msg.from_term(sch, z3.Const(name, pm.msg_sort(sch)))


def make_args(it, method, variant):
    """(impl args, contract args, info) -- the contract gets its own python objects (identity clauses look at the impl's)."""
    a = Rec()
    a.kind = None
    nm = z3.Const('a_name', Str)
    if method in ('create_study', 'update_study'):
        a.impl, a.spec = [sym_msg(ST(), 'a_study')], [sym_msg(ST(), 'a_study')]
        a.kind, a.name = 'study', acc(ST(), 'name')(z3.Const('a_study', pm.msg_sort(ST())))
    elif method in ('load_study', 'delete_study', 'list_trials', 'max_trial_id'):
        a.impl, a.spec, a.kind, a.name = [nm], [nm], 'study', nm
    elif method == 'list_studies':
        a.impl, a.spec, a.kind, a.name = [nm], [nm], 'owner', nm
    elif method in ('create_trial', 'update_trial'):
        a.impl, a.spec = [sym_msg(T(), 'a_trial')], [sym_msg(T(), 'a_trial')]
        a.kind, a.name = 'trial', acc(T(), 'name')(z3.Const('a_trial', pm.msg_sort(T())))
    elif method in ('get_trial', 'delete_trial'):
        a.impl, a.spec, a.kind, a.name = [nm], [nm], 'trial', nm
    elif method in ('create_suggestion_operation', 'update_suggestion_operation'):
        a.impl, a.spec = [sym_msg(OP(), 'a_op')], [sym_msg(OP(), 'a_op')]
        a.kind, a.name = 'sop', acc(OP(), 'name')(z3.Const('a_op', pm.msg_sort(OP())))
    elif method == 'get_suggestion_operation':
        a.impl, a.spec, a.kind, a.name = [nm], [nm], 'sop', nm
    elif method in ('create_early_stopping_operation', 'update_early_stopping_operation'):
        a.impl, a.spec = [sym_msg(EO(), 'a_eop')], [sym_msg(EO(), 'a_eop')]
        a.kind, a.name = 'eop', acc(EO(), 'name')(z3.Const('a_eop', pm.msg_sort(EO())))
    elif method == 'get_early_stopping_operation':
        a.impl, a.spec, a.kind, a.name = [nm], [nm], 'eop', nm
    elif method in ('list_suggestion_operations', 'max_suggestion_operation_number'):
        cl = z3.Const('a_client', Str)
        a.impl, a.spec, a.kind, a.name, a.client = [nm, cl], [nm, cl], 'study', nm, cl
        if method == 'list_suggestion_operations':
            f = filter_symbol()
            with_filter = it.run.choose(z3.Bool('c07_a_filter_is_given'))
            flt = Builtin('filter_fn', lambda it_, args, kw: f(args[0].pack())) if with_filter else None
            a.impl, a.spec = [nm, cl, flt], [nm, cl, flt]
    elif method == 'update_metadata':
        KV, UMU = S.schema('vizier.KeyValue'), S.schema('vizier.UnitMetadataUpdate')

        def kvs():
            return SymList(z3.Const('a_smd_n', I), z3.Const('a_smd', z3.ArraySort(I, pm.msg_sort(KV))), KV)
        it.run.assume(z3.Const('a_smd_n', I) >= 0)
        k = int(variant)
        for i in range(k):     # canonical ids (DESIGN 4.3): a trial id that is an integer literal is the canonical one
            tid = acc(UMU, 'trial_id')(z3.Const('a_tmd%d' % i, pm.msg_sort(UMU)))
            it.run.assume(z3.Implies(M.is_int_str(tid), z3.And(M.canonical_int_str(tid), M.int2str(M.str2int(tid)) == tid)))
        a.impl = [nm, kvs(), [sym_msg(UMU, 'a_tmd%d' % i) for i in range(k)]]
        # the contract gets the same list as an array-list over an array constant (so that its quantified facts have a trigger)
        tarr = z3.Const('a_tmd_arr', z3.ArraySort(I, pm.msg_sort(UMU)))
        for i in range(k):
            it.run.assume(tarr[i] == z3.Const('a_tmd%d' % i, pm.msg_sort(UMU)))
        a.spec = [nm, kvs(), SymList(z3.IntVal(k), tarr, UMU)]
        a.kind, a.name = 'study', nm
    else:
        raise Unsupported('no argument description for method %s' % method)
    return a


def make_entry(method, variant):
    def entry(it):
        run = it.run
        S.init_view(run)
        for ax in inv_axioms(run.D0):
            run.axiom(ax)
        st = build_store(it)
        a = make_args(it, method, variant)
        n = S.parse_name(it, a.name)
        owner_exists = OWN0[Name.o0(n)] if method == 'list_studies' else None
        c_out, captured, requires = run_contract(it, method, a.spec, owner_exists)
        rec = Rec()
        rec.method, rec.variant, rec.st, rec.args, rec.key = method, variant, st, a, n
        rec.contract, rec.captured, rec.requires = c_out, captured, requires
        rec.D0, rec.D1 = run.D0, dict(run.ghost)
        if method not in st.cls.methods:
            raise Unsupported('%s.%s does not exist in the current tree' % (CLS, method))
        fv = E.FuncVal(st.cls.mod, st.cls.methods[method], st.cls)
        try:
            rec.impl = ('return', it.invoke(fv, [st.self] + list(a.impl), {}))
        except PyRaise as pr:
            rec.impl = ('raise', pr.exc)
        rec.tick = st.ctx.tick
        return rec
    return entry


# ------------------------------------------------------------------------------------------ postconditions
LIST_METHODS = ('list_studies', 'list_trials', 'list_suggestion_operations')
RESULT_CLAUSES = {
    'list_studies': ['result.len', 'result.members', 'result.complete', 'order'],
    'list_trials': ['result.len', 'result.members', 'result.complete', 'order'],
    'list_suggestion_operations': ['result.len', 'result.members', 'result.complete', 'order'],
    'max_trial_id': ['result.nonneg', 'result.upper_bound', 'result.attained'],
    'max_suggestion_operation_number': ['result.positive', 'result.exists', 'result.upper_bound', 'result.is_last'],
}
COMMON_CLAUSES = ['error_class', 'result', 'effect', 'effect.stamps', 'frame', 'error_leaves_data_unchanged', 'rep.clients',
                  'by_value.result', 'by_value.argument', 'tree_ownership', 'lock']
ELEM = {'list_studies': ST, 'list_trials': T, 'list_suggestion_operations': OP}


def clause_names(method):
    names = list(COMMON_CLAUSES) + RESULT_CLAUSES.get(method, [])
    if method == 'list_studies':
        names.append('missing_owner_has_no_study')
    return names


def B(b):
    return z3.BoolVal(bool(b))


def values_equal(a, b):
    """python-side result values -> z3 Bool (same class and field-wise equal)."""
    if a is None or b is None:
        return B(a is None and b is None)
    if isinstance(a, Msg) and isinstance(b, Msg):
        return a.pack() == b.pack() if a.schema.fq == b.schema.fq else B(False)
    if isinstance(a, Obj) and isinstance(b, Obj):
        if E.class_name(a.cls) != E.class_name(b.cls) or set(a.attrs) != set(b.attrs):
            return B(False)
        cs = [E.zbool(E.eq_values(a.attrs[k], b.attrs[k])) for k in sorted(a.attrs)]
        return z3.And(*cs) if cs else B(True)
    try:
        return E.zbool(E.eq_values(a, b))
    except Unsupported:
        return B(False)


def footprint(method, n):
    """per map: predicate over the generic key saying that the method may change it."""
    o, s, c, t, num = G['o'], G['s'], G['c'], G['t'], G['n']
    F = B(False)
    fp = {'owner': F, 'study': F, 'trial': F, 'sop': F, 'eop': F}
    if method in ('create_study', 'update_study', 'update_metadata', 'delete_study'):
        fp['study'] = skey(o, s) == n
    if method == 'create_study':
        fp['owner'] = o == Name.o1(n)
    if method in ('delete_study', 'update_metadata'):
        fp['trial'] = skey(o, s) == n
    if method == 'delete_study':
        fp['sop'] = skey(o, s) == n
        fp['eop'] = skey(o, s) == n
    if method in ('create_trial', 'update_trial', 'delete_trial'):
        fp['trial'] = tkey(o, s, t) == n
    if method in ('create_suggestion_operation', 'update_suggestion_operation'):
        fp['sop'] = okey(o, s, c, num) == n
    if method in ('create_early_stopping_operation', 'update_early_stopping_operation'):
        fp['eop'] = ekey(o, s, t) == n
    return fp


def alpha(st):
    o, s, c, t, n = G['o'], G['s'], G['c'], G['t'], G['n']
    return {'owner': A_owner(st, o), 'study': A_study(st, o, s), 'trial': A_trial(st, o, s, t), 'sop': A_sop(st, o, s, c, n),
            'eop': A_eop(st, o, s, t), 'client': A_client(st, o, s, c),
            'seq_study': A_seq_study(st, o, s), 'seq_trial': A_seq_trial(st, o, s, t), 'seq_sop': A_seq_sop(st, o, s, c, n)}


def view_at(D):
    o, s, c, t, n = G['o'], G['s'], G['c'], G['t'], G['n']
    return {'study': D['D.study'][skey(o, s)], 'trial': D['D.trial'][tkey(o, s, t)], 'sop': D['D.sop'][okey(o, s, c, n)],
            'eop': D['D.eop'][ekey(o, s, t)],
            'seq_study': D['D.seq'][skey(o, s)], 'seq_trial': D['D.seq'][tkey(o, s, t)], 'seq_sop': D['D.seq'][okey(o, s, c, n)]}


SCH = {'study': ST, 'trial': T, 'sop': OP, 'eop': EO}


def exc_ok(contract_cls, impl_exc):
    ic = E.class_name(impl_exc.cls)
    if contract_cls == EITHER:
        return ic in ('ValueError', 'NotFoundError')
    return ic == contract_cls


def post(p):
    r = p.value
    st, method, n = r.st, r.method, r.key
    P = 'C07.ram.%s.' % method
    obs = {nm: B(True) for nm in clause_names(method)}
    ck, cv = r.contract
    ik, iv = r.impl
    # ---- outcome
    if ck == 'raise' and ik == 'raise':
        obs['error_class'] = B(exc_ok(E.class_name(cv.cls), iv))
    elif ck != ik:
        obs['error_class'] = B(False)
    # ---- result
    if ck == 'return' and ik == 'return':
        if method in RESULT_CLAUSES:
            facts = [(k_, f) for (k_, f) in r.captured]
            names = RESULT_CLAUSES[method]
            if len(facts) < len(names):
                raise Unsupported('the contract of %s states %d facts about its result, expected %d' % (method, len(facts), len(names)))
            if method in LIST_METHODS:
                res = iv if isinstance(iv, SymList) else M.to_symlist(None, iv, ELEM[method]()) if isinstance(iv, list) and all(isinstance(x, Msg) for x in iv) else None
                if res is None or not isinstance(cv, SymList) or res.elem_sort() != cv.elem_sort():
                    obs['result'] = B(False)
                else:
                    for nm, (_, f) in zip(names, facts):
                        obs[nm] = z3.substitute(f, (cv.n, res.n if z3.is_expr(res.n) else z3.IntVal(res.n)), (cv.arr, res.arr))
            else:
                try:
                    rv = E.to_z3(iv)
                except Unsupported:
                    rv = None
                if rv is None or rv.sort() != I or isinstance(iv, bool):
                    obs['result'] = B(False)
                else:
                    for nm, (_, f) in zip(names, facts):
                        obs[nm] = z3.substitute(f, (cv, rv))
        else:
            obs['result'] = values_equal(cv, iv)
    lemmas = []
    if method in LIST_METHODS or method in ('max_trial_id', 'max_suggestion_operation_number'):
        # cut: the name stored in the i-th listed value parses to the key of the i-th listed dict key (from Inv(D0))
        i = z3.Int('i!l1')
        for li, L in enumerate(st.ctx.lists):
            if L.what != 'values' or not isinstance(L.elem, pm.MsgSchema):
                continue
            nm_of = lambda ix, L=L: parse(acc(L.elem, 'name')(L.arr[ix]))
            if L.lazy.name == 'trial_protos':
                key = lambda ix, L=L: tkey(Name.o1(n), Name.s1(n), L.keyat[ix])
            elif L.lazy.name == 'studies':
                key = lambda ix, L=L: skey(Name.o0(n), L.keyat[ix])
            elif L.lazy.name == 'suggestion_operations':
                key = lambda ix, L=L: okey(Name.o1(n), Name.s1(n), r.args.client, st.sopid.num(L.keyat[ix]))
            else:
                continue
            lemmas.append((P + 'lemma.listed_names.%d' % li, z3.ForAll([i], z3.Implies(z3.And(i >= 0, i < L.n), nm_of(i) == key(i))), 'lemma'))
            # cut: every present key of the dict has a position in the listing (the dict-iteration model, at the right terms)
            k = z3.Const('k!l2', Name)
            if L.lazy.name == 'trial_protos':
                belongs, idx = z3.And(Name.is_trial(k), S.study_of_trial(k) == n), Name.t2(k)
            elif L.lazy.name == 'studies':
                belongs, idx = z3.And(Name.is_study(k), Name.o1(k) == Name.o0(n)), Name.s1(k)
            else:
                belongs = z3.And(Name.is_sop(k), Name.o3(k) == Name.o1(n), Name.s3(k) == Name.s1(n), Name.c3(k) == r.args.client)
                idx = st.sopid(study_id=Name.s1(n), client_id=r.args.client, operation_number=Name.n3(k))
            here = z3.And(belongs, L.lazy.has_term(idx))
            lemmas.append((P + 'lemma.listed_positions.%d' % li,
                           z3.ForAll([k], z3.Implies(here, z3.And(L.pos[idx] >= 0, L.pos[idx] < L.n, L.keyat[L.pos[idx]] == idx))), 'lemma'))
            res = iv if ik == 'return' else None
            if isinstance(res, SymList) and getattr(res, 'src', None) is not None and getattr(res, 'parent', None) is not None \
                    and res.parent.arr.eq(L.arr):
                isrc = getattr(p.run, 'sfm_inverse', {}).get(res.src.get_id())
                if isrc is not None:
                    j = isrc[L.pos[idx]]
                    lemmas.append((P + 'lemma.filtered_positions.%d' % li,
                                   z3.ForAll([k], z3.Implies(z3.And(here, res.cond_at(L.pos[idx])),
                                                             z3.And(j >= 0, j < res.n, res.src[j] == L.pos[idx],
                                                                    parse(acc(L.elem, 'name')(res.arr[j])) == k))), 'lemma'))
    if method == 'list_studies' and ck == 'raise' and E.class_name(cv.cls) == 'NotFoundError':
        ax = [f for k_, f in r.captured if k_ == 'axiom']
        obs['missing_owner_has_no_study'] = z3.And(*ax) if ax else B(False)
    # ---- state
    A, V0, V1 = alpha(st), view_at(r.D0), view_at(r.D1)
    fp = footprint(method, n)
    o = G['o']
    own1 = z3.Store(OWN0, Name.o1(n), True)[o] if (method == 'create_study' and ck == 'return') else OWN0[o]
    tick1 = r.tick + new_concrete_entries(st)
    maps = ('study', 'trial', 'sop', 'eop')
    present = {m: is_some(SCH[m](), A[m]) for m in maps}
    if ck == 'return' and method == 'update_metadata':
        # Appendix A ("each named trial's metadata := merge(old, its updates), nothing else"); ds_update_metadata applies the
        # merge function to every trial of the study with the whole update list, which is the same view under the C10 lemmas
        exp_study, exp_trial = md_expected(r)
        obs['effect'] = z3.And(A['study'] == exp_study, A['trial'] == exp_trial, A['sop'] == V0['sop'], A['eop'] == V0['eop'],
                               A['owner'] == OWN0[o])
        obs['effect.stamps'] = z3.And(*([z3.Implies(present[m], A['seq_' + m] == V0['seq_' + m]) for m in ('study', 'trial', 'sop')]
                                        + [tick1 == r.D0['D.next']]))
    elif ck == 'return':
        obs['effect'] = z3.And(*([A[m] == V1[m] for m in maps] + [A['owner'] == own1]))
        obs['effect.stamps'] = z3.And(*([z3.Implies(present[m], A['seq_' + m] == V1['seq_' + m]) for m in ('study', 'trial', 'sop')]
                                        + [tick1 == r.D1['D.next']]))
    obs['frame'] = z3.And(*([z3.Implies(z3.Not(fp[m]), A[m] == V0[m]) for m in maps]
                            + [z3.Implies(z3.Not(fp['owner']), A['owner'] == OWN0[o])]
                            + [z3.Implies(z3.And(z3.Not(fp[m]), present[m]), A['seq_' + m] == V0['seq_' + m]) for m in ('study', 'trial', 'sop')]))
    if ik == 'raise':
        obs['error_leaves_data_unchanged'] = z3.And(*([A[m] == V0[m] for m in maps] + [A['owner'] == OWN0[o], tick1 == r.D0['D.next']]
                                                      + [z3.Implies(present[m], A['seq_' + m] == V0['seq_' + m]) for m in ('study', 'trial', 'sop')]))
    # a client node exists iff the client has an operation (Rep for `clients`)
    witness = [z3.IntVal(1)] + ([Name.n3(n)] if r.args.kind == 'sop' else [])
    sop_at = lambda num: is_some(OP(), A_sop(st, G['o'], G['s'], G['c'], num))
    obs['rep.clients'] = z3.And(z3.Implies(A['client'], z3.Or(*[sop_at(w) for w in witness])), z3.Implies(sop_at(G['n']), A['client']))
    # ---- identity clauses (decided on the python object graph of this path)
    stored = store_objects(st)
    if ik == 'return':
        res_objs = LZ.reach([iv])
        sh = [v for i_, v in res_objs.items() if i_ in stored]
        aliased_list = isinstance(iv, SymList) and getattr(iv, 'alias_of', None) is not None
        if sh:
            obs['by_value.result'] = B(False)
        elif aliased_list:
            obs['by_value.result'] = iv.n <= 0
        r.shared_result = [repr(v) for v in sh][:4] + (['every element of the returned list is the stored object'] if aliased_list else [])
    arg_objs = LZ.reach(list(r.args.impl))
    sh = [v for i_, v in arg_objs.items() if i_ in stored]
    if sh:
        obs['by_value.argument'] = B(False)
    r.shared_arg = [repr(v) for v in sh][:4]
    dup = tree_violations(st)
    if dup:
        obs['tree_ownership'] = B(False)
    r.dup = dup[:4]
    unlocked = [(op, d) for (op, d, held) in st.ctx.ops if not held]
    if unlocked:
        obs['lock'] = B(False)
    r.unlocked = unlocked[:6]
    return lemmas + [(P + nm, f) for nm, f in obs.items()]


# ------------------------------------------------------------------------------------------ update_metadata
MDU = 'vizier._src.pyvizier.oss.metadata_util'


def _merge_model(which):
    """metadata_util.merge_*_metadata(proto, updates): the effect on the enclosing stored message is *named* by the spec
    functions merge_study_md / merge_trial_md of the contract (servicer_model.md_functions); their properties
    (last-writer-wins, only `metadata` changes, updates of other trials ignored) are proved on the real functions in C10."""
    def fn(it, args, kw):
        ms, mt = S.md_functions()
        target, updates = args[0], args[1]
        if which == 'study':
            if not isinstance(target, Msg) or target.parent is None or target.parent[0].schema.fq != ST().fq:
                raise Unsupported('merge_study_metadata on a StudySpec that is not the study_spec of a Study message')
            msg, f, elem = target.parent[0], ms, S.schema('vizier.KeyValue')
        else:
            if not isinstance(target, Msg) or target.schema.fq != T().fq:
                raise Unsupported('merge_trial_metadata on %r' % (target,))
            msg, f, elem = target, mt, S.schema('vizier.UnitMetadataUpdate')
        L = M.to_symlist(it, updates, elem)
        new = f(msg.pack(), L.n if z3.is_expr(L.n) else z3.IntVal(L.n), L.arr)
        msg.base = new
        msg.f, msg.has, msg.case = {}, {}, {}
        msg.touch()
        return None
    return fn


E.MODELS[MDU + ':merge_study_metadata'] = _merge_model('study')
E.MODELS[MDU + ':merge_trial_metadata'] = _merge_model('trial')


def md_expected(r):
    """Appendix A: D' of update_metadata(n, S, T) on success, at the generic keys (study, trial)."""
    ms, mt = S.md_functions()
    UMU = S.schema('vizier.UnitMetadataUpdate')
    n, D0 = r.key, r.D0
    smd, tmd = r.args.impl[1], r.args.impl[2]
    o, s, t = G['o'], G['s'], G['t']
    old_s = D0['D.study'][skey(o, s)]
    exp_study = z3.If(skey(o, s) == n, some(ST(), ms(val(ST(), old_s), smd.n, smd.arr)), old_s)
    cnt, arr = z3.IntVal(0), M.to_symlist(None, [], UMU).arr      # the engine's empty list of updates
    for u in tmd:
        hit = M.str2int(E.to_z3(u.get('trial_id'))) == t
        arr = z3.If(hit, z3.Store(arr, cnt, u.pack()), arr)
        cnt = z3.If(hit, cnt + 1, cnt)
    old_t = D0['D.trial'][tkey(o, s, t)]
    exp_trial = z3.If(z3.And(skey(o, s) == n, cnt > 0), some(T(), mt(val(T(), old_t), cnt, arr)), old_t)
    return exp_study, exp_trial


# ------------------------------------------------------------------------------------------ discharge (E-matching first)
_engine_discharge = E.discharge
# the most expensive proof of this check needs about 2.5e6 resource units (list_suggestion_operations.order); all others < 2e5
RLIMIT_EMATCH, RLIMIT_MBQI, SAFETY_MS = 9000000, 4000000, 120000


def discharge(run, formula, npc=None, nax=None, timeout_ms=10000, extra=()):
    """pc & axioms |= formula.  Every proof of this check goes through by E-matching; model-based quantifier instantiation
    only matters for *refuting* an obligation and z3 does not honour its timeout there.  So: first without MBQI; an
    obligation that is literally `False` (an outcome / identity clause decided on the path: the question is whether the
    path is feasible) stays `unknown` and is handed to the bounded native comparison; anything else falls back to the
    engine's discharge."""
    t0 = time.time()
    s = z3.Solver()
    s.set('timeout', SAFETY_MS)          # budgets are resource limits (load independent); the timeout is only a safety net
    s.set('rlimit', RLIMIT_EMATCH)
    s.set('smt.mbqi', False)
    pcs = run.pc if npc is None else run.pc[:npc]
    axs = run.axioms if nax is None else run.axioms[:nax]
    for c in list(pcs) + list(axs) + list(extra):
        s.add(c)
    lits = pm.all_str_lits()
    if len(lits) > 1:
        s.add(z3.Distinct(*lits))
    f = formula if not isinstance(formula, bool) else z3.BoolVal(formula)
    s.add(z3.Not(f))
    r = s.check()
    if r == z3.unsat:
        return 'unsat', None, time.time() - t0
    if z3.is_false(z3.simplify(f)):
        return 'unknown', 'the path of this decided clause is not refuted (E-matching saturated)', time.time() - t0
    # second attempt with model-based instantiation under a resource limit (z3 honours rlimit, not its timeout, in MBQI)
    s2 = z3.Solver()
    s2.set('timeout', SAFETY_MS)
    s2.set('rlimit', RLIMIT_MBQI)
    for c in list(pcs) + list(axs) + list(extra):
        s2.add(c)
    if len(lits) > 1:
        s2.add(z3.Distinct(*lits))
    s2.add(z3.Not(f))
    r2 = s2.check()
    if r2 == z3.unsat:
        return 'unsat', None, time.time() - t0
    if r2 == z3.sat:
        return 'sat', s2.model(), time.time() - t0
    return 'unknown', s2.reason_unknown(), time.time() - t0


E.discharge = discharge


def quick_refutable(run, rlimit=1500000):
    """are the hypotheses of the path refuted by E-matching within a small resource budget?  (vacuity guard)"""
    s = z3.Solver()
    s.set('timeout', SAFETY_MS)
    s.set('rlimit', rlimit)
    s.set('smt.mbqi', False)
    for c in list(run.pc) + list(run.axioms):
        s.add(c)
    lits = pm.all_str_lits()
    if len(lits) > 1:
        s.add(z3.Distinct(*lits))
    return s.check() == z3.unsat


# ------------------------------------------------------------------------------------------ recorded findings
UPSERT = ('RAM %s inserts the operation when it does not exist but its container does, instead of raising NotFoundError '
          '(datastore.py: "Raises NotFoundError if ... op is nonexistent"; SQL raises)')


def known_for(method):
    """known = {obligation: (what, witness class)} for verify_function: the residual obligation must still be proved."""
    if method == 'update_suggestion_operation':
        def cls(p):
            n, D0 = p.value.key, p.value.D0
            o, s, c = Name.o3(n), Name.s3(n), Name.c3(n)
            return z3.And(Name.is_sop(n), is_some(ST(), D0['D.study'][skey(o, s)]), is_some(OP(), D0['D.sop'][okey(o, s, c, z3.IntVal(1))]),
                          z3.Not(is_some(OP(), D0['D.sop'][n])))
        return {'C07.ram.update_suggestion_operation.error_class': (UPSERT % 'update_suggestion_operation', cls)}
    if method == 'update_early_stopping_operation':
        def cls(p):
            n, D0 = p.value.key, p.value.D0
            return z3.And(Name.is_eop(n), is_some(ST(), D0['D.study'][skey(Name.o4(n), Name.s4(n))]), z3.Not(is_some(EO(), D0['D.eop'][n])))
        return {'C07.ram.update_early_stopping_operation.error_class': (UPSERT % 'update_early_stopping_operation', cls)}
    return None


def describe_path(name, p, model):
    r = p.value
    d = lambda o: ('raise ' + E.class_name(o[1].cls)) if o[0] == 'raise' else ('return ' + type(o[1]).__name__)
    rep = {'method': r.method, 'contract_outcome': d(r.contract), 'implementation_outcome': d(r.impl),
           'store_entries_touched': [(x.name, [(str(e.key), e.present, e.origin) for e in x.entries]) for x in
                                     [v for v in store_objects(r.st).values() if isinstance(v, LZ.LazyDict)]][:12],
           'shared_with_store': getattr(r, 'shared_result', None), 'argument_shared_with_store': getattr(r, 'shared_arg', None),
           'reachable_twice': getattr(r, 'dup', None), 'unlocked_accesses': getattr(r, 'unlocked', None)}
    return rep, None


# ------------------------------------------------------------------------------------------ running one method (child)
class Recorder:
    """stands in for report.Check inside a worker process: keeps what verify_function records as plain data."""

    def __init__(self):
        self.recs, self.assumptions = [], []

    def assume(self, text):
        self.assumptions.append(text)

    def obligation(self, name, function, backend, result, time_s=0.0, detail=None, model=None, replay=None, reproduced=None, finding=None):
        self.recs.append(dict(name=name, function=function, backend=backend, result=result, time_s=time_s,
                              detail=json.loads(json.dumps(detail, default=str)) if detail is not None else None,
                              model=model if (model is None or isinstance(model, str)) else repr(model),
                              replay=json.loads(json.dumps(replay, default=str)) if replay is not None else None,
                              reproduced=reproduced, finding=finding))


def verify_method(job):
    method, variant, timeout_ms = job[:3]
    open_findings = job[3] if len(job) > 3 else ()
    rec = Recorder()
    t0 = time.time()
    try:
        fr = verify.verify_function(rec, '%s.%s' % (CLS, method), make_entry(method, variant), post, timeout_ms=timeout_ms,
                                    known={k: v for k, v in (known_for(method) or {}).items() if k in open_findings} or None,
                                    on_violation=describe_path, workers=1, path_timeout_ms=2000)
        paths = len(fr.paths)
        # vacuity guard: the hypotheses (Inv(D0) axioms, dict model, contract case) of the success path must not be refutable
        ok = None
        for p in E.explore(make_entry(method, variant)):
            if p.kind == 'return' and p.value.contract[0] == 'return' and p.value.impl[0] == 'return':
                ok = quick_refutable(p.run) is False
                if ok:
                    break
        if not ok:
            rec.obligation('C07.ram.%s.vacuity' % method, '%s.%s' % (CLS, method), 'checker', report.ERROR, 0.0,
                           detail='no path on which both the contract and the implementation return has consistent hypotheses'
                           if ok is False else 'no path on which both the contract and the implementation return')
    except Exception as e:    # a crash of the checker is an error, never a verdict
        import traceback
        rec.obligation('C07.ram.%s.checker' % method, '%s.%s' % (CLS, method), 'checker', report.ERROR, 0.0,
                       detail='%r\n%s' % (e, traceback.format_exc()[-1500:]))
        paths = 0
    return method, variant, rec.recs, rec.assumptions, paths, time.time() - t0


def lock_lexical(fn):
    """line numbers of accesses to self._owners outside `with self._lock` (AST; cf. C04 datastore.atomic)."""
    bad = []

    def visit(node, locked):
        if isinstance(node, ast.With):
            lk = locked or any(ast.unparse(i.context_expr) == 'self._lock' for i in node.items)
            for i in node.items:
                visit(i.context_expr, locked)
            for b in node.body:
                visit(b, lk)
            return
        if isinstance(node, ast.Attribute) and isinstance(node.value, ast.Name) and node.value.id == 'self' and node.attr == '_owners' and not locked:
            bad.append(node.lineno)
        for c in ast.iter_child_nodes(node):
            visit(c, locked)
    for st in fn.body:
        visit(st, False)
    return bad


# ------------------------------------------------------------------------------------------ SQL filters (AST)
KEY_COLUMNS = {'owner_name', 'study_name', 'trial_name', 'operation_name', 'owner_id', 'study_id', 'client_id', 'trial_id', 'operation_number'}
PATTERN_CALLS = {'startswith', 'endswith', 'istartswith', 'iendswith', 'like', 'ilike', 'notlike', 'not_like', 'notilike', 'not_ilike',
                 'contains', 'icontains', 'match', 'regexp_match', 'regexp_replace', 'glob', 'op', 'bool_op', 'between', 'concat',
                 'collate', 'text', 'literal_column'}
OP_TO_METHOD = {'create_sop_next': 'create_suggestion_operation', 'create_sop': 'create_suggestion_operation', 'get_sop': 'get_suggestion_operation',
                'update_sop': 'update_suggestion_operation', 'list_sops': 'list_suggestion_operations', 'max_sop': 'max_suggestion_operation_number',
                'create_eop': 'create_early_stopping_operation', 'get_eop': 'get_early_stopping_operation',
                'update_eop': 'update_early_stopping_operation'}


def _column_of(e):
    """'<col>' if e is `self._<x>_table.c.<col>` (or `<table>.c.<col>`), else None."""
    if isinstance(e, ast.Attribute) and isinstance(e.value, ast.Attribute) and e.value.attr in ('c', 'columns'):
        return e.attr
    return None


def _plain_value(e):
    """a value that is not a pattern assembled from a resource name: no string building, no pattern call."""
    for n in ast.walk(e):
        if isinstance(n, (ast.JoinedStr, ast.BinOp)):
            return False
        if isinstance(n, ast.Call) and isinstance(n.func, ast.Attribute) and n.func.attr in (PATTERN_CALLS | {'format', 'join', 'replace'}):
            return False
    return True


def _key_equality(e):
    """None if e is a conjunction of `key column == value` (or `key column IN values`), else a description of what it is."""
    if isinstance(e, ast.Compare) and len(e.ops) == 1 and isinstance(e.ops[0], ast.Eq):
        col = _column_of(e.left)
        if col is None and _column_of(e.comparators[0]) is not None:
            col, val = _column_of(e.comparators[0]), e.left
        else:
            val = e.comparators[0]
        if col in KEY_COLUMNS and _plain_value(val):
            return None
        return 'comparison `%s` is not `key column == plain value`' % ast.unparse(e)
    if isinstance(e, ast.Call) and isinstance(e.func, ast.Attribute) and e.func.attr == 'in_' and _column_of(e.func.value) in KEY_COLUMNS \
            and all(_plain_value(a) for a in e.args):
        return None
    if isinstance(e, ast.Call) and isinstance(e.func, ast.Attribute) and e.func.attr == 'and_':
        bad = [b for b in (_key_equality(a) for a in e.args) if b]
        return bad[0] if bad else None
    if isinstance(e, ast.BoolOp) and isinstance(e.op, ast.And):
        bad = [b for b in (_key_equality(a) for a in e.values) if b]
        return bad[0] if bad else None
    return 'filter `%s` is not a conjunction of equalities on key columns' % ast.unparse(e)[:160]


def where_shape(fn):
    """(number of filters, [what is wrong]) for one method of SQLDataStore."""
    n, bad = 0, []
    for node in ast.walk(fn):
        if not (isinstance(node, ast.Call) and isinstance(node.func, ast.Attribute)):
            continue
        a = node.func.attr
        if a in ('where', 'filter', 'having', 'filter_by'):
            n += 1
            if a == 'filter_by' or node.keywords:
                bad.append('line %d: keyword filter `%s`' % (node.lineno, ast.unparse(node)[:120]))
            for arg in node.args:
                b = _key_equality(arg)
                if b:
                    bad.append('line %d: %s' % (node.lineno, b))
        elif a in PATTERN_CALLS and (any(_column_of(x) for x in ast.walk(node.func.value)) or a in ('text', 'literal_column')):
            msg = 'line %d: pattern / raw-SQL operator `%s`' % (node.lineno, ast.unparse(node)[:120])
            if not any(msg.split(': ', 1)[1][:40] in b for b in bad):
                bad.append(msg)
    return n, bad


def check_sql_filters(chk, merged, used):
    mod = ModuleInfo.get(SQL)
    cls = mod.classes.get('SQLDataStore')
    if cls is None:
        chk.error('C07.sql.extract', 'class SQLDataStore not found')
        return
    for m, fn in cls.methods.items():
        if m.startswith('__'):
            continue
        t0 = time.time()
        n, bad = where_shape(fn)
        name = 'C07.sql.%s.where_is_key_equality' % m
        if not bad:
            chk.obligation(name, 'SQLDataStore.' + m, 'frame', report.PROVED, time.time() - t0, detail={'filters': n})
            continue
        # outside the shape: the relational meaning is external (LIKE wildcards, case folding, collation, ...): decided only
        # by a natively reproduced divergence of the SQL backends from the contract
        wit = None
        for d in (merged['unexplained'] if merged else []):
            if not d['backend'].startswith('sql'):
                continue
            calls = {OP_TO_METHOD.get(op[0], op[1] if op[0] == 'raw' else op[0]) for op in d['witness']['sequence']}
            if m in calls or d['method'] == m:
                wit = d
                break
        if wit is not None:
            used.add(wit['signature'])
            chk.obligation(name, 'SQLDataStore.' + m, 'frame+native-replay', report.VIOLATED, time.time() - t0, detail={'filters': n, 'outside_shape': bad},
                           model='a filter of SQLDataStore.%s is not a conjunction of equalities on key columns: %s; the SQL backend diverges from '
                                 'the contract / from RAM on a sequence that calls it' % (m, '; '.join(bad)),
                           replay=replay_of(wit), reproduced=True)
        else:
            chk.obligation(name, 'SQLDataStore.' + m, 'frame', report.UNDECIDED, time.time() - t0,
                           detail={'filters': n, 'outside_shape': bad,
                                   'reason': 'the meaning of this filter is decided by SQLite (external); no divergence was reproduced natively'})


# ------------------------------------------------------------------------------------------ bounded stand-in (native)
HERE = os.path.dirname(os.path.dirname(os.path.abspath(__file__)))
REPLAY = os.path.join(HERE, 'replay', 'c07_replay.py')
F10 = ('SQL delete_study keeps the suggestion / early-stopping operation rows of the study (and the SQL operation queries never '
       'look at the studies table): after delete + re-create the next suggestion operation is .../c1/2 on SQL and .../c1/1 on RAM, '
       'and the operations of the deleted study stay readable')
DEV_TEXT = {'sql_delete_keeps_ops': F10, 'ram_update_op_upserts': UPSERT % 'update_suggestion_operation / update_early_stopping_operation'}
DEV_OBLIGATION = {'sql_delete_keeps_ops': 'C07.bounded.sql.delete_study_removes_operations',
                  'ram_update_op_upserts': 'C07.bounded.ram.update_operation_missing_raises'}


def start_native(payload):
    return subprocess.Popen(['/venv/bin/python', REPLAY, 'explore', json.dumps(payload)], stdout=subprocess.PIPE, stderr=subprocess.PIPE, text=True)


def finish_native(proc, timeout):
    try:
        out, err = proc.communicate(timeout=timeout)
    except subprocess.TimeoutExpired:
        proc.kill()
        return None, 'native exploration did not finish within %ss' % timeout
    lines = [l for l in out.splitlines() if l.startswith('{')]
    if proc.returncode != 0 or not lines:
        return None, 'native exploration failed (exit %s): %s' % (proc.returncode, (err or out)[-1500:])
    return json.loads(lines[-1]), None


def native_witness(native, method, clause):
    """an unexplained divergence of the real RAM datastore from the contract that reproduces obligation `clause` of `method`."""
    if native is None:
        return None
    for d in native['unexplained']:
        w = d['witness']
        if d['backend'] != 'ram':
            continue
        if clause.startswith('by_value.'):
            if d['kind'] == clause and d['method'] == method:
                return d
            continue
        if clause in ('lock', 'tree_ownership') or d['kind'].startswith('by_value.'):
            continue
        if d['method'] == method or (d['kind'] == 'contents' and method in w.get('mutators', [])):
            return d
    return None


def same_defect(native, d):
    """signatures of the divergences that are other faces of the witness d (same backend, same kind of symptom)."""
    out = {d['signature']}
    for x in native['unexplained']:
        if x['backend'] != d['backend']:
            continue
        if d['kind'].startswith('by_value.') and x['kind'] == d['kind'] and x['method'] in (d['method'], 'not-located'):
            out.add(x['signature'])
        if not d['kind'].startswith('by_value.') and not x['kind'].startswith('by_value.') and \
                (x['method'] == d['method'] or d['method'] in x['witness'].get('mutators', []) or x['method'] in d['witness'].get('mutators', [])):
            out.add(x['signature'])
    return out


def replay_of(d):
    w = d['witness']
    return {'driver': 'replay/c07_replay.py run', 'sequences': [w['sequence']], 'backend': d['backend'], 'kind': d['kind'],
            'diverging_step': w.get('op') or w.get('read'), 'contract_says': w['expected'], 'real_code_says': w['observed'],
            'leaking_call': w.get('leaking_call'), 'runs_with_this_signature': d['count'],
            'calls_before_the_divergence': [op[1] if op[0] == 'raw' else op[0] for op in w['sequence'][:w.get('step', 0)]]}


# ------------------------------------------------------------------------------------------ main
def main(tier):
    import multiprocessing
    quick = tier == 'quick'
    chk = report.Check('C07', tier, level='proof',
                       technique='refinement of the abstract DataStore contract (servicer_model.ds_*) by the real NestedDictRAMDataStore '
                                 'methods, executed symbolically on a lazily materialised store Rep^-1(D0); SQL: run-time contract '
                                 'checking on enumerated operation sequences (bounded stand-in)')
    mod = ModuleInfo.get(RAM)
    if CLS not in mod.classes:
        chk.error('C07.extract', 'class %s not found in %s' % (CLS, RAM))
        return chk.finish(min_obligations=200)
    for m in METHODS:
        chk.function(RAM, '%s.%s' % (CLS, m))
        chk.function(SQL, 'SQLDataStore.%s' % m, role='bounded stand-in (run-time contract checking)')
    for a in ASSUMPTIONS:
        chk.assume(a)
    chk.trust('pyvc VC generator + pyvc/lazystore.py (dict model)')
    chk.trust('z3 5.1.0')
    chk.trust('metadata_util.merge_study_metadata / merge_trial_metadata are named by the spec functions merge_study_md / merge_trial_md '
              '(properties proved on the real functions in C10)')
    chk.trust('SQLAlchemy / SQLite (external): only exercised by the bounded stand-in')

    # only findings that are still `open` in known_findings.d may explain a failed obligation / a divergence
    open_findings = tuple(f.get('obligation') for f in chk.findings if f.get('status', 'open') == 'open')
    devs = [d for d, o in DEV_OBLIGATION.items() if o in open_findings]
    # quick: every state reachable by <= 3 state-changing calls x every call (a call that leaves the contract state unchanged
    # is not extended); thorough: every sequence of length <= 4
    native_proc = start_native({'maxlen': 4, 'alphabet': 'quick', 'workers': 8 if quick else 16, 'deviations': devs,
                                'file_maxlen': 3 if quick else 4, 'probe_reads_maxlen': 3, 'prune_noops': quick})
    native2_proc = None if quick else start_native({'maxlen': 2, 'alphabet': 'thorough', 'workers': 4, 'targeted': False, 'deviations': devs})

    # ---- Part 1: the 20 RAM methods
    tmo = 6000 if quick else 30000
    jobs = [(m, '0', tmo, open_findings) for m in METHODS] + [('update_metadata', v, tmo, open_findings) for v in (['1'] if quick else ['1', '2'])]
    with multiprocessing.get_context('fork').Pool(min(12, len(jobs))) as pool:
        results = pool.map(verify_method, jobs, chunksize=1)
    native, nerr = finish_native(native_proc, 240 if quick else 3000)
    native2, nerr2 = (None, None) if native2_proc is None else finish_native(native2_proc, 3000)
    for nat, err in ((native, nerr), (native2, nerr2)):
        if err:
            chk.error('C07.bounded.native_exploration', err)
    natives = [n for n in (native, native2) if n is not None]
    merged = None
    if natives:
        merged = {'unexplained': [d for n in natives for d in n['unexplained']], 'divergences': [d for n in natives for d in n['divergences']],
                  'outside_precondition': [x for n in natives for x in n['outside_precondition']]}
    used = set()
    bounded_md = []
    for method, variant, recs, assumptions, paths, wall in results:
        for a in assumptions:
            chk.assume(a)
        for r in recs:
            name = r['name']
            clause = '.'.join(name.split('.')[3:])
            result, backend, replay, reproduced, model = r['result'], r['backend'], r['replay'], r['reproduced'], r['model']
            if result in (report.UNDECIDED, report.VIOLATED) and not reproduced:
                d = native_witness(merged, method, clause)
                if d is not None:
                    used |= same_defect(merged, d)
                    result, backend, reproduced = report.VIOLATED, backend + '+native-replay', True
                    replay = dict(replay or {}, **replay_of(d))
                    model = (model or '') + '\nnot proved on a path of the real method; the divergence from the contract is reproduced on the real ' \
                                            'NestedDictRAMDataStore by the sequence in this file'
            if variant != '0':
                bounded_md.append((variant, name, result))
                if result != report.VIOLATED:
                    continue
                name = '%s[trial_metadata of length %s]' % (name, variant)
            chk.obligation(name, r['function'], backend, result, r['time_s'], detail=r['detail'], model=model, replay=replay,
                           reproduced=reproduced, finding=r['finding'])
    for v in sorted({v for v, _, _ in bounded_md}):
        rs = [res for vv, _, res in bounded_md if vv == v]
        chk.bounded_standin('C07.ram.update_metadata with %s trial-metadata update(s)' % v,
                            'concrete list spine of length %s (symbolic ids / keys / values, symbolic study_metadata of any length)' % v,
                            'all %d obligations proved' % len(rs) if all(x in (report.PROVED, report.KNOWN) for x in rs)
                            else 'NOT all proved: %s' % sorted({x for x in rs}),
                            detail='the loops of update_metadata over trial_metadata are unrolled; all-or-nothing for every length: C10.ram.update_metadata.*')
    # lexical lock discipline (decidable on the AST)
    for m in METHODS:
        fn = mod.classes[CLS].methods.get(m)
        if fn is None:
            continue
        bad = lock_lexical(fn)
        chk.obligation('C07.ram.%s.lock.lexical' % m, '%s.%s' % (CLS, m), 'frame', report.VIOLATED if bad else report.PROVED, 0.0,
                       detail={'unlocked_accesses_at_lines': bad} if bad else None,
                       model='self._owners is accessed outside `with self._lock` at lines %s of %s' % (bad, mod.path) if bad else None)

    # lemma C07.equiv (closed formula): two refinements of one deterministic contract agree on every history
    t0 = time.time()
    Hs, Os = z3.DeclareSort('History'), z3.DeclareSort('Observation')
    spec, i1, i2 = z3.Function('contract', Hs, Os), z3.Function('backend1', Hs, Os), z3.Function('backend2', Hs, Os)
    h = z3.Const('h', Hs)
    sl = z3.Solver()
    sl.set('timeout', 5000)
    sl.add(z3.ForAll([h], i1(h) == spec(h)), z3.ForAll([h], i2(h) == spec(h)), z3.Not(z3.ForAll([h], i1(h) == i2(h))))
    rl = sl.check()
    chk.obligation('C07.equiv', '-', 'z3', report.PROVED if rl == z3.unsat else report.UNDECIDED, time.time() - t0,
                   detail='two backends that refine the same deterministic contract produce the same observations on every history '
                          '(the contract is deterministic except for the error class of a malformed name)')

    # ---- Part 2: bounded comparison RAM / SQL(:memory:) / SQL(file) against the contract
    check_sql_filters(chk, merged, used)
    if merged is not None:
        bound = ('' if not quick else '[quick: sequences are extended only after calls that change the contract state] ') + \
                'all sequences of length <= %d over %d operations (2 studies x 3 trials x 2 clients, owner without studies, malformed and ' \
                'non-canonical names, metadata updates naming missing trials) + %d targeted scenarios (delete + re-create, ...): %d sequences' \
                % (native['maxlen'] if native else 0, native['alphabet'] if native else 0, native['targeted'] if native else 0,
                   sum(n['sequences'] for n in natives))
        for b in ('ram', 'sql_mem', 'sql_file'):
            ds = [d for d in merged['divergences'] if d['backend'] == b]
            res = 'agrees with the contract on every sequence' if not ds else \
                '%d diverging runs: %s' % (sum(d['count'] for d in ds), sorted({d['explained_by'] or 'UNEXPLAINED' for d in ds}))
            chk.bounded_standin('C07.bounded.contract_around.%s' % b, bound, res)
        chk.bounded_standin('C07.bounded.ram_vs_sql', bound,
                            'RAM, SQL(:memory:) and SQL(file) give the same responses / error classes / contents except where one of them '
                            'diverges from the contract (listed above)')
        for dev in ('sql_delete_keeps_ops', 'ram_update_op_upserts'):
            ds = [d for d in merged['divergences'] if d['explained_by'] == dev]
            if ds:
                d = sorted(ds, key=lambda d: -len(d['witness']['sequence']))[0] if dev == 'sql_delete_keeps_ops' else ds[0]
                chk.obligation(DEV_OBLIGATION[dev], 'SQLDataStore.delete_study' if dev.startswith('sql') else CLS + '.update_*_operation',
                               'native-replay', report.KNOWN, 0.0, detail={'runs': sum(x['count'] for x in ds), 'witness': replay_of(d)},
                               finding=DEV_TEXT[dev])
        for dev in ('sql_delete_keeps_ops', 'ram_update_op_upserts'):
            if dev in devs and not any(d['explained_by'] == dev for d in merged['divergences']):
                chk.note('recorded finding not reproduced any more (stale entry in known_findings.d/C07.json, a note only): %s.' % DEV_TEXT[dev][:120])
        for d in merged['unexplained']:
            if d['signature'] in used:
                continue
            nm = 'C07.bounded.%s.%s.%s' % (d['backend'], d['method'], d['kind'])
            chk.obligation(nm, ('SQLDataStore.' if d['backend'].startswith('sql') else CLS + '.') + str(d['method']), 'native-replay',
                           report.VIOLATED, 0.0, detail={'runs': d['count']},
                           model='the real %s datastore diverges from the abstract contract (and this is not explained by a recorded finding): '
                                 'contract %s, real code %s' % (d['backend'], d['witness']['expected'], d['witness']['observed']),
                           replay=replay_of(d), reproduced=True)
        for x in merged['outside_precondition'][:12]:
            chk.note('outside the contract precondition (%s): %s -> %s.' % (x['why'], x['op'], x['outcomes']))
    return chk.finish(min_obligations=200)
