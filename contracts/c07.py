"""C07 -- the RAM datastore refines the abstract DataStore contract; SQL is compared with it by a bounded stand-in.

Part 1 (deductive).  For each of the 20 API methods of `NestedDictRAMDataStore` the REAL method body is executed by the
pyvc engine on a *symbolic store*: `self._owners` is a `pyvc.lazystore.LazyDict` whose initial contents are the image of
a symbolic abstract view D0 = {study, trial, sop, eop : Name -> Option<Msg>, seq, next, owner} under the representation
relation Rep (owner -> OwnerNode.studies[study_id] -> StudyNode{study_proto, trial_protos[int], early_stopping_operations
[operation_id], clients[client].suggestion_operations[operation_id]}), materialised on demand at the keys the path touches.
The abstract contract is *the same code the servicer proofs assume* (`contracts.servicer_model.ds_*`, DESIGN Appendix A):
it is evaluated on D0 first (its `requires` become assumptions, its postcondition facts about a fresh result are captured
and re-stated about the implementation's result), then the real method runs, then

    result / error_class / effect / frame / error_leaves_data_unchanged / order / by_value.* / lock / tree_ownership

are generated per path and discharged (z3; identity clauses are decided on the python object graph of the engine).

Part 2 (bounded stand-in, never counted): `replay/c07_replay.py` evaluates an executable copy of the contract at run time
around the real RAM datastore and the real SQLDataStore (sqlite :memory: and a sqlite file under /verif/out) on all
operation sequences up to a bound, and compares responses / error classes / contents.
"""
import ast
import json
import os
import subprocess
import sys
import time

import z3

from pyvc import engine as E, models as M, protomodel as pm, report, verify, attrs_model  # noqa: F401 (attrs_model registers hooks)
from pyvc import lazystore as LZ
from pyvc.engine import Obj, ExcObj, PyRaise, Builtin, Unsupported
from pyvc.protomodel import Msg, SymList, Str
from pyvc.source import ModuleInfo
from contracts import servicer_model as S
from contracts.servicer_model import Name, acc, is_some, some, none, val, parse, mkname

RAM = 'vizier._src.service.ram_datastore'
SQL = 'vizier._src.service.sql_datastore'
RES = S.RES
CLS = 'NestedDictRAMDataStore'
T, ST, OP, EO = S.S_TRIAL, S.S_STUDY, S.S_OP, S.S_EOP
I = z3.IntSort()

METHODS = ['create_study', 'load_study', 'update_study', 'delete_study', 'list_studies',
           'create_trial', 'get_trial', 'update_trial', 'list_trials', 'delete_trial', 'max_trial_id',
           'create_suggestion_operation', 'get_suggestion_operation', 'update_suggestion_operation',
           'list_suggestion_operations', 'max_suggestion_operation_number',
           'create_early_stopping_operation', 'get_early_stopping_operation', 'update_early_stopping_operation',
           'update_metadata']

# ------------------------------------------------------------------------------------------ ghosts of the initial view
OWN0 = z3.Const('D0_owner', z3.ArraySort(Str, z3.BoolSort()))        # Appendix A: D.owner
NTRIALS = z3.Function('c07_ntrials', Str, Str, I)                     # |{t : (o,s,t) in dom D0.trial}|
SOME_TRIAL = z3.Function('c07_some_trial', Str, Str, I)              # a witness when ntrials > 0
OPCOUNT = z3.Function('c07_opcount', Str, Str, Str, I)               # operation numbers of (o,s,c) are 1..opcount
G = {'o': z3.Const('g_o', Str), 's': z3.Const('g_s', Str), 'c': z3.Const('g_c', Str), 't': z3.Int('g_t'), 'n': z3.Int('g_n')}

ASSUMPTIONS = [
    'canonical resource names (DESIGN 4.3): parse/mkname are mutually inverse on well-formed names; the regexes and f-strings of '
    'resources.py are replaced by this algebra (servicer_model); f-strings evaluated inside resources.py (operation_id) are '
    'injective in their components',
    'Inv(D0), the invariant of the abstract view maintained by the servicer (C01/C02): a trial / operation exists only in an '
    'existing study; an existing study has its owner registered; stored messages carry the name of their key',
    'Inv4(D0) (Appendix A): the suggestion-operation numbers of one (study, client) are 1..k without gaps and were created in '
    'increasing order (the servicer allocates max+1); RAM answers max_suggestion_operation_number with len(ops)',
    'creation stamps D.seq are distinct for distinct present keys and smaller than D.next (maintained by the contract itself)',
    'CPython dict semantics as stated in pyvc/lazystore.py (insertion order, len = number of keys, |{1..k}| = k)',
    'copy.deepcopy of a protobuf message / list of messages yields field-wise equal fresh objects sharing nothing with the argument',
    'create_trial / create_suggestion_operation / create_early_stopping_operation are called on an existing study (contract '
    '`requires`; the real RAM code raises a raw KeyError otherwise -- outside the contract, not a violation)',
    'nondeterminism of the contract is resolved angelically (refinement): a malformed name may raise ValueError or NotFoundError; '
    'list_studies: the owner is registered iff a study of that owner was ever created',
]


def skey(o, s):
    return Name.study(o, s)


def tkey(o, s, t):
    return Name.trial(o, s, t)


def okey(o, s, c, n):
    return Name.sop(o, s, c, n)


def ekey(o, s, t):
    return Name.eop(o, s, t)


def inv_axioms(D0):
    """Inv(D0) as quantified facts (used only when obligations are discharged)."""
    o, s, c = z3.Const('o!iv', Str), z3.Const('s!iv', Str), z3.Const('c!iv', Str)
    t, n, m = z3.Int('t!iv'), z3.Int('n!iv'), z3.Int('m!iv')
    stu = lambda o_, s_: is_some(ST(), D0['D.study'][skey(o_, s_)])
    ax = [
        z3.ForAll([o, s, t], z3.Implies(is_some(T(), D0['D.trial'][tkey(o, s, t)]), stu(o, s))),
        z3.ForAll([o, s, t], z3.Implies(is_some(EO(), D0['D.eop'][ekey(o, s, t)]), stu(o, s))),
        z3.ForAll([o, s, c, n], z3.Implies(is_some(OP(), D0['D.sop'][okey(o, s, c, n)]), stu(o, s))),
        z3.ForAll([o, s], z3.Implies(stu(o, s), OWN0[o])),
        z3.ForAll([o, s, c, n], is_some(OP(), D0['D.sop'][okey(o, s, c, n)]) == z3.And(n >= 1, n <= OPCOUNT(o, s, c))),
        z3.ForAll([o, s, c, n, m], z3.Implies(z3.And(n >= 1, n < m, m <= OPCOUNT(o, s, c)),
                                              D0['D.seq'][okey(o, s, c, n)] < D0['D.seq'][okey(o, s, c, m)])),
        z3.ForAll([o, s, t], z3.Implies(is_some(T(), D0['D.trial'][tkey(o, s, t)]), NTRIALS(o, s) >= 1)),
        z3.ForAll([o, s], z3.And(NTRIALS(o, s) >= 0,
                                 z3.Implies(NTRIALS(o, s) >= 1, is_some(T(), D0['D.trial'][tkey(o, s, SOME_TRIAL(o, s))])))),
        z3.ForAll([o, s], z3.Implies(stu(o, s), D0['D.seq'][skey(o, s)] < D0['D.next'])),
        z3.ForAll([o, s, t], z3.Implies(is_some(T(), D0['D.trial'][tkey(o, s, t)]), D0['D.seq'][tkey(o, s, t)] < D0['D.next'])),
        z3.ForAll([o, s, c, n], z3.Implies(is_some(OP(), D0['D.sop'][okey(o, s, c, n)]), D0['D.seq'][okey(o, s, c, n)] < D0['D.next'])),
    ]
    return ax


def touch_study(it, D0, o, s):
    run = it.run
    key = ('c07.study', o.get_id(), s.get_id())
    if key in run.instantiated:
        return
    run.instantiated.add(key)
    run.assume(z3.Implies(is_some(ST(), D0['D.study'][skey(o, s)]), OWN0[o]))
    run.assume(z3.And(NTRIALS(o, s) >= 0, z3.Implies(NTRIALS(o, s) >= 1, is_some(T(), D0['D.trial'][tkey(o, s, SOME_TRIAL(o, s))]))))


def touch_trial(it, D0, o, s, t):
    touch_study(it, D0, o, s)
    it.run.assume(z3.Implies(is_some(T(), D0['D.trial'][tkey(o, s, t)]),
                             z3.And(is_some(ST(), D0['D.study'][skey(o, s)]), NTRIALS(o, s) >= 1)))


def touch_eop(it, D0, o, s, t):
    touch_study(it, D0, o, s)
    it.run.assume(z3.Implies(is_some(EO(), D0['D.eop'][ekey(o, s, t)]), is_some(ST(), D0['D.study'][skey(o, s)])))


def touch_sop(it, D0, o, s, c, n):
    touch_study(it, D0, o, s)
    run = it.run
    run.assume(OPCOUNT(o, s, c) >= 0)
    for num in (n, z3.IntVal(1)):
        run.assume(is_some(OP(), D0['D.sop'][okey(o, s, c, num)]) == z3.And(num >= 1, num <= OPCOUNT(o, s, c)))
    run.assume(z3.Implies(is_some(OP(), D0['D.sop'][okey(o, s, c, n)]), is_some(ST(), D0['D.study'][skey(o, s)])))


# ------------------------------------------------------------------------------------------ f-strings of resources.py
_INV = {}
_orig_format_string = M.format_string


def fstr_inv(decl, i, sort):
    key = (decl.name(), i)
    if key not in _INV:
        _INV[key] = z3.Function('inv_%s_%d' % (decl.name().replace('!', '_'), i), Str, sort)
    return _INV[key]


def _format_string(it, parts):
    r = _orig_format_string(it, parts)
    if z3.is_expr(r) and z3.is_app(r) and r.decl().name().startswith('fstr!') and it.stack and it.stack[-1].mod.dotted == RES:
        key = ('fstr.inj', r.get_id())
        if key not in it.run.instantiated:
            it.run.instantiated.add(key)
            for i, ch in enumerate(r.children()):
                it.run.assume(fstr_inv(r.decl(), i, ch.sort())(r) == ch)
    return r


M.format_string = _format_string


class OpId:
    """`resource.operation_id` of the real resources.py as a function of its components (evaluated once per path on
    placeholder components), with the projection onto the number component."""

    def __init__(self, it, cls_name, attrs, num_attr):
        self.ph = {a: z3.Const('ph_%s_%s' % (cls_name, a), I if a == num_attr else Str) for a in attrs}
        o = Obj(S.res_class(cls_name), dict(self.ph))
        self.term = E.to_z3(it.getattr(o, 'operation_id'))
        self.attrs, self.num_attr = attrs, num_attr
        if not (z3.is_app(self.term) and self.term.decl().name().startswith('fstr!')):
            raise Unsupported('%s.operation_id is not an f-string of its components' % cls_name)
        pos = [i for i, ch in enumerate(self.term.children()) if ch.eq(self.ph[num_attr])]
        if len(pos) != 1:
            raise Unsupported('%s.operation_id does not contain %s exactly once' % (cls_name, num_attr))
        self.num = fstr_inv(self.term.decl(), pos[0], I)

    def __call__(self, **kw):
        subs = [(self.ph[a], kw[a]) for a in self.attrs if a in kw]
        return z3.substitute(self.term, *subs)


# ------------------------------------------------------------------------------------------ the symbolic store
class Store:
    pass


def msg_term(v, sch):
    if isinstance(v, Msg) and v.schema.fq == sch.fq:
        return v.pack()
    raise Unsupported('a stored value is not a %s message: %r' % (sch.fq, v))


def node_attr(v, a):
    if not isinstance(v, Obj) or a not in v.attrs:
        raise Unsupported('a stored node has no attribute %s: %r' % (a, v))
    return v.attrs[a]


def build_store(it):
    """self of NestedDictRAMDataStore with `_owners` = Rep^-1(D0), lazily."""
    run = it.run
    D0 = run.D0
    mod = ModuleInfo.get(RAM)
    st = Store()
    st.ctx = LZ.StoreCtx(D0['D.next'])
    st.D0 = D0
    st.cls = mod.classes[CLS]
    st.sopid = OpId(it, 'SuggestionOperationResource', ['owner_id', 'study_id', 'client_id', 'operation_number'], 'operation_number')
    st.eopid = OpId(it, 'EarlyStoppingOperationResource', ['owner_id', 'study_id', 'trial_id'], 'trial_id')
    ctx = st.ctx
    ONode, SNode, CNode = mod.classes['OwnerNode'], mod.classes['StudyNode'], mod.classes['ClientNode']

    K_TRIAL = LZ.Kind(T(), lambda m: msg_term(m, T()), lambda term: Msg.from_term(T(), term))
    K_OP = LZ.Kind(OP(), lambda m: msg_term(m, OP()), lambda term: Msg.from_term(OP(), term))
    K_EOP = LZ.Kind(EO(), lambda m: msg_term(m, EO()), lambda term: Msg.from_term(EO(), term), ordered=False)
    K_STUDY = LZ.Kind(ST(), lambda node: msg_term(node_attr(node, 'study_proto'), ST()),
                      lambda term: Obj(SNode, {'study_proto': Msg.from_term(ST(), term), 'trial_protos': LZ.Poison('trial_protos of a listed node'),
                                               'early_stopping_operations': LZ.Poison('early_stopping_operations of a listed node'),
                                               'clients': LZ.Poison('clients of a listed node')}))
    K_NODE = LZ.Kind(None, None, None, ordered=False)

    def trials_bg(o, s):
        k = lambda t: tkey(o, s, t)
        return LZ.Background(
            has=lambda t: is_some(T(), D0['D.trial'][k(t)]), make=lambda it_, t: Msg.from_term(T(), val(T(), D0['D.trial'][k(t)])),
            ord=lambda t: D0['D.seq'][k(t)], vterm=lambda t: val(T(), D0['D.trial'][k(t)]), count=NTRIALS(o, s),
            lookup={'trial': lambda t: D0['D.trial'][k(t)], 'seq_trial': lambda t: D0['D.seq'][k(t)]},
            touch=lambda it_, t: touch_trial(it_, D0, o, s, t))

    def eops_bg(o, s):
        num = st.eopid.num
        wf = lambda ks: ks == st.eopid(study_id=s, trial_id=num(ks))
        return LZ.Background(
            has=lambda ks: z3.And(wf(ks), is_some(EO(), D0['D.eop'][ekey(o, s, num(ks))])),
            make=lambda it_, ks: Msg.from_term(EO(), val(EO(), D0['D.eop'][ekey(o, s, num(ks))])),
            vterm=lambda ks: val(EO(), D0['D.eop'][ekey(o, s, num(ks))]),
            lookup={'eop': lambda ks, t: D0['D.eop'][ekey(o, s, t)]},
            touch=lambda it_, ks: touch_eop(it_, D0, o, s, num(ks)))

    def sops_bg(o, s, c):
        num = st.sopid.num
        wf = lambda ks: ks == st.sopid(study_id=s, client_id=c, operation_number=num(ks))
        return LZ.Background(
            has=lambda ks: z3.And(wf(ks), is_some(OP(), D0['D.sop'][okey(o, s, c, num(ks))])),
            make=lambda it_, ks: Msg.from_term(OP(), val(OP(), D0['D.sop'][okey(o, s, c, num(ks))])),
            ord=lambda ks: D0['D.seq'][okey(o, s, c, num(ks))], vterm=lambda ks: val(OP(), D0['D.sop'][okey(o, s, c, num(ks))]),
            count=OPCOUNT(o, s, c),
            lookup={'sop': lambda ks, n: D0['D.sop'][okey(o, s, c, n)], 'seq_sop': lambda ks, n: D0['D.seq'][okey(o, s, c, n)]},
            touch=lambda it_, ks: touch_sop(it_, D0, o, s, c, num(ks)))

    def clients_bg(o, s):
        return LZ.Background(
            has=lambda c: is_some(OP(), D0['D.sop'][okey(o, s, c, z3.IntVal(1))]),
            make=lambda it_, c: Obj(CNode, {'suggestion_operations': LZ.LazyDict('suggestion_operations', Str, ctx, K_OP, sops_bg(o, s, c))}),
            lookup={'sop': lambda c, n: D0['D.sop'][okey(o, s, c, n)], 'seq_sop': lambda c, n: D0['D.seq'][okey(o, s, c, n)],
                    'client': lambda c: is_some(OP(), D0['D.sop'][okey(o, s, c, z3.IntVal(1))])},
            touch=lambda it_, c: touch_sop(it_, D0, o, s, c, z3.IntVal(1)))

    def make_study(it_, o, s):
        return Obj(SNode, {
            'study_proto': Msg.from_term(ST(), val(ST(), D0['D.study'][skey(o, s)])),
            'trial_protos': LZ.LazyDict('trial_protos', I, ctx, K_TRIAL, trials_bg(o, s)),
            'early_stopping_operations': LZ.LazyDict('early_stopping_operations', Str, ctx, K_EOP, eops_bg(o, s)),
            'clients': LZ.LazyDict('clients', Str, ctx, K_NODE, clients_bg(o, s))})

    def studies_bg(o):
        return LZ.Background(
            has=lambda s: is_some(ST(), D0['D.study'][skey(o, s)]), make=lambda it_, s: make_study(it_, o, s),
            ord=lambda s: D0['D.seq'][skey(o, s)], vterm=lambda s: val(ST(), D0['D.study'][skey(o, s)]),
            lookup={'study': lambda s: D0['D.study'][skey(o, s)], 'seq_study': lambda s: D0['D.seq'][skey(o, s)],
                    'trial': lambda s, t: D0['D.trial'][tkey(o, s, t)], 'seq_trial': lambda s, t: D0['D.seq'][tkey(o, s, t)],
                    'eop': lambda s, t: D0['D.eop'][ekey(o, s, t)],
                    'sop': lambda s, c, n: D0['D.sop'][okey(o, s, c, n)], 'seq_sop': lambda s, c, n: D0['D.seq'][okey(o, s, c, n)],
                    'client': lambda s, c: is_some(OP(), D0['D.sop'][okey(o, s, c, z3.IntVal(1))])},
            touch=lambda it_, s: touch_study(it_, D0, o, s))

    owners_bg = LZ.Background(
        has=lambda o: OWN0[o], make=lambda it_, o: Obj(ONode, {'studies': LZ.LazyDict('studies', Str, ctx, K_STUDY, studies_bg(o))}),
        lookup={'study': lambda o, s: D0['D.study'][skey(o, s)], 'seq_study': lambda o, s: D0['D.seq'][skey(o, s)],
                'trial': lambda o, s, t: D0['D.trial'][tkey(o, s, t)], 'seq_trial': lambda o, s, t: D0['D.seq'][tkey(o, s, t)],
                'eop': lambda o, s, t: D0['D.eop'][ekey(o, s, t)],
                'sop': lambda o, s, c, n: D0['D.sop'][okey(o, s, c, n)], 'seq_sop': lambda o, s, c, n: D0['D.seq'][okey(o, s, c, n)],
                'client': lambda o, s, c: is_some(OP(), D0['D.sop'][okey(o, s, c, z3.IntVal(1))])})
    st.owners = LZ.LazyDict('_owners', Str, ctx, K_NODE, owners_bg)
    st.lock = M.LockObj('_lock')
    st.self = Obj(st.cls, {'_lock': st.lock})
    st.self.c07_store = st
    return st


def _owners_property(it, obj):
    st = getattr(obj, 'c07_store', None)
    if st is None:
        raise Unsupported('NestedDictRAMDataStore._owners of an object that was not built by C07')
    st.ctx.record(it, 'self._owners', st.owners)
    return st.owners


E.PROPERTIES['%s:%s._owners' % (RAM, CLS)] = _owners_property


# ------------------------------------------------------------------------------------------ abstraction function alpha
class PEntry:
    """pseudo entry for an item of a concrete dict created by the code under contract."""

    def __init__(self, value, ord):
        self.value, self.ord, self.present = value, ord, True


def chain(st, d, k, on_entry, bgkind, subkeys, absent):
    """value of `d` at the generic key k as a z3 term (dict created lazily from D0, or a concrete dict built by the code)."""
    if isinstance(d, LZ.LazyDict):
        if d.ksort != k.sort():
            raise Unsupported('store dict %r has keys of sort %s, expected %s' % (d, d.ksort, k.sort()))
        if d.bg is not None and bgkind not in d.bg.lookup:
            raise Unsupported('store dict %r is used at a position where it cannot be (%s)' % (d, bgkind))
        return d.chain(k, on_entry, lambda k_: d.bg.lookup[bgkind](k_, *subkeys), absent)
    if isinstance(d, M.PyDict):
        r = absent
        for idx, (key, v) in enumerate(d.items_):
            kt = LZ.key_term(key)
            if kt is None or kt.sort() != k.sort():
                raise Unsupported('a dict built by the code has a key of an unexpected type: %r' % (key,))
            r = z3.If(k == kt, on_entry(PEntry(v, st.ctx.tick0 + idx)), r)
        return r
    raise Unsupported('store component is not a dict: %r' % (d,))


def _studies(st, o, s, at_study, kind, sub, absent):
    return chain(st, st.owners, o,
                 lambda eo: chain(st, node_attr(eo.value, 'studies'), s, at_study, kind, sub, absent),
                 kind, (s,) + sub, absent)


def A_owner(st, o):
    return st.owners.has_term(o)


def A_study(st, o, s):
    return _studies(st, o, s, lambda e: some(ST(), msg_term(node_attr(e.value, 'study_proto'), ST())), 'study', (), none(ST()))


def A_seq_study(st, o, s):
    return _studies(st, o, s, lambda e: e.ord if e.ord is not None else z3.IntVal(-1), 'seq_study', (), z3.IntVal(-1))


def A_trial(st, o, s, t):
    return _studies(st, o, s, lambda e: chain(st, node_attr(e.value, 'trial_protos'), t, lambda et: some(T(), msg_term(et.value, T())),
                                              'trial', (), none(T())), 'trial', (t,), none(T()))


def A_seq_trial(st, o, s, t):
    return _studies(st, o, s, lambda e: chain(st, node_attr(e.value, 'trial_protos'), t, lambda et: et.ord if et.ord is not None else z3.IntVal(-1),
                                              'seq_trial', (), z3.IntVal(-1)), 'seq_trial', (t,), z3.IntVal(-1))


def A_eop(st, o, s, t):
    ks = st.eopid(study_id=s, trial_id=t)
    return _studies(st, o, s, lambda e: chain(st, node_attr(e.value, 'early_stopping_operations'), ks,
                                              lambda ee: some(EO(), msg_term(ee.value, EO())), 'eop', (t,), none(EO())), 'eop', (t,), none(EO()))


def A_client(st, o, s, c):
    return _studies(st, o, s, lambda e: chain(st, node_attr(e.value, 'clients'), c, lambda ec: z3.BoolVal(True), 'client', (), z3.BoolVal(False)),
                    'client', (c,), z3.BoolVal(False))


def _ops(st, o, s, c, n, at_op, kind, absent):
    ks = st.sopid(study_id=s, client_id=c, operation_number=n)
    return _studies(st, o, s, lambda e: chain(st, node_attr(e.value, 'clients'), c,
                                              lambda ec: chain(st, node_attr(ec.value, 'suggestion_operations'), ks, at_op, kind, (n,), absent),
                                              kind, (n,), absent), kind, (c, n), absent)


def A_sop(st, o, s, c, n):
    return _ops(st, o, s, c, n, lambda eo: some(OP(), msg_term(eo.value, OP())), 'sop', none(OP()))


def A_seq_sop(st, o, s, c, n):
    return _ops(st, o, s, c, n, lambda eo: eo.ord if eo.ord is not None else z3.IntVal(-1), 'seq_sop', z3.IntVal(-1))


def new_concrete_entries(st):
    """number of ordered entries (studies / trials / suggestion operations) living in dicts created by the code itself."""
    n = 0

    def dict_items(d):
        if isinstance(d, M.PyDict):
            return [(True, v) for _, v in d.items_]
        if isinstance(d, LZ.LazyDict):
            return [(False, e.value) for e in d.entries if e.present]
        return []

    for _, on in dict_items(st.owners):
        for new_s, sn in dict_items(node_attr(on, 'studies')):
            n += 1 if new_s else 0
            n += sum(1 for new_t, _ in dict_items(node_attr(sn, 'trial_protos')) if new_t)
            for _, cn in dict_items(node_attr(sn, 'clients')):
                n += sum(1 for new_o, _ in dict_items(node_attr(cn, 'suggestion_operations')) if new_o)
    return n


def store_objects(st):
    """python objects the store consists of (for the identity clauses)."""
    return LZ.reach([st.owners] + list(st.ctx.alias_objs))


def tree_violations(st):
    """nodes / containers / messages reachable by two different paths from `_owners`."""
    seen, dup = {}, []

    def visit(v, path):
        if v is None or isinstance(v, (bool, int, float, str, bytes)) or z3.is_expr(v) or isinstance(v, LZ.Poison):
            return
        if id(v) in seen:
            dup.append('%s and %s' % (seen[id(v)], path))
            return
        seen[id(v)] = path
        if isinstance(v, LZ.LazyDict):
            for i, e in enumerate(e for e in v.entries if e.present):
                visit(e.value, '%s[%s]' % (path, e.key))
        elif isinstance(v, M.PyDict):
            for k, x in v.items_:
                visit(x, '%s[%s]' % (path, k))
        elif isinstance(v, Obj):
            for a, x in v.attrs.items():
                visit(x, '%s.%s' % (path, a))
        elif isinstance(v, (list, tuple)):
            for i, x in enumerate(v):
                visit(x, '%s[%d]' % (path, i))
    visit(st.owners, '_owners')
    return dup


# ------------------------------------------------------------------------------------------ evaluating the contract
POST_CALLERS = {'_fresh_list', 'max_id_of', 'add_key_fact', 'ds_list_studies', 'ds_list_trials', 'ds_list_sops', 'ds_max_sop_number'}
EITHER = 'ValueError|NotFoundError'
FLT = None


def filter_symbol():
    global FLT
    if FLT is None:
        FLT = z3.Function('c07_filter_fn', pm.msg_sort(OP()), z3.BoolSort())
    return FLT


def run_contract(it, method, args, owner_exists):
    """Evaluate servicer_model.ds_<method> on the ghost view.  Returns (outcome, captured postcondition facts, requires).
    * facts that the contract *assumes about its fresh result* are captured instead of assumed (they are obligations here);
    * `requires` obligations of the contract become assumptions;
    * the contract's nondeterministic choices are resolved angelically (see ASSUMPTIONS)."""
    run = it.run
    captured, requires = [], []
    R = type(run)

    def assume(c):
        if sys._getframe(1).f_code.co_name in POST_CALLERS:
            captured.append(('assume', c))
            return
        R.assume(run, c)

    def axiom(c):
        if sys._getframe(1).f_code.co_name in POST_CALLERS:
            captured.append(('axiom', c))
            return
        R.axiom(run, c)

    def oblige(name, formula, info=None):
        if name.startswith('datastore.') and '.requires.' in name:
            requires.append(name)
            R.assume(run, formula)
            return
        R.oblige(run, name, formula, info)

    def choose(cond):
        if z3.is_expr(cond) and z3.is_const(cond) and cond.decl().name().startswith('owner_exists!'):
            if owner_exists is None:
                raise Unsupported('the contract asks whether an owner exists in a method where C07 did not expect it')
            return R.choose(run, owner_exists)
        return R.choose(run, cond)

    old_malformed = S._malformed
    S._malformed = lambda it_: PyRaise(ExcObj(E.BuiltinClass(EITHER), {'args': ('malformed resource name',)}))
    run.assume, run.axiom, run.oblige, run.choose = assume, axiom, oblige, choose
    try:
        try:
            out = ('return', S.DS_METHODS[method](it, [None] + list(args), {}))
        except PyRaise as pr:
            out = ('raise', pr.exc)
    finally:
        S._malformed = old_malformed
        for a in ('assume', 'axiom', 'oblige', 'choose'):
            run.__dict__.pop(a, None)
        run.key_facts = []
    return out, captured, requires


# ------------------------------------------------------------------------------------------ arguments
class Rec:
    pass


def sym_msg(sch, name):
    return Msg.from_term(sch, z3.Const(name, pm.msg_sort(sch)))


def make_args(it, method, variant):
    """(impl args, contract args, info) -- the contract gets its own python objects (identity clauses look at the impl's)."""
    a = Rec()
    a.kind = None
    nm = z3.Const('a_name', Str)
    if method in ('create_study', 'update_study'):
        a.impl, a.spec = [sym_msg(ST(), 'a_study')], [sym_msg(ST(), 'a_study')]
        a.kind, a.name = 'study', acc(ST(), 'name')(z3.Const('a_study', pm.msg_sort(ST())))
    elif method in ('load_study', 'delete_study', 'list_trials', 'max_trial_id'):
        a.impl, a.spec, a.kind, a.name = [nm], [nm], 'study', nm
    elif method == 'list_studies':
        a.impl, a.spec, a.kind, a.name = [nm], [nm], 'owner', nm
    elif method in ('create_trial', 'update_trial'):
        a.impl, a.spec = [sym_msg(T(), 'a_trial')], [sym_msg(T(), 'a_trial')]
        a.kind, a.name = 'trial', acc(T(), 'name')(z3.Const('a_trial', pm.msg_sort(T())))
    elif method in ('get_trial', 'delete_trial'):
        a.impl, a.spec, a.kind, a.name = [nm], [nm], 'trial', nm
    elif method in ('create_suggestion_operation', 'update_suggestion_operation'):
        a.impl, a.spec = [sym_msg(OP(), 'a_op')], [sym_msg(OP(), 'a_op')]
        a.kind, a.name = 'sop', acc(OP(), 'name')(z3.Const('a_op', pm.msg_sort(OP())))
    elif method == 'get_suggestion_operation':
        a.impl, a.spec, a.kind, a.name = [nm], [nm], 'sop', nm
    elif method in ('create_early_stopping_operation', 'update_early_stopping_operation'):
        a.impl, a.spec = [sym_msg(EO(), 'a_eop')], [sym_msg(EO(), 'a_eop')]
        a.kind, a.name = 'eop', acc(EO(), 'name')(z3.Const('a_eop', pm.msg_sort(EO())))
    elif method == 'get_early_stopping_operation':
        a.impl, a.spec, a.kind, a.name = [nm], [nm], 'eop', nm
    elif method in ('list_suggestion_operations', 'max_suggestion_operation_number'):
        cl = z3.Const('a_client', Str)
        a.impl, a.spec, a.kind, a.name, a.client = [nm, cl], [nm, cl], 'study', nm, cl
        if method == 'list_suggestion_operations':
            f = filter_symbol()
            flt = Builtin('filter_fn', lambda it_, args, kw: f(args[0].pack())) if variant == 'filter' else None
            a.impl, a.spec = [nm, cl, flt], [nm, cl, flt]
    elif method == 'update_metadata':
        KV, UMU = S.schema('vizier.KeyValue'), S.schema('vizier.UnitMetadataUpdate')

        def kvs():
            return SymList(z3.Const('a_smd_n', I), z3.Const('a_smd', z3.ArraySort(I, pm.msg_sort(KV))), KV)
        it.run.assume(z3.Const('a_smd_n', I) >= 0)
        k = int(variant)
        a.impl = [nm, kvs(), [sym_msg(UMU, 'a_tmd%d' % i) for i in range(k)]]
        a.spec = [nm, kvs(), [sym_msg(UMU, 'a_tmd%d' % i) for i in range(k)]]
        a.kind, a.name = 'study', nm
    else:
        raise Unsupported('no argument description for method %s' % method)
    return a


def make_entry(method, variant):
    def entry(it):
        run = it.run
        S.init_view(run)
        for ax in inv_axioms(run.D0):
            run.axiom(ax)
        st = build_store(it)
        a = make_args(it, method, variant)
        n = S.parse_name(it, a.name)
        owner_exists = OWN0[Name.o0(n)] if method == 'list_studies' else None
        c_out, captured, requires = run_contract(it, method, a.spec, owner_exists)
        rec = Rec()
        rec.method, rec.variant, rec.st, rec.args, rec.key = method, variant, st, a, n
        rec.contract, rec.captured, rec.requires = c_out, captured, requires
        rec.D0, rec.D1 = run.D0, dict(run.ghost)
        if method not in st.cls.methods:
            raise Unsupported('%s.%s does not exist in the current tree' % (CLS, method))
        fv = E.FuncVal(st.cls.mod, st.cls.methods[method], st.cls)
        try:
            rec.impl = ('return', it.invoke(fv, [st.self] + list(a.impl), {}))
        except PyRaise as pr:
            rec.impl = ('raise', pr.exc)
        rec.tick = st.ctx.tick
        return rec
    return entry


# ------------------------------------------------------------------------------------------ postconditions
LIST_METHODS = ('list_studies', 'list_trials', 'list_suggestion_operations')
RESULT_CLAUSES = {
    'list_studies': ['result.len', 'result.members', 'result.complete', 'order'],
    'list_trials': ['result.len', 'result.members', 'result.complete', 'order'],
    'list_suggestion_operations': ['result.len', 'result.members', 'result.complete', 'order'],
    'max_trial_id': ['result.nonneg', 'result.upper_bound', 'result.attained'],
    'max_suggestion_operation_number': ['result.positive', 'result.exists', 'result.upper_bound', 'result.is_last'],
}
COMMON_CLAUSES = ['error_class', 'result', 'effect', 'effect.stamps', 'frame', 'error_leaves_data_unchanged', 'rep.clients',
                  'by_value.result', 'by_value.argument', 'tree_ownership', 'lock']
ELEM = {'list_studies': ST, 'list_trials': T, 'list_suggestion_operations': OP}


def clause_names(method):
    names = list(COMMON_CLAUSES) + RESULT_CLAUSES.get(method, [])
    if method == 'list_studies':
        names.append('missing_owner_has_no_study')
    return names


def B(b):
    return z3.BoolVal(bool(b))


def values_equal(a, b):
    """python-side result values -> z3 Bool (same class and field-wise equal)."""
    if a is None or b is None:
        return B(a is None and b is None)
    if isinstance(a, Msg) and isinstance(b, Msg):
        return a.pack() == b.pack() if a.schema.fq == b.schema.fq else B(False)
    if isinstance(a, Obj) and isinstance(b, Obj):
        if E.class_name(a.cls) != E.class_name(b.cls) or set(a.attrs) != set(b.attrs):
            return B(False)
        cs = [E.zbool(E.eq_values(a.attrs[k], b.attrs[k])) for k in sorted(a.attrs)]
        return z3.And(*cs) if cs else B(True)
    try:
        return E.zbool(E.eq_values(a, b))
    except Unsupported:
        return B(False)


def footprint(method, n):
    """per map: predicate over the generic key saying that the method may change it."""
    o, s, c, t, num = G['o'], G['s'], G['c'], G['t'], G['n']
    F = B(False)
    fp = {'owner': F, 'study': F, 'trial': F, 'sop': F, 'eop': F}
    if method in ('create_study', 'update_study', 'update_metadata', 'delete_study'):
        fp['study'] = skey(o, s) == n
    if method == 'create_study':
        fp['owner'] = o == Name.o1(n)
    if method in ('delete_study', 'update_metadata'):
        fp['trial'] = skey(o, s) == n
    if method == 'delete_study':
        fp['sop'] = skey(o, s) == n
        fp['eop'] = skey(o, s) == n
    if method in ('create_trial', 'update_trial', 'delete_trial'):
        fp['trial'] = tkey(o, s, t) == n
    if method in ('create_suggestion_operation', 'update_suggestion_operation'):
        fp['sop'] = okey(o, s, c, num) == n
    if method in ('create_early_stopping_operation', 'update_early_stopping_operation'):
        fp['eop'] = ekey(o, s, t) == n
    return fp


def alpha(st):
    o, s, c, t, n = G['o'], G['s'], G['c'], G['t'], G['n']
    return {'owner': A_owner(st, o), 'study': A_study(st, o, s), 'trial': A_trial(st, o, s, t), 'sop': A_sop(st, o, s, c, n),
            'eop': A_eop(st, o, s, t), 'client': A_client(st, o, s, c),
            'seq_study': A_seq_study(st, o, s), 'seq_trial': A_seq_trial(st, o, s, t), 'seq_sop': A_seq_sop(st, o, s, c, n)}


def view_at(D):
    o, s, c, t, n = G['o'], G['s'], G['c'], G['t'], G['n']
    return {'study': D['D.study'][skey(o, s)], 'trial': D['D.trial'][tkey(o, s, t)], 'sop': D['D.sop'][okey(o, s, c, n)],
            'eop': D['D.eop'][ekey(o, s, t)],
            'seq_study': D['D.seq'][skey(o, s)], 'seq_trial': D['D.seq'][tkey(o, s, t)], 'seq_sop': D['D.seq'][okey(o, s, c, n)]}


SCH = {'study': ST, 'trial': T, 'sop': OP, 'eop': EO}


def exc_ok(contract_cls, impl_exc):
    ic = E.class_name(impl_exc.cls)
    if contract_cls == EITHER:
        return ic in ('ValueError', 'NotFoundError')
    return ic == contract_cls


def post(p):
    r = p.value
    st, method, n = r.st, r.method, r.key
    P = 'C07.ram.%s.' % method
    obs = {nm: B(True) for nm in clause_names(method)}
    ck, cv = r.contract
    ik, iv = r.impl
    # ---- outcome
    if ck == 'raise' and ik == 'raise':
        obs['error_class'] = B(exc_ok(E.class_name(cv.cls), iv))
    elif ck != ik:
        obs['error_class'] = B(False)
    # ---- result
    if ck == 'return' and ik == 'return':
        if method in RESULT_CLAUSES:
            facts = [(k_, f) for (k_, f) in r.captured]
            names = RESULT_CLAUSES[method]
            if len(facts) < len(names):
                raise Unsupported('the contract of %s states %d facts about its result, expected %d' % (method, len(facts), len(names)))
            if method in LIST_METHODS:
                res = iv if isinstance(iv, SymList) else M.to_symlist(None, iv, ELEM[method]()) if isinstance(iv, list) and all(isinstance(x, Msg) for x in iv) else None
                if res is None or not isinstance(cv, SymList) or res.elem_sort() != cv.elem_sort():
                    obs['result'] = B(False)
                else:
                    for nm, (_, f) in zip(names, facts):
                        obs[nm] = z3.substitute(f, (cv.n, res.n if z3.is_expr(res.n) else z3.IntVal(res.n)), (cv.arr, res.arr))
            else:
                try:
                    rv = E.to_z3(iv)
                except Unsupported:
                    rv = None
                if rv is None or rv.sort() != I or isinstance(iv, bool):
                    obs['result'] = B(False)
                else:
                    for nm, (_, f) in zip(names, facts):
                        obs[nm] = z3.substitute(f, (cv, rv))
        else:
            obs['result'] = values_equal(cv, iv)
    if method == 'list_studies' and ck == 'raise' and E.class_name(cv.cls) == 'NotFoundError':
        ax = [f for k_, f in r.captured if k_ == 'axiom']
        obs['missing_owner_has_no_study'] = z3.And(*ax) if ax else B(False)
    # ---- state
    A, V0, V1 = alpha(st), view_at(r.D0), view_at(r.D1)
    fp = footprint(method, n)
    o = G['o']
    own1 = z3.Store(OWN0, Name.o1(n), True)[o] if (method == 'create_study' and ck == 'return') else OWN0[o]
    tick1 = r.tick + new_concrete_entries(st)
    maps = ('study', 'trial', 'sop', 'eop')
    present = {m: is_some(SCH[m](), A[m]) for m in maps}
    if ck == 'return':
        obs['effect'] = z3.And(*([A[m] == V1[m] for m in maps] + [A['owner'] == own1]))
        obs['effect.stamps'] = z3.And(*([z3.Implies(present[m], A['seq_' + m] == V1['seq_' + m]) for m in ('study', 'trial', 'sop')]
                                        + [tick1 == r.D1['D.next']]))
    obs['frame'] = z3.And(*([z3.Implies(z3.Not(fp[m]), A[m] == V0[m]) for m in maps]
                            + [z3.Implies(z3.Not(fp['owner']), A['owner'] == OWN0[o])]
                            + [z3.Implies(z3.And(z3.Not(fp[m]), present[m]), A['seq_' + m] == V0['seq_' + m]) for m in ('study', 'trial', 'sop')]))
    if ik == 'raise':
        obs['error_leaves_data_unchanged'] = z3.And(*([A[m] == V0[m] for m in maps] + [A['owner'] == OWN0[o], tick1 == r.D0['D.next']]
                                                      + [z3.Implies(present[m], A['seq_' + m] == V0['seq_' + m]) for m in ('study', 'trial', 'sop')]))
    # a client node exists iff the client has an operation (Rep for `clients`)
    witness = [z3.IntVal(1)] + ([Name.n3(n)] if r.args.kind == 'sop' else [])
    sop_at = lambda num: is_some(OP(), A_sop(st, G['o'], G['s'], G['c'], num))
    obs['rep.clients'] = z3.And(z3.Implies(A['client'], z3.Or(*[sop_at(w) for w in witness])), z3.Implies(sop_at(G['n']), A['client']))
    # ---- identity clauses (decided on the python object graph of this path)
    stored = store_objects(st)
    if ik == 'return':
        res_objs = LZ.reach([iv])
        sh = [v for i_, v in res_objs.items() if i_ in stored]
        aliased_list = isinstance(iv, SymList) and getattr(iv, 'alias_of', None) is not None
        if sh:
            obs['by_value.result'] = B(False)
        elif aliased_list:
            obs['by_value.result'] = iv.n <= 0
        r.shared_result = [repr(v) for v in sh][:4] + (['every element of the returned list is the stored object'] if aliased_list else [])
    arg_objs = LZ.reach(list(r.args.impl))
    sh = [v for i_, v in arg_objs.items() if i_ in stored]
    if sh:
        obs['by_value.argument'] = B(False)
    r.shared_arg = [repr(v) for v in sh][:4]
    dup = tree_violations(st)
    if dup:
        obs['tree_ownership'] = B(False)
    r.dup = dup[:4]
    unlocked = [(op, d) for (op, d, held) in st.ctx.ops if not held]
    if unlocked:
        obs['lock'] = B(False)
    r.unlocked = unlocked[:6]
    return [(P + nm, f) for nm, f in obs.items()]
