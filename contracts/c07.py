"""C07 -- the RAM datastore refines the abstract DataStore contract; SQL is compared with it by a bounded stand-in.

Part 1 (deductive).  For each of the 20 API methods of `NestedDictRAMDataStore` the REAL method body is executed by the
pyvc engine on a *symbolic store*: `self._owners` is a `pyvc.lazystore.LazyDict` whose initial contents are the image of
a symbolic abstract view D0 = {study, trial, sop, eop : Name -> Option<Msg>, seq, next, owner} under the representation
relation Rep (owner -> OwnerNode.studies[study_id] -> StudyNode{study_proto, trial_protos[int], early_stopping_operations
[operation_id], clients[client].suggestion_operations[operation_id]}), materialised on demand at the keys the path touches.
The abstract contract is *the same code the servicer proofs assume* (`contracts.servicer_model.ds_*`, DESIGN Appendix A):
it is evaluated on D0 first (its `requires` become assumptions, its postcondition facts about a fresh result are captured
and re-stated about the implementation's result), then the real method runs, then

    result / error_class / effect / frame / error_leaves_data_unchanged / order / by_value.* / lock / tree_ownership

are generated per path and discharged (z3; identity clauses are decided on the python object graph of the engine).

Part 2 (bounded stand-in, never counted): `replay/c07_replay.py` evaluates an executable copy of the contract at run time
around the real RAM datastore and the real SQLDataStore (sqlite :memory: and a sqlite file under /verif/out) on all
operation sequences up to a bound, and compares responses / error classes / contents.
"""
import ast
import json
import os
import subprocess
import sys
import time

import z3

from pyvc import engine as E, models as M, protomodel as pm, report, verify, attrs_model  # noqa: F401 (attrs_model registers hooks)
from pyvc import lazystore as LZ
from pyvc.engine import Obj, ExcObj, PyRaise, Builtin, Unsupported
from pyvc.protomodel import Msg, SymList, Str
from pyvc.source import ModuleInfo
from contracts import servicer_model as S
from contracts.servicer_model import Name, acc, is_some, some, none, val, parse, mkname

RAM = 'vizier._src.service.ram_datastore'
SQL = 'vizier._src.service.sql_datastore'
RES = S.RES
CLS = 'NestedDictRAMDataStore'
T, ST, OP, EO = S.S_TRIAL, S.S_STUDY, S.S_OP, S.S_EOP
I = z3.IntSort()

METHODS = ['create_study', 'load_study', 'update_study', 'delete_study', 'list_studies',
           'create_trial', 'get_trial', 'update_trial', 'list_trials', 'delete_trial', 'max_trial_id',
           'create_suggestion_operation', 'get_suggestion_operation', 'update_suggestion_operation',
           'list_suggestion_operations', 'max_suggestion_operation_number',
           'create_early_stopping_operation', 'get_early_stopping_operation', 'update_early_stopping_operation',
           'update_metadata']

# ------------------------------------------------------------------------------------------ ghosts of the initial view
OWN0 = z3.Const('D0_owner', z3.ArraySort(Str, z3.BoolSort()))        # Appendix A: D.owner
NTRIALS = z3.Function('c07_ntrials', Str, Str, I)                     # |{t : (o,s,t) in dom D0.trial}|
SOME_TRIAL = z3.Function('c07_some_trial', Str, Str, I)              # a witness when ntrials > 0
OPCOUNT = z3.Function('c07_opcount', Str, Str, Str, I)               # operation numbers of (o,s,c) are 1..opcount
G = {'o': z3.Const('g_o', Str), 's': z3.Const('g_s', Str), 'c': z3.Const('g_c', Str), 't': z3.Int('g_t'), 'n': z3.Int('g_n')}

ASSUMPTIONS = [
    'canonical resource names (DESIGN 4.3): parse/mkname are mutually inverse on well-formed names; the regexes and f-strings of '
    'resources.py are replaced by this algebra (servicer_model); f-strings evaluated inside resources.py (operation_id) are '
    'injective in their components',
    'Inv(D0), the invariant of the abstract view maintained by the servicer (C01/C02): a trial / operation exists only in an '
    'existing study; an existing study has its owner registered; stored messages carry the name of their key',
    'Inv4(D0) (Appendix A): the suggestion-operation numbers of one (study, client) are 1..k without gaps and were created in '
    'increasing order (the servicer allocates max+1); RAM answers max_suggestion_operation_number with len(ops)',
    'creation stamps D.seq are distinct for distinct present keys and smaller than D.next (maintained by the contract itself)',
    'CPython dict semantics as stated in pyvc/lazystore.py (insertion order, len = number of keys, |{1..k}| = k)',
    'copy.deepcopy of a protobuf message / list of messages yields field-wise equal fresh objects sharing nothing with the argument',
    'create_trial / create_suggestion_operation / create_early_stopping_operation are called on an existing study (contract '
    '`requires`; the real RAM code raises a raw KeyError otherwise -- outside the contract, not a violation)',
    'nondeterminism of the contract is resolved angelically (refinement): a malformed name may raise ValueError or NotFoundError; '
    'list_studies: the owner is registered iff a study of that owner was ever created',
]


def skey(o, s):
    return Name.study(o, s)


def tkey(o, s, t):
    return Name.trial(o, s, t)


def okey(o, s, c, n):
    return Name.sop(o, s, c, n)


def ekey(o, s, t):
    return Name.eop(o, s, t)


def inv_axioms(D0):
    """Inv(D0) as quantified facts (used only when obligations are discharged)."""
    o, s, c = z3.Const('o!iv', Str), z3.Const('s!iv', Str), z3.Const('c!iv', Str)
    t, n, m = z3.Int('t!iv'), z3.Int('n!iv'), z3.Int('m!iv')
    stu = lambda o_, s_: is_some(ST(), D0['D.study'][skey(o_, s_)])
    ax = [
        z3.ForAll([o, s, t], z3.Implies(is_some(T(), D0['D.trial'][tkey(o, s, t)]), stu(o, s))),
        z3.ForAll([o, s, t], z3.Implies(is_some(EO(), D0['D.eop'][ekey(o, s, t)]), stu(o, s))),
        z3.ForAll([o, s, c, n], z3.Implies(is_some(OP(), D0['D.sop'][okey(o, s, c, n)]), stu(o, s))),
        z3.ForAll([o, s], z3.Implies(stu(o, s), OWN0[o])),
        z3.ForAll([o, s, c, n], is_some(OP(), D0['D.sop'][okey(o, s, c, n)]) == z3.And(n >= 1, n <= OPCOUNT(o, s, c))),
        z3.ForAll([o, s, c, n, m], z3.Implies(z3.And(n >= 1, n < m, m <= OPCOUNT(o, s, c)),
                                              D0['D.seq'][okey(o, s, c, n)] < D0['D.seq'][okey(o, s, c, m)])),
        z3.ForAll([o, s, t], z3.Implies(is_some(T(), D0['D.trial'][tkey(o, s, t)]), NTRIALS(o, s) >= 1)),
        z3.ForAll([o, s], z3.And(NTRIALS(o, s) >= 0,
                                 z3.Implies(NTRIALS(o, s) >= 1, is_some(T(), D0['D.trial'][tkey(o, s, SOME_TRIAL(o, s))])))),
        z3.ForAll([o, s], z3.Implies(stu(o, s), D0['D.seq'][skey(o, s)] < D0['D.next'])),
        z3.ForAll([o, s, t], z3.Implies(is_some(T(), D0['D.trial'][tkey(o, s, t)]), D0['D.seq'][tkey(o, s, t)] < D0['D.next'])),
        z3.ForAll([o, s, c, n], z3.Implies(is_some(OP(), D0['D.sop'][okey(o, s, c, n)]), D0['D.seq'][okey(o, s, c, n)] < D0['D.next'])),
    ]
    return ax


def touch_study(it, D0, o, s):
    run = it.run
    key = ('c07.study', o.get_id(), s.get_id())
    if key in run.instantiated:
        return
    run.instantiated.add(key)
    run.assume(z3.Implies(is_some(ST(), D0['D.study'][skey(o, s)]), OWN0[o]))
    run.assume(z3.And(NTRIALS(o, s) >= 0, z3.Implies(NTRIALS(o, s) >= 1, is_some(T(), D0['D.trial'][tkey(o, s, SOME_TRIAL(o, s))]))))


def touch_trial(it, D0, o, s, t):
    touch_study(it, D0, o, s)
    it.run.assume(z3.Implies(is_some(T(), D0['D.trial'][tkey(o, s, t)]),
                             z3.And(is_some(ST(), D0['D.study'][skey(o, s)]), NTRIALS(o, s) >= 1)))


def touch_eop(it, D0, o, s, t):
    touch_study(it, D0, o, s)
    it.run.assume(z3.Implies(is_some(EO(), D0['D.eop'][ekey(o, s, t)]), is_some(ST(), D0['D.study'][skey(o, s)])))


def touch_sop(it, D0, o, s, c, n):
    touch_study(it, D0, o, s)
    run = it.run
    run.assume(OPCOUNT(o, s, c) >= 0)
    for num in (n, z3.IntVal(1)):
        run.assume(is_some(OP(), D0['D.sop'][okey(o, s, c, num)]) == z3.And(num >= 1, num <= OPCOUNT(o, s, c)))
    run.assume(z3.Implies(is_some(OP(), D0['D.sop'][okey(o, s, c, n)]), is_some(ST(), D0['D.study'][skey(o, s)])))
