"""C08 -- local, gRPC and split-Pythia deployments behave identically for clients.

Technique: exception-class flow (pyvc.excflow) of every client-level method of
`clients.Study`, `clients.Trial` and `vizier_client.VizierClient` over the REAL ASTs, under the union
contract of the `_service` object:

  (L) local `VizierServicer`: an RPC returns or raises what the real servicer method raises with
      `context=None` (derived from the real `vizier_service.py`, `grpc_util.handle_exception`,
      `LocalRpcError`, and the DataStore contract read from the docstrings of the real ABC);
  (R) gRPC stub: the same servicer method runs with a real servicer context; a status code set on
      the context surfaces as `grpc.RpcError` with that code, any escaping exception as
      `grpc.RpcError(UNKNOWN)` unless a code was set (assumed gRPC semantics, DESIGN 4.6).

Per abstract outcome of the underlying RPCs (ok / missing study / missing trial / immutable study /
immutable trial / named other conditions / unnamed other conditions, and the consistent combinations
of them, because under (R) `handle_exception` does not stop the handler) the paths of the client
method under L and under R are paired by their opaque decisions, and compared.

Obligations
  C08.hierarchy.*                                  class facts the client code relies on
  C08.deployment_switch.{local,remote}             `create_vizier_servicer_or_stub` yields servicer / stub
  C08.handle_exception.code.<Exc>.{local,remote}   status code per exception class (documented mapping)
  C08.handle_exception.remote_terminates_rpc       after an error status the remote handler stops
  C08.<Client.method>.same_exception_class.<outcome>
  C08.<Client.method>.same_effect.<outcome>        same sequence of datastore writes under L and R
  C08.<Client.method>.promised.<what>.{local,remote}   exceptions/results promised by client_abc docstrings
  C08.ServicePolicySupporter.<method>.same_exception_class.<outcome>   the supporter (the other holder of a service
                                                   reference: servicer in-process, stub in the split-Pythia deployment) handles
                                                   the local and the remote error of every service call alike
  C08.<Rpc>.returns_declared_response              every normally terminating path of every RPC handler (VizierServicer,
                                                   PythiaServicer) returns a non-None value (of the declared message class
                                                   where known): a stub cannot serialise anything else (INTERNAL)

Bounded stand-in (never counted as an obligation): loop-back replay of the (method x outcome) matrix on
a real DefaultVizierServer / DistributedPythiaVizierServer (replay/c08_grpc.py).
"""
import ast
import itertools
import json
import os
import re
import subprocess
import time

from pyvc import excflow, report, source
from pyvc.excflow import UNKNOWN, ClsV, Const, Ext, Frame, FuncV, Hierarchy, InstV, Special
from pyvc.source import ModuleInfo

PID = 'C08'
SVC = 'vizier._src.service.'
M_CLIENTS, M_VC, M_VS = SVC + 'clients', SVC + 'vizier_client', SVC + 'vizier_service'
M_GU, M_CE, M_DS, M_RES = SVC + 'grpc_util', SVC + 'custom_errors', SVC + 'datastore', SVC + 'resources'
M_ABC = 'vizier.client.client_abc'
K_STUDY, K_TRIAL = M_CLIENTS + ':Study', M_CLIENTS + ':Trial'
K_VC, K_SERVICER = M_VC + ':VizierClient', M_VS + ':VizierServicer'
K_LOCALRPC = M_GU + ':LocalRpcError'
K_RNF = M_ABC + ':ResourceNotFoundError'
M_SPS = SVC + 'service_policy_supporter'
K_SUP = M_SPS + ':ServicePolicySupporter'
RPC_ERROR = 'grpc.RpcError'
REMOTE_ERROR = 'grpc._channel._InactiveRpcError'
SC = 'grpc.StatusCode.'

SCOPE = tuple(SVC + m for m in (
    'clients', 'vizier_client', 'vizier_service', 'grpc_util', 'custom_errors', 'resources', 'constants',
    'stubs_util', 'types', 'pythia_service', 'service_policy_supporter', 'datastore')) + (M_ABC,)

# ---- the DataStore contract (DESIGN Appendix A; assumed here, discharged in C07).  The exception CLASS is
# read from the docstrings of the real ABC; this table only says under which abstract condition it is raised.
#   (exception class name, condition tags, mode)   mode: 'state' = decided by the abstract state,
#   'maybe' = additionally depends on the arguments (explored both ways when a tag holds),
#   'ambient' = may hold in every state (explored both ways), 'never' = assumed unreachable.
_NF, _AE = 'NotFoundError', 'AlreadyExistsError'
DS_CONTRACT = {
    'create_study': [(_AE, ['exists_study'], 'never')],
    'load_study': [(_NF, ['missing_study'], 'state')],
    'update_study': [(_NF, ['missing_study'], 'state')],
    'delete_study': [(_NF, ['missing_study'], 'state')],
    'list_studies': [(_NF, ['missing_owner'], 'state')],
    'create_trial': [(_AE, ['exists_trial'], 'never')],
    'get_trial': [(_NF, ['missing_study', 'missing_trial'], 'state')],
    # update_trial is only ever called with a trial read from the datastore earlier in the same RPC
    'update_trial': [(_NF, ['missing_study'], 'state')],
    'delete_trial': [(_NF, ['missing_study', 'missing_trial'], 'state')],
    'list_trials': [(_NF, ['missing_study'], 'state')],
    'max_trial_id': [(_NF, ['missing_study'], 'state')],
    'create_suggestion_operation': [(_AE, ['exists_operation'], 'never')],
    'get_suggestion_operation': [(_NF, ['missing_operation'], 'never')],
    'update_suggestion_operation': [(_NF, ['missing_operation'], 'never')],
    'list_suggestion_operations': [(_NF, ['missing_study'], 'state'), (_NF, ['client_without_operations'], 'ambient')],
    'max_suggestion_operation_number': [(_NF, ['missing_study'], 'state'), (_NF, ['client_without_operations'], 'ambient')],
    'create_early_stopping_operation': [(_AE, ['exists_operation'], 'never')],
    'get_early_stopping_operation': [(_NF, ['no_early_stopping_operation'], 'ambient')],
    'update_early_stopping_operation': [(_NF, ['missing_operation'], 'never')],
    'update_metadata': [(_NF, ['missing_study'], 'state'), (_NF, ['missing_trial'], 'maybe')],
}
MAYBE_ONLY_IN = {'update_metadata': ('UpdateMetadata',)}
AMBIENT_CREATED_BY = {'create_suggestion_operation': 'client_without_operations',
                      'create_early_stopping_operation': 'no_early_stopping_operation'}
DS_NEVER_REASON = ('create_* is called with a fresh key and get/update_*_operation with the name of an existing '
                   'operation (sequential client histories; races are C04, id reuse C12)')

# ---- named outcomes -------------------------------------------------------------------------------------
T_NOMEAS = 'other.ValueError@rpc.CompleteTrial'
T_BADNAME = 'other.ValueError@StudyResource.from_name#1'
T_COUNT = 'other.ValueError@Study.optimal_trials#1'
NAMED_OTHER = {T_NOMEAS: 'no_final_measurement', T_BADNAME: 'bad_study_name', T_COUNT: 'count_given'}
PRIMARY = ['missing_study', 'missing_trial', 'immutable_study', 'immutable_trial', 'missing_owner']
DIRECTABLE = frozenset(PRIMARY) | frozenset(NAMED_OTHER)
# tags that only an entry point taking the name from the caller can reach (resource names are canonical otherwise)
ENTRY_ONLY = {T_BADNAME: ('Study.from_resource_name',), T_COUNT: ('Study.optimal_trials',),
              'missing_owner': ('VizierClient.list_studies',)}
UNREACHABLE = {
    'other.ValueError@VizierServicer.CreateStudy#1': 'create_or_load_study never sets study.name in the request',
    'other.ValueError@VizierServicer.CreateStudy#3': 'fewer than 2^31 studies per owner',
    'other.ValueError@StudyResource.trial_resource#1': 'CreateTrial passes max_trial_id()+1 >= 1',
    'other.ValueError@TrialResource.from_name#1': 'trial names are built by the client through resources.TrialResource (canonical, DESIGN 4.3)',
    'other.ValueError@OwnerResource.from_name#1': 'owner names are built by the client through resources.OwnerResource (canonical, DESIGN 4.3)',
    'other.ValueError@VizierServicer.CheckTrialEarlyStoppingState#1':
        'the oneof automated_stopping_spec has the single member default_stopping_spec (study.proto)',
}

# consistent combinations: a missing study excludes everything else; a missing trial has no state
COMPOUND_BASE = ['immutable_study', 'immutable_trial', 'missing_trial', T_NOMEAS]


def consistent(tags):
    s = set(tags)
    if 'missing_trial' in s and ('immutable_trial' in s or T_NOMEAS in s):
        return False
    return True


# status code documented for handle_exception (its docstring: "Converts custom exception into correct context error code")
def spec_code(h, key):
    if h.is_subclass(key, M_CE + ':ImmutableStudyError') or h.is_subclass(key, M_CE + ':ImmutableTrialError'):
        return 'FAILED_PRECONDITION'
    if h.is_subclass(key, M_CE + ':NotFoundError'):
        return 'NOT_FOUND'
    if h.is_subclass(key, M_CE + ':AlreadyExistsError'):
        return 'ALREADY_EXISTS'
    return 'UNKNOWN'


REQUIRED_METHODS = {
    'Study': ['get_trial', 'from_resource_name', 'from_owner_and_id', 'from_study_config', 'suggest', 'request',
              'add_trial', 'trials', 'optimal_trials', 'set_state', 'delete', 'update_metadata',
              'materialize_problem_statement', 'materialize_study_config', 'materialize_state'],
    'Trial': ['complete', 'add_measurement', 'check_early_stopping', 'stop', 'delete', 'update_metadata',
              'materialize', 'parameters'],
}


class C08Model(excflow.Model):
    scope = SCOPE
    terminal_handlers = ((M_GU, 'handle_exception'),)
    stub_suffixes = ('_pb2_grpc.VizierServiceStub',)
    datastore_base = M_DS + ':DataStore'
    remote_error = REMOTE_ERROR
    status_unknown = SC + 'UNKNOWN'
    status_ok = SC + 'OK'
    status_internal = SC + 'INTERNAL'
    servicer_key = K_SERVICER
    enum_classes = ('grpc.StatusCode',)
    directable = DIRECTABLE
    unreachable = UNREACHABLE
    max_paths = 6000

    def __init__(self, hier, ds_classes):
        self.h = hier
        self.ds_classes = ds_classes            # method -> {class name -> key}
        self.unknown_ds_methods = set()
        self.summaries = {}
        # declared result of the DataStore methods (return annotations of the real ABC)
        self.ds_returns = {}
        ci = ModuleInfo.get(M_DS).classes.get('DataStore')
        for m, fn in (ci.methods.items() if ci is not None else ()):
            if isinstance(fn.returns, (ast.Name, ast.Attribute)):
                self.ds_returns[m] = fn.returns

    def datastore_call(self, method, it):
        is_write = method.split('_')[0] in ('create', 'update', 'delete')
        if method not in DS_CONTRACT:
            self.unknown_ds_methods.add(method)
            return None, is_write
        for cname, tags, mode in DS_CONTRACT[method]:
            key = self.ds_classes.get(method, {}).get(cname)
            if key is None:
                continue
            it.tags_seen.update(('maybe:' + t for t in tags) if mode == 'maybe' else tags)
            if mode == 'never':
                continue
            if mode == 'ambient':
                # e.g. "this client has no operation yet": may hold in any state; decided once per RPC and
                # switched off by the create_* call of the same family
                fam = tags[0]
                if fam not in it.ambient:
                    it.ambient[fam] = it.oracle.decide(('ds', fam))
                if it.ambient[fam]:
                    return key, is_write
                continue
            if mode == 'maybe':
                # depends on the request content (does the metadata delta name a missing trial?): an unnamed condition.
                # Metadata attached by a Pythia policy (SuggestTrials, CheckTrialEarlyStoppingState) is assumed to name
                # existing trials only.
                if it.rpc_name not in MAYBE_ONLY_IN.get(method, (it.rpc_name,)):
                    continue
                if it.oracle.decide(('ds', method, tags[0])):
                    it.opaque_errors.append('datastore.%s: %s named by the request' % (method, tags[0]))
                    return key, is_write
                continue
            if any(t in it.state for t in tags):
                return key, is_write
        fam = AMBIENT_CREATED_BY.get(method)
        if fam is not None:
            it.ambient[fam] = False
        return None, is_write

    def message_class(self, name):
        # a class of a generated protobuf module (…_pb2.Trial, …_pb2.StudySpec.MetricSpec), not a stub
        return re.search(r'_pb2\.[A-Z][A-Za-z0-9]*(\.[A-Z][A-Za-z0-9]*)*$', name) is not None

    def datastore_return(self, method, it):
        ann = self.ds_returns.get(method)
        if ann is None:
            return UNKNOWN
        v = it.eval(ann, Frame(ModuleInfo.get(M_DS), None, None, 'DataStore.' + method))
        if isinstance(v, Ext) and self.message_class(v.name):
            return excflow.ExtInst(v.name)
        return UNKNOWN

    def classify(self, cls_key, qual, ordinal, it=None):
        if cls_key == M_CE + ':ImmutableStudyError':
            return 'immutable_study'
        if cls_key == M_CE + ':ImmutableTrialError':
            return 'immutable_trial'
        if cls_key == 'builtins.ValueError' and it is not None and it.rpc_name == 'CompleteTrial' \
                and qual.startswith('VizierServicer.'):
            return T_NOMEAS          # "no final measurement and no intermediate one": the only ValueError of CompleteTrial
        return 'other.%s@%s#%d' % (self.h.short(cls_key), qual, ordinal)

    def setup_globals(self, it):
        # the deployment switch: environment_variables.server_endpoint is the default (NO_ENDPOINT) locally and
        # the address of a server otherwise
        ev = it.lookup_global(ModuleInfo.get(M_VC), 'environment_variables')
        if not isinstance(ev, InstV) or 'server_endpoint' not in ev.attrs:
            raise excflow.Unsupported('vizier_client.environment_variables.server_endpoint not found')
        if it.mode == 'R':
            ev.attrs['server_endpoint'] = Const('<host:port of a Vizier server>')


# ------------------------------------------------------------------------------------------ helpers
ORDER = ['missing_study', 'missing_owner', 'immutable_study', 'immutable_trial', 'missing_trial', T_NOMEAS, T_BADNAME, T_COUNT]


def ordered(tags):
    return tuple(sorted(tags, key=lambda t: ORDER.index(t) if t in ORDER else 99))


def state_name(tags):
    if not tags:
        return 'ok'
    return '+'.join(NAMED_OTHER.get(t, t) for t in ordered(tags))


class Analysis:
    def __init__(self, chk):
        self.chk = chk
        self.h = Hierarchy({RPC_ERROR: ['builtins.Exception'], REMOTE_ERROR: [RPC_ERROR, 'grpc.Call', 'grpc.Future'],
                            'grpc.Call': ['builtins.object'], 'grpc.Future': ['builtins.object'],
                            'abc.ABC': ['builtins.object']})
        self.model = C08Model(self.h, self.read_datastore_contract())
        self.cache = {}
        self.notes = set()
        self.all_tags = set()

    # -- DataStore ABC docstrings -> exception classes
    def read_datastore_contract(self):
        m = ModuleInfo.get(M_DS)
        ci = m.classes['DataStore']
        ce = ModuleInfo.get(M_CE)
        out = {}
        for meth, rows in DS_CONTRACT.items():
            fn = ci.methods.get(meth)
            if fn is None:
                self.chk.error('C08.datastore_contract.%s' % meth, 'DataStore.%s not found in the ABC' % meth)
                continue
            doc = ast.get_docstring(fn) or ''
            for cname, tags, mode in rows:
                if cname in ce.classes and cname in doc:
                    out.setdefault(meth, {})[cname] = M_CE + ':' + cname
                elif mode != 'never':
                    self.chk.error('C08.datastore_contract.%s' % meth,
                                   'the docstring of DataStore.%s no longer documents %s (contract table out of date)' % (meth, cname))
        return out

    # -- entry points
    def receiver(self, it, key, fr):
        if key == K_SUP:
            # the other holder of a Vizier service reference: the in-process servicer in two deployments, a stub of the
            # Vizier server in the split-Pythia one (PythiaServicer.connect_to_vizier)
            f = it.lookup_global(ModuleInfo.get(M_VC), 'create_vizier_servicer_or_stub')
            service = it.call_v(f, [], {}, fr)
            return it.construct(K_SUP, [UNKNOWN, service], {}, fr)
        vc = it.construct(K_VC, [UNKNOWN, UNKNOWN], {}, fr)
        if key == K_VC:
            return vc
        if key == K_STUDY:
            return it.construct(K_STUDY, [vc], {}, fr)
        return it.construct(K_TRIAL, [vc, UNKNOWN], {}, fr)

    def entry(self, key, name):
        def run(it):
            mod = ModuleInfo.get(M_CLIENTS)
            fr = Frame(mod, None, None, '<client program>')
            if key is None:
                f = it.lookup_global(ModuleInfo.get(M_VC), name)
            else:
                ci = Hierarchy.classinfo(key)
                decos = ci.method_decorators(name)
                if 'classmethod' in decos or 'staticmethod' in decos:
                    f = it.getattr_v(ClsV(key), name, fr)
                else:
                    f = it.getattr_v(self.receiver(it, key, fr), name, fr)
            if not isinstance(f, FuncV):
                return f                      # a property: already evaluated
            a = f.node.args
            npos = len(a.posonlyargs) + len(a.args) - (1 if f.bound is not None else 0)
            return it.call_v(f, [UNKNOWN] * npos, {p.arg: UNKNOWN for p in a.kwonlyargs}, fr)
        return run

    def paths(self, mkey, state, mode):
        ck = (mkey, frozenset(state), mode)
        if ck not in self.cache:
            key, name = mkey
            ps = excflow.reduce_paths(excflow.enumerate_paths(self.model, self.h, self.entry(key, name), state, mode))
            for p in ps:
                self.notes |= p.notes
                self.all_tags |= p.tags_seen
            self.cache[ck] = ps
        return self.cache[ck]

    def tags_of(self, mkey):
        seen = set()
        for mode in 'LR':
            for p in self.paths(mkey, (), mode):
                seen |= p.tags_seen
        more = True
        done = set()
        while more:
            more = False
            for t in sorted(seen & DIRECTABLE):
                if t in done:
                    continue
                done.add(t)
                for mode in 'LR':
                    for p in self.paths(mkey, (t,), mode):
                        if not p.tags_seen <= seen:
                            seen |= p.tags_seen
                            more = True
        return seen

    # -- normal forms
    def norm(self, outcome):
        """Exception classes modulo: every grpc.RpcError subclass counts as RpcError(code)."""
        if outcome[0] == 'return':
            return ('return', outcome[1])
        _, cls, code = outcome
        if cls != '?unknown' and self.h.is_subclass(cls, RPC_ERROR):
            return ('raise', 'grpc.RpcError', code)
        return ('raise', self.h.short(cls), None)

    @staticmethod
    def fmt(n):
        if n[0] == 'return':
            return 'return'
        return 'raise %s%s' % (n[1], '(%s)' % n[2] if n[2] else '')


def mname(mkey):
    key, name = mkey
    return (Hierarchy.classinfo(key).qualname + '.' if key else '') + name


# ------------------------------------------------------------------------------------------ obligations
def ob_hierarchy(chk, an):
    h = an.h
    facts = [
        (M_CE + ':NotFoundError', 'builtins.KeyError', 'clients.Study.get_trial catches KeyError'),
        (M_CE + ':NotFoundError', 'builtins.LookupError', ''),
        (K_LOCALRPC, RPC_ERROR, 'VizierClient.get_suggestions catches grpc.RpcError'),
        (K_RNF, 'builtins.LookupError', 'declared by client_abc'),
        (M_CE + ':ImmutableStudyError', 'builtins.ValueError', ''),
        (M_CE + ':ImmutableTrialError', 'builtins.ValueError', ''),
        (M_CE + ':AlreadyExistsError', 'builtins.ValueError', ''),
    ]
    for a, b, why in facts:
        t0 = time.time()
        ok = Hierarchy.classinfo(a) is not None and h.is_subclass(a, b)
        chk.obligation('C08.hierarchy.%s.subclass_of.%s' % (h.short(a), h.short(b)), h.short(a), 'frame',
                       report.PROVED if ok else report.VIOLATED, time.time() - t0,
                       detail={'mro': h.mro(a), 'why': why},
                       model=None if ok else 'MRO of %s read from source: %s' % (a, h.mro(a)), reproduced=None)
    # the name clients.ResourceNotFoundError is the class of client_abc
    t0 = time.time()
    k = h.resolve(ModuleInfo.get(M_CLIENTS), 'ResourceNotFoundError')
    chk.obligation('C08.hierarchy.clients.ResourceNotFoundError.is_client_abc_class', 'clients', 'frame',
                   report.PROVED if k == K_RNF else report.VIOLATED, time.time() - t0, detail={'resolved': k},
                   model='clients.ResourceNotFoundError resolves to %s' % k, reproduced=None)


def ob_deployment(chk, an):
    for mode, nm in (('L', 'local'), ('R', 'remote')):
        t0 = time.time()

        def run(it):
            f = it.lookup_global(ModuleInfo.get(M_VC), 'create_vizier_servicer_or_stub')
            return it.call_v(f, [], {}, Frame(ModuleInfo.get(M_VC), None, None, '<client program>'))
        got = []
        work = [[]]
        while work:
            o = excflow.Oracle(work.pop())
            it = excflow.Interp(an.model, an.h, (), mode, o)
            an.model.setup_globals(it)
            try:
                got.append(run(it))
            except excflow.RaiseSignal as r:
                got.append(r.exc)
            work.extend(o.pending)
        if mode == 'L':
            ok = all(isinstance(v, InstV) and v.cls == K_SERVICER for v in got)
        else:
            ok = all(isinstance(v, Special) and v.kind == 'stub' for v in got)
        chk.obligation('C08.deployment_switch.%s' % nm, 'create_vizier_servicer_or_stub', 'paths',
                       report.PROVED if ok else report.UNDECIDED, time.time() - t0,
                       detail='%s deployment yields %s' % (nm, [repr(v) for v in got]))
        if not ok:
            return False
    # the servicer registered with the gRPC server is the class analysed under (R)
    try:
        vs = ModuleInfo.get(SVC + 'vizier_server')
        _, fn = vs.find('DefaultVizierServer.__attrs_post_init__')
        src = vs.segment(fn)
        if not ('vizier_service.VizierServicer(' in src and 'add_VizierServiceServicer_to_server' in src):
            chk.assume('vizier_server.DefaultVizierServer no longer registers vizier_service.VizierServicer syntactically; '
                       'the remote contract is still derived from VizierServicer')
    except (KeyError, FileNotFoundError):
        chk.assume('vizier_server.DefaultVizierServer not found; remote contract derived from VizierServicer')
    return True


def run_handle_exception(an, exc_key, mode):
    """Interpret the real grpc_util.handle_exception(e, context) -> list of (outcome, ctx code, returned normally)."""
    out = []
    work = [[]]
    gu = ModuleInfo.get(M_GU)
    while work:
        o = excflow.Oracle(work.pop())
        it = excflow.Interp(an.model, an.h, (), mode, o)
        an.model.setup_globals(it)
        fr = Frame(gu, None, None, '<servicer>')
        e = it.construct(exc_key, [], {}, fr)
        ctx = Special('ctx', code=None) if mode == 'R' else Const(None)
        f = it.lookup_global(gu, 'handle_exception')
        try:
            it.call_v(f, [e, ctx], {}, fr)
            oc = ('return', 'none')
        except excflow.RaiseSignal as r:
            oc = excflow.describe_outcome(it, 'raise', r.exc)
        code = ctx.code if mode == 'R' else None
        cname = code.name.rsplit('.', 1)[1] if isinstance(code, Ext) else (None if code is None else '?')
        out.append((oc, cname))
        work.extend(o.pending)
    return out


def ob_handle_exception(chk, an):
    h = an.h
    chk.function(M_GU, 'handle_exception')
    chk.function(M_GU, 'LocalRpcError.set_code')
    chk.function(M_GU, 'LocalRpcError.code')
    ce = ModuleInfo.get(M_CE)
    classes = [M_CE + ':' + c for c in sorted(ce.classes)] + ['builtins.ValueError', 'builtins.KeyError',
                                                               'builtins.RuntimeError', 'builtins.Exception']
    terminal = True
    witness = None
    for k in classes:
        want = spec_code(h, k)
        for mode, nm in (('L', 'local'), ('R', 'remote')):
            t0 = time.time()
            res = run_handle_exception(an, k, mode)
            if mode == 'L':
                ok = all(oc[0] == 'raise' and h.is_subclass(oc[1], RPC_ERROR) and oc[2] == want for oc, _ in res)
            else:
                ok = all(code == want for _, code in res)
                if any(oc[0] == 'return' for oc, _ in res):
                    terminal = False
                    witness = witness or (k, res)
            vague = any(code == '?' or (oc[0] == 'raise' and (oc[2] == '?' or oc[1] == '?unknown')) for oc, code in res)
            oname = 'C08.handle_exception.code.%s.%s' % (h.short(k), nm)
            detail = {'expected': want, 'paths': [[list(oc), c] for oc, c in res]}
            if ok or vague:
                chk.obligation(oname, 'handle_exception', 'paths', report.PROVED if ok else report.UNDECIDED, time.time() - t0,
                               detail=detail)
            else:
                # native scenario in which the servicer hands an exception of this class to handle_exception
                sc = HANDLE_EXCEPTION_SCENARIO.get(h.short(k))
                case = dict(sc, check='code', deployment=mode, want=want) if sc else None
                PENDING.append({'name': oname, 'function': 'handle_exception', 'backend': 'paths', 'sig': [], 't': time.time() - t0,
                                'model': 'handle_exception(%s(), %s): %s, expected status %s' % (
                                    h.short(k), 'None' if mode == 'L' else '<servicer context>', res, want),
                                'case': case, 'detail': detail})
    name = 'C08.handle_exception.remote_terminates_rpc'
    t0 = time.time()
    if terminal:
        chk.obligation(name, 'handle_exception', 'paths', report.PROVED, 0.0,
                       detail='with a servicer context every path of handle_exception leaves by an exception')
    else:
        sig = ['handle_exception(e, <servicer context>) returns normally after context.set_code(..)']
        known_or_violated(chk, name, 'handle_exception', sig,
                          model='handle_exception(%s(), <servicer context>) -> %s: the handler keeps running after '
                                'the error status was set (locally it raises LocalRpcError)' % (h.short(witness[0]), witness[1]),
                          case={'method': 'Trial.delete', 'state': ['immutable_study'], 'check': 'effect'}, t=time.time() - t0)


# client scenarios in which the servicer passes an exception of the class to handle_exception (for the native replay)
HANDLE_EXCEPTION_SCENARIO = {
    'ImmutableStudyError': {'method': 'Trial.delete', 'state': ['immutable_study']},
    'ImmutableTrialError': {'method': 'Trial.complete', 'state': ['immutable_trial']},
    'ValueError': {'method': 'Trial.complete', 'state': ['no_final_measurement']},
}


def known_or_violated(chk, name, function, sig, model, case, t=0.0, backend='paths'):
    """Residual-obligation rule (DESIGN 2.7): an open known finding covers exactly its recorded signature."""
    f = chk.finding_for(name)
    if f is not None and sorted(f.get('signature', [])) == sorted(sig):
        # recorded only after the witness was replayed (settle_known): a stale entry suppresses nothing
        KNOWN_CANDIDATES.append({'name': name, 'function': function, 'backend': backend, 'sig': sig, 'model': model,
                                 'case': case, 't': t, 'finding': f, 'detail': {'signature': sig}})
        return 'known'
    detail = {'signature': sig}
    if f is not None:
        detail['known_finding_signature'] = f.get('signature')
        detail['note'] = 'differs from the recorded known finding: residual obligation fails'
    PENDING.append({'name': name, 'function': function, 'backend': backend, 'sig': sig, 'model': model, 'case': case,
                    't': t, 'detail': detail})
    return 'violated'


KNOWN_USED = []             # (obligation, finding, case) of the known findings that were accepted on this run
KNOWN_CANDIDATES = []       # obligations that fail exactly as an open recorded finding says (accepted after replay)
PENDING = []                # violations to be confirmed by replay before they are reported


def stale_note(chk, text):
    """A recorded finding whose witness does not reproduce on this tree: a plain NOTE, never an error."""
    chk.note('NOTE ' + text)
    print('NOTE property=%s %s' % (PID, text[:600]))


def settle_known(chk, an, tier, res):
    """Accept a known finding only if its witness still reproduces on the real code (where it was replayed: the flagship
    witnesses in the quick tier, all of them in the thorough tier).  A stale entry is a NOTE and suppresses nothing: its
    obligation is handled like any other violation."""
    n = 0
    for k in KNOWN_CANDIDATES:
        f, case, ok, native = k['finding'], k['case'], None, None
        if res is not None and case is not None and (tier == 'thorough' or f.get('flagship')):
            rs = [res['cases'].get(c['id']) for c in replay_cases_for(case, case_id(case))]
            ok, native = reproduces(an, case, rs, f.get('signature') if case.get('check', 'class') == 'class' else None)
            n += 1
            if ok is None:
                stale_note(chk, 'the scenario of the recorded finding %s could not be set up on this tree (%s); '
                                'the finding is kept' % (k['name'], case_id(case)))
        if ok is False:
            stale_note(chk, 'the recorded finding %s no longer reproduces on the real code (stale entry in known_findings.d/C08.json, '
                            'case %s); it suppresses nothing' % (k['name'], case_id(case)))
            PENDING.append({kk: k[kk] for kk in ('name', 'function', 'backend', 'sig', 'model', 'case', 't', 'detail')})
            continue
        chk.obligation(k['name'], k['function'], k['backend'], report.KNOWN, k['t'],
                       detail={'signature': k['sig'], 'root_cause': f.get('root_cause')}, finding=f.get('what', k['name']))
        KNOWN_USED.append((k['name'], f, case))
    return n


STOPS_VS_GOES_ON = 'the local RPC stops at the error, the remote handler goes on and writes to the datastore'


def pair_compare(an, mkey, state):
    """-> (class divergences, effect divergences, examples, n pairs) over the paired pure paths of the state."""
    L = [p for p in an.paths(mkey, state, 'L') if not p.opaque_errors]
    R = [p for p in an.paths(mkey, state, 'R') if not p.opaque_errors]
    cdiv, ediv, ex = set(), set(), {}
    n = 0
    for p in L + R:
        if p.outcome[0] == 'raise' and (p.outcome[1] == '?unknown' or p.outcome[2] == '?'):
            raise excflow.Unsupported('an exception of unknown class or status code escapes (%s): %s' % (p.outcome, p.fired))
    for lp in L:
        for rp in R:
            if not lp.compatible(rp):
                continue
            n += 1
            a, b = an.norm(lp.outcome), an.norm(rp.outcome)
            if a != b:
                s = 'local: %s | remote: %s' % (an.fmt(a), an.fmt(b))
                cdiv.add(s)
                ex.setdefault(s, (lp, rp))
            if lp.writes != rp.writes:
                if len(lp.writes) < len(rp.writes) and rp.writes[:len(lp.writes)] == lp.writes:
                    s = STOPS_VS_GOES_ON
                else:
                    s = 'local writes: %s | remote writes: %s' % (list(lp.writes), list(rp.writes))
                ediv.add(s)
                ex.setdefault(s, (lp, rp))
    return cdiv, ediv, ex, n, L, R


def explain(ex, s):
    lp, rp = ex[s]
    return '%s\n  local path: events %s, datastore writes %s\n  remote path: events %s, datastore writes %s' % (
        s, lp.fired, list(lp.writes), rp.fired, list(rp.writes))


def ob_method(chk, an, mkey, states_out):
    name = mname(mkey)
    key, fname = mkey
    chk.function(M_CLIENTS if key in (K_STUDY, K_TRIAL) else M_VC, name)
    tags = an.tags_of(mkey)
    usable = []
    for t in sorted(tags & DIRECTABLE):
        if t in ENTRY_ONLY and name not in ENTRY_ONLY[t]:
            continue
        usable.append(t)
    states = [()] + [(t,) for t in usable]
    base = [t for t in COMPOUND_BASE if t in usable]
    for r in (2, 3):
        for combo in itertools.combinations(base, r):
            if consistent(combo):
                states.append(ordered(combo))
    for st in states:
        sn = state_name(st)
        t0 = time.time()
        try:
            cdiv, ediv, ex, n, L, R = pair_compare(an, mkey, st)
        except (excflow.Unsupported, excflow.PathLimit) as e:
            chk.obligation('C08.%s.same_exception_class.%s' % (name, sn), name, 'paths', report.UNDECIDED, time.time() - t0,
                           detail='analysis gave up: %r' % (e,))
            continue
        dt = time.time() - t0
        case = {'method': name, 'state': [NAMED_OTHER.get(t, t) for t in st]}
        states_out.append((mkey, st, L, R))
        if n == 0:
            chk.obligation('C08.%s.same_exception_class.%s' % (name, sn), name, 'paths', report.UNDECIDED, dt,
                           detail='no pair of compatible local/remote paths')
            continue
        for fam, div in (('same_exception_class', cdiv), ('same_effect', ediv)):
            oname = 'C08.%s.%s.%s' % (name, fam, sn)
            if not div:
                chk.obligation(oname, name, 'paths', report.PROVED, dt / 2,
                               detail={'pairs': n, 'local': sorted({an.fmt(an.norm(p.outcome)) for p in L}),
                                       'remote': sorted({an.fmt(an.norm(p.outcome)) for p in R})})
            else:
                sig = sorted(div)
                known_or_violated(chk, oname, name, sig, model='\n'.join(explain(ex, s) for s in sig),
                                  case=dict(case, check='class' if fam == 'same_exception_class' else 'effect'), t=dt / 2)
    # unnamed other conditions: every path that entered an error block not decided by the state (class only)
    t0 = time.time()
    L = [p for p in an.paths(mkey, (), 'L') if p.opaque_errors]
    R = [p for p in an.paths(mkey, (), 'R') if p.opaque_errors]
    if L or R:
        div, ex, n = set(), {}, 0
        for lp in L:
            for rp in R:
                if lp.compatible(rp):
                    n += 1
                    a, b = an.norm(lp.outcome), an.norm(rp.outcome)
                    if a != b:
                        s = 'local: %s | remote: %s [%s]' % (an.fmt(a), an.fmt(b), ','.join(sorted(set(lp.opaque_errors))))
                        div.add(s)
                        ex.setdefault(s, (lp, rp))
        oname = 'C08.%s.same_exception_class.other' % name
        if not div:
            chk.obligation(oname, name, 'paths', report.PROVED, time.time() - t0,
                           detail={'pairs': n, 'conditions': sorted({t for p in L + R for t in p.opaque_errors})})
        else:
            sig = sorted(div)
            known_or_violated(chk, oname, name, sig, model='\n'.join(explain(ex, s) for s in sig), case=None, t=time.time() - t0)
    return tags


class AllPathsModel(C08Model):
    """Every error block is explored both ways (no abstract state): used to enumerate ALL paths of a handler."""
    directable = frozenset()


M_PS = SVC + 'pythia_service'
SERVICERS = ((M_VS, 'VizierServicer'), (M_PS, 'PythiaServicer'))


def handlers_of(dotted, cname):
    try:
        ci = ModuleInfo.get(dotted).classes[cname]
    except (KeyError, FileNotFoundError):
        return None, []
    return ci, [m for m, fn in ci.methods.items()
                if m[0].isupper() and any(a.arg == 'context' for a in fn.args.args)]


def ob_returns_declared_response(chk, an, mkeys):
    """C08.<Rpc>.returns_declared_response: every normally terminating path of every servicer RPC handler returns a value
    that is not None (no fall-off-the-end, no bare `return`) and, where the class of the returned object is known, an
    instance of the declared response message.  In-process the caller gets whatever the handler returns; a gRPC server cannot
    serialise anything else and ends the RPC with StatusCode.INTERNAL -- the deployments diverge."""
    model = AllPathsModel(an.h, an.model.ds_classes)
    callers = {}
    for mkey in mkeys:
        try:
            for p in an.paths(mkey, (), 'L'):
                for r in p.rpcs:
                    callers.setdefault(r, []).append(mname(mkey))
        except (excflow.Unsupported, excflow.PathLimit):
            pass
    for dotted, cname in SERVICERS:
        ci, names = handlers_of(dotted, cname)
        if ci is None:
            chk.error('C08.extract.%s' % cname, 'servicer class not found')
            continue
        key = Hierarchy.key_of(ci)
        for name in sorted(names):
            t0 = time.time()
            oname = 'C08.%s.returns_declared_response' % name
            chk.function(dotted, '%s.%s' % (cname, name), role='RPC handler: every path returns the declared response')
            declared = [None]

            def entry(it, key=key, name=name, ci=ci):
                it.rpc_depth, it.rpc_name = 1, name
                fr = Frame(ci.mod, None, None, '<grpc server>')
                sv = it.construct(key, [], {}, fr)
                f = it.getattr_v(sv, name, fr)
                declared[0] = it.declared_response(f)
                return it.invoke(f, [UNKNOWN, Special('ctx', code=None)], {}, fr)
            try:
                ps = excflow.enumerate_paths(model, an.h, entry, (), 'R')
            except (excflow.Unsupported, excflow.PathLimit) as e:
                chk.obligation(oname, '%s.%s' % (cname, name), 'paths', report.UNDECIDED, time.time() - t0,
                               detail='analysis gave up: %r' % (e,))
                continue
            for p in ps:
                an.notes |= p.notes
            normal = [p for p in ps if p.outcome[0] == 'return']
            bad = {}
            for p in normal:
                why = None
                if p.outcome[1] == 'none':
                    why = '%s: the handler returns None' % p.last_return
                elif p.outcome[1].startswith('empty_'):
                    why = '%s: the handler returns a %s, not a message' % (p.last_return, p.outcome[1][6:])
                elif p.ret_type is not None and declared[0] is not None and p.ret_type != declared[0]:
                    why = '%s: the handler returns a %s, declared %s' % (p.last_return, p.ret_type.rsplit('_pb2.', 1)[-1],
                                                                           declared[0].rsplit('_pb2.', 1)[-1])
                if why is not None:
                    bad.setdefault(why, p)
            detail = {'paths': len(ps), 'normally_terminating': len(normal),
                      'declared': declared[0], 'typed_returns': sorted({p.ret_type for p in normal if p.ret_type})}
            if not normal:
                chk.obligation(oname, '%s.%s' % (cname, name), 'paths', report.UNDECIDED, time.time() - t0,
                               detail=dict(detail, note='no normally terminating path found'))
            elif not bad:
                chk.obligation(oname, '%s.%s' % (cname, name), 'paths', report.PROVED, time.time() - t0, detail=detail)
            else:
                users = sorted(set(callers.get(name, [])), key=lambda m: (not m.startswith(('Trial.', 'Study.')), m))
                case = None
                if cname == 'VizierServicer' and users:
                    case = {'method': users[0], 'state': [], 'check': 'response', 'variants': ['twice', 'after_complete']}
                elif cname == 'PythiaServicer' and name in PYTHIA_USERS:
                    case = {'method': PYTHIA_USERS[name], 'state': [], 'check': 'response_pythia'}
                known_or_violated(chk, oname, '%s.%s' % (cname, name), sorted(bad),
                                  model='\n'.join('%s\n  events on that path: %s; datastore writes: %s' % (w, p.fired, list(p.writes))
                                                  for w, p in sorted(bad.items())) +
                                        '\nin-process the caller gets that value; a gRPC server cannot serialise it (StatusCode.INTERNAL)',
                                  case=case, t=time.time() - t0)


# client methods whose servicer RPC consults the Pythia handler (for the native replay: single server vs split Pythia)
PYTHIA_USERS = {'Suggest': 'Study.suggest', 'EarlyStop': 'Trial.check_early_stopping'}



def ob_supporter(chk, an, states_out):
    """C08.ServicePolicySupporter.<method>.same_exception_class.<outcome>: the policy supporter holds the in-process servicer
    in the local and single-server deployments and a gRPC stub in the split-Pythia one.  For every call on that reference
    the supporter must treat the local error (NotFoundError/KeyError, LocalRpcError) and the remote one (RpcError with the
    mapped or UNKNOWN code) alike: both escape, or both are handled the same way.  An error that escapes unhandled counts as
    the same 'service error' under both holders (that its class differs is the servicer's finding, recorded at the client
    methods); an `except KeyError` around a call whose remote failure is an RpcError is a divergence."""
    ci = Hierarchy.classinfo(K_SUP)
    if ci is None:
        chk.error('C08.extract.ServicePolicySupporter', 'class not found')
        return
    # the Pythia servicer hands its own service reference to the supporter
    try:
        ps = ModuleInfo.get(M_PS)
        src = ps.segment(ps.classes['PythiaServicer'].node)
        if 'ServicePolicySupporter(' not in src or 'self._vizier_service' not in src:
            chk.assume('PythiaServicer no longer builds a ServicePolicySupporter from self._vizier_service syntactically')
    except (KeyError, FileNotFoundError):
        pass

    def snorm(p):
        if p.outcome[0] == 'raise' and p.exc is not None and '<service>' in p.exc.attrs:
            return ('raise', 'the error of the service call %s' % p.exc.attrs['<service>'].value, None)
        return an.norm(p.outcome)
    for m in ci.methods:
        if m.startswith('_') or m.endswith('.setter'):
            continue
        mkey = (K_SUP, m)
        name = 'ServicePolicySupporter.' + m
        chk.function(M_SPS, name, role='holder of a service reference (in-process servicer or stub)')
        try:
            tags = an.tags_of(mkey)
        except (excflow.Unsupported, excflow.PathLimit) as e:
            chk.obligation('C08.%s.same_exception_class.ok' % name, name, 'paths', report.UNDECIDED, 0.0, detail='analysis gave up: %r' % (e,))
            continue
        usable_tags = [t for t in sorted(tags & DIRECTABLE) if t not in ENTRY_ONLY]
        for st in [()] + [(t,) for t in usable_tags]:
            t0 = time.time()
            oname = 'C08.%s.same_exception_class.%s' % (name, state_name(st))
            try:
                L, R = an.paths(mkey, st, 'L'), an.paths(mkey, st, 'R')
            except (excflow.Unsupported, excflow.PathLimit) as e:
                chk.obligation(oname, name, 'paths', report.UNDECIDED, time.time() - t0, detail='analysis gave up: %r' % (e,))
                continue
            div, ex, n = set(), {}, 0
            for lp in L:
                for rp in R:
                    if lp.compatible(rp):
                        n += 1
                        a, b = snorm(lp), snorm(rp)
                        if a != b:
                            sdesc = 'in-process servicer: %s | stub: %s' % (an.fmt(a), an.fmt(b))
                            div.add(sdesc)
                            ex.setdefault(sdesc, (lp, rp))
            if n == 0:
                chk.obligation(oname, name, 'paths', report.UNDECIDED, time.time() - t0, detail='no pair of compatible paths')
            elif not div:
                chk.obligation(oname, name, 'paths', report.PROVED, time.time() - t0,
                               detail={'pairs': n, 'rpcs': sorted({r for p in L + R for r in p.rpcs}),
                                       'in_process': sorted({an.fmt(snorm(p)) for p in L}),
                                       'stub': sorted({an.fmt(snorm(p)) for p in R})})
            else:
                sig = sorted(div)
                known_or_violated(chk, oname, name, sig, model='\n'.join(explain(ex, x) for x in sig),
                                  case={'method': name, 'state': [NAMED_OTHER.get(t, t) for t in st], 'check': 'supporter'},
                                  t=time.time() - t0)


def read_promises(an):
    """Exceptions promised by the docstrings ('Raises:' sections) of client_abc interfaces and clients.py."""
    out = []
    for dotted, classes in ((M_ABC, ('StudyInterface', 'TrialInterface')), (M_CLIENTS, ('Study', 'Trial'))):
        m = ModuleInfo.get(dotted)
        for c in classes:
            ci = m.classes.get(c)
            if ci is None:
                continue
            for meth, fn in ci.methods.items():
                doc = ast.get_docstring(fn) or ''
                mm = re.search(r'Raises:\s*\n(.*?)(\n\s*\n|\Z)', doc, re.S)
                if not mm:
                    continue
                for line in mm.group(1).splitlines():
                    lm = re.match(r'\s*([A-Za-z_][A-Za-z_0-9]*)\s*(:|\.|$)', line)
                    if lm:
                        out.append((c.replace('Interface', ''), meth, lm.group(1), line.strip(), dotted))
    return out


# (class, method, promised exception) -> (state in which it is promised, obligation label)
PROMISE_STATE = {
    ('Study', 'get_trial', 'ResourceNotFoundError'): (('missing_trial',), 'not_found'),
    ('Study', 'from_resource_name', 'ResourceNotFoundError'): (('missing_study',), 'not_found'),
    ('Study', 'from_owner_and_id', 'ResourceNotFoundError'): (('missing_study',), 'not_found'),
    ('Trial', 'complete', 'ValueError'): ((T_NOMEAS,), 'value_error_no_measurement'),
}


def ob_promised(chk, an):
    h = an.h
    seen = set()
    for cls, meth, exc, line, where in read_promises(an):
        k = (cls, meth, exc)
        if k in seen:
            continue
        seen.add(k)
        if k not in PROMISE_STATE:
            chk.note('docstring promise not checked here: %s.%s raises %s (%s)' % (cls, meth, exc, line))
            continue
        st, label = PROMISE_STATE[k]
        mkey = (K_STUDY if cls == 'Study' else K_TRIAL, meth)
        want = h.resolve(ModuleInfo.get(M_CLIENTS), exc) or ('builtins.' + exc)
        for mode, nm in (('L', 'local'), ('R', 'remote')):
            t0 = time.time()
            ps = [p for p in an.paths(mkey, st, mode) if not p.opaque_errors]
            bad = sorted({an.fmt(an.norm(p.outcome)) for p in ps
                          if not (p.outcome[0] == 'raise' and p.outcome[1] != '?unknown' and h.is_subclass(p.outcome[1], want))})
            oname = 'C08.%s.%s.promised.%s.%s' % (cls, meth, label, nm)
            if ps and not bad:
                chk.obligation(oname, '%s.%s' % (cls, meth), 'paths', report.PROVED, time.time() - t0,
                               detail={'promise': line, 'source': where, 'paths': len(ps)})
            else:
                sig = ['%s instead of %s' % (b, h.short(want)) for b in bad] or ['no path']
                known_or_violated(chk, oname, '%s.%s' % (cls, meth), sig,
                                  model='%s.%s in outcome %s under the %s contract: %s; promised: %s' % (
                                      cls, meth, state_name(st), nm, bad, line),
                                  case={'method': '%s.%s' % (cls, meth), 'state': [NAMED_OTHER.get(t, t) for t in st],
                                        'deployment': mode, 'promised': h.short(want), 'check': 'promised'}, t=time.time() - t0)
    # behaviour promised by VizierClient.get_suggestions / relied upon by users: no suggestions from an inactive study
    for mkey in ((K_STUDY, 'suggest'), (K_VC, 'get_suggestions')):
        for mode, nm in (('L', 'local'), ('R', 'remote')):
            t0 = time.time()
            ps = [p for p in an.paths(mkey, ('immutable_study',), mode) if not p.opaque_errors]
            bad = sorted({an.fmt(an.norm(p.outcome)) + ('' if p.outcome[0] == 'raise' else ' ' + p.outcome[1]) for p in ps
                          if p.outcome != ('return', 'empty_list')})
            oname = 'C08.%s.promised.inactive_study_empty_list.%s' % (mname(mkey), nm)
            if ps and not bad:
                chk.obligation(oname, mname(mkey), 'paths', report.PROVED, time.time() - t0, detail={'paths': len(ps)})
            else:
                known_or_violated(chk, oname, mname(mkey), ['%s instead of []' % b for b in bad] or ['no path'],
                                  model='%s on a study that is not active under the %s contract: %s; expected []' % (
                                      mname(mkey), nm, bad),
                                  case={'method': mname(mkey), 'state': ['immutable_study'], 'deployment': mode,
                                        'promised': '[]', 'check': 'promised'}, t=time.time() - t0)


# ------------------------------------------------------------------------------------------ replay
def run_replay(cases, deployments, tag):
    out_dir = os.path.join(report.OUT, 'c08')
    os.makedirs(out_dir, exist_ok=True)
    cpath = os.path.join(out_dir, 'cases_%s.json' % tag)
    rpath = os.path.join(out_dir, 'result_%s.json' % tag)
    with open(cpath, 'w') as f:
        json.dump(cases, f)
    if os.path.exists(rpath):
        os.remove(rpath)
    env = dict(os.environ)
    env['VERIF_REPO'] = source.REPO
    cmd = ['/venv/bin/python', os.path.join(report.VERIF, 'replay', 'c08_grpc.py'), '--cases', cpath, '--out', rpath,
           '--deployments', ','.join(deployments)]
    try:
        p = subprocess.run(cmd, capture_output=True, text=True, timeout=900, env=env, cwd=out_dir)
    except subprocess.TimeoutExpired:
        return None, 'replay timed out'
    if not os.path.exists(rpath):
        return None, 'replay driver failed (exit %s): %s' % (p.returncode, (p.stderr or p.stdout)[-800:])
    res = json.load(open(rpath))
    if not res.get('repo_unchanged', False):
        return res, 'the replay changed the working tree of the repository'
    return res, None


def native_norm(x):
    if not x or 'result' not in x:
        return None
    q = x['result']
    if q['kind'] == 'return':
        return ('return', q['value'])
    if RPC_ERROR in q['mro']:
        return ('raise', 'grpc.RpcError', q['code'])
    return ('raise', q['class'].rsplit('.', 1)[1], None)


def native_sig(an, c, a='L', b='R'):
    """Divergence of a replayed case in the vocabulary of the analysis: (local, remote, class signature|None, effect|None)."""
    la, ra = native_norm(c.get(a)), native_norm(c.get(b))
    cls = eff = None
    if la is not None and ra is not None:
        ka = (la[0],) + (tuple(la[1:]) if la[0] == 'raise' else ())
        kb = (ra[0],) + (tuple(ra[1:]) if ra[0] == 'raise' else ())
        if ka != kb:
            cls = 'local: %s | remote: %s' % (an.fmt(la), an.fmt(ra))
        if c[a].get('after') != c[b].get('after'):
            eff = {'local_after': c[a].get('after'), 'remote_after': c[b].get('after')}
    return la, ra, cls, eff


def usable(c, deps=('L', 'R')):
    return c is not None and all(d in c and 'result' in c[d] for d in deps)


def case_id(case):
    return '%s/%s' % (case['method'], '+'.join(case['state']) or 'ok')


def replay_cases_for(case, cid):
    """The native scenarios of an abstract case: a trial that cannot be modified is INFEASIBLE or SUCCEEDED."""
    base = {'id': cid, 'method': case['method'], 'state': case['state']}
    out = [base]
    if 'immutable_trial' in case['state']:
        out.append(dict(base, id=cid + '#succeeded', variant='succeeded'))
    for v in case.get('variants', ()):
        out.append(dict(base, id=cid + '#' + v, variant=v))
    if case.get('check') == 'supporter':
        # the end-to-end scenario: a GRID_SEARCH study (its policy asks the supporter for the ids 1..max), a trial
        # deleted below the maximum, then another suggest
        out.append({'id': cid + '#grid_after_delete', 'method': 'Study.suggest', 'state': [], 'variant': 'grid_after_delete'})
    return out


def reproduces(an, case, results, signature=None):
    """Does the real code show what the (violated or known-finding) obligation says?  True / False / None (not run)."""
    verdicts, native = [], []
    for c in results:
        if not usable(c):
            continue
        la, ra, cls, eff = native_sig(an, c)
        native.append({'local': c['L'].get('result'), 'remote': c['R'].get('result'), 'class_divergence': cls,
                       'effect_divergence': eff})
        check = case.get('check', 'class')
        if check == 'promised':
            dep = case.get('deployment', 'L')
            q = c[dep]['result']
            if case.get('promised') == '[]':
                verdicts.append(native_norm(c[dep]) != ('return', 'empty_list'))
            else:
                verdicts.append(not (q['kind'] == 'raise' and any(m.rsplit('.', 1)[-1] == case.get('promised') for m in q['mro'])))
        elif check == 'effect':
            verdicts.append(eff is not None)
        elif check == 'code':
            q = c['L' if case.get('deployment', 'L') == 'L' else 'R']['result']
            verdicts.append(not (q['kind'] == 'raise' and RPC_ERROR in q['mro'] and q.get('code') == case.get('want')))
        elif check == 'supporter':
            v = cls is not None
            if c.get('case', {}).get('variant') == 'grid_after_delete' and usable(c, ('R', 'P')):
                # end to end: the same client program against the single server and the split-Pythia deployment
                _, _, pcls, peff = native_sig(an, c, 'R', 'P')
                native[-1]['split_pythia'] = c['P'].get('result')
                native[-1]['single_server_vs_split_pythia'] = pcls
                v = pcls is not None
            verdicts.append(v)
        elif check == 'response_pythia':
            if not usable(c, ('R', 'P')):
                continue
            _, pa, pcls, peff = native_sig(an, c, 'R', 'P')
            native[-1]['split_pythia'] = c['P'].get('result')
            verdicts.append(pcls is not None or peff is not None)
        elif check == 'response':
            # the in-process caller gets the handler's result, the stub cannot serialise it
            rr = c['R']['result']
            verdicts.append(cls is not None and rr['kind'] == 'raise' and rr.get('code') == 'INTERNAL')
        else:
            verdicts.append(cls is not None and (signature is None or cls in signature))
    if not verdicts:
        return None, native
    return any(verdicts), native


def how_to_replay(case):
    if not case:
        return None
    cmd = '/venv/bin/python /verif/replay/c08_grpc.py --case %s %s' % (case['method'], ' '.join(case['state']))
    vs = [c.get('variant') for c in replay_cases_for(case, 'x') if c.get('variant')]
    if case.get('check') == 'supporter':
        return cmd + '   # and: --case Study.suggest --variant grid_after_delete --deployments L,R,P'
    if case.get('check') == 'response_pythia':
        cmd += ' --deployments R,P'
    return cmd + (('   # also with --variant ' + ' / --variant '.join(vs)) if vs else '')


def confirm_pending(chk, an, tier):
    """Replay every not-yet-known violation that has a native scenario; report it as violated (reproduced, or no native
    scenario exists) or, when the real code contradicts the model, as undecided (spurious model, DESIGN 2.5)."""
    if not PENDING:
        return
    cases, seen = [], set()
    for p in PENDING:
        if p['case'] is not None:
            if p['case'].get('check') in ('class', 'response') and 'variants' not in p['case'] and \
                    not ({'missing_trial', 'missing_study', 'bad_study_name'} & set(p['case']['state'])):
                # the outcome "ok" covers every state of the trial: called twice / on a trial that was completed before
                p['case'] = dict(p['case'], variants=['twice', 'after_complete'])
            for c in replay_cases_for(p['case'], case_id(p['case'])):
                if c['id'] not in seen:
                    seen.add(c['id'])
                    cases.append(c)
    res = None
    if cases:
        deps = ['L', 'R'] + (['P'] if any((p['case'] or {}).get('check') in ('response_pythia', 'supporter') for p in PENDING) else [])
        res, err = run_replay(cases, deps, 'violations')
        if err:
            chk.note('replay of violations unavailable: %s' % err)
            res = None
    for p in PENDING:
        reproduced, native = None, None
        if res is not None and p['case'] is not None:
            cid = case_id(p['case'])
            rs = [res['cases'].get(c['id']) for c in replay_cases_for(p['case'], cid)]
            reproduced, native = reproduces(an, p['case'], rs)
        detail = dict(p['detail'])
        if native:
            detail['native'] = native
        if reproduced is False:
            chk.obligation(p['name'], p['function'], p['backend'], report.UNDECIDED, p['t'],
                           detail=dict(detail, spurious='the path model predicts a divergence that the real code does not show',
                                       model=p['model']))
        else:
            chk.obligation(p['name'], p['function'], p['backend'], report.VIOLATED, p['t'], detail=detail, model=p['model'],
                           replay={'case': p['case'], 'native': native,
                                   'how': how_to_replay(p['case'])},
                           reproduced=reproduced)


# explicit extra scenarios of the thorough matrix: (method, replay state, variant, abstract state whose paths must contain it)
EXTRA_MATRIX = [
    ('Trial.update_metadata', ['missing_trial'], None),
    ('VizierClient.update_metadata', ['missing_trial'], 'on_trial'),
]


def replay_known_and_matrix(chk, an, tier, states_out):
    """One run of the loop-back driver: the witnesses of the known findings (quick: the flagship ones) and, in the thorough
    tier, the whole (client method x outcome) matrix.  -> (result | None, index of the matrix cases)."""
    cases, index, have = [], {}, set()

    def add(c, idx=None):
        if c['id'] not in have:
            have.add(c['id'])
            cases.append(c)
        if idx is not None:
            index[c['id']] = idx
    if tier == 'thorough':
        for mkey, st, L, R in states_out:
            case = {'method': mname(mkey), 'state': [NAMED_OTHER.get(t, t) for t in st]}
            for c in replay_cases_for(case, case_id(case)):
                add(c, (mkey, st))
        for meth, st, variant in EXTRA_MATRIX:
            c = {'id': '%s/%s%s' % (meth, '+'.join(st), '#' + variant if variant else ''), 'method': meth, 'state': st}
            if variant:
                c['variant'] = variant
            cls = meth.split('.')[0]
            mkey = ({'Study': K_STUDY, 'Trial': K_TRIAL, 'VizierClient': K_VC}[cls], meth.split('.', 1)[1])
            add(c, (mkey, ()))
        deployments = ['L', 'R', 'P', 'Lr', 'Rr']
    else:
        deployments = ['L', 'R']
    for k in KNOWN_CANDIDATES:
        if k['case'] is not None and (tier == 'thorough' or k['finding'].get('flagship')):
            for c in replay_cases_for(k['case'], case_id(k['case'])):
                add(c)
    if not cases:
        return None, index, cases
    t0 = time.time()
    res, err = run_replay(cases, deployments, tier)
    if err:
        # a driver failure or timeout is a checker error, never a violation; known findings are kept
        chk.error('C08.replay', err)
        return None, index, cases
    chk.note('loop-back replay: %d cases x %s in %.1fs.' % (len(cases), deployments, time.time() - t0))
    return res, index, cases


def compare_matrix(chk, an, res, index, cases):
    """Thorough tier: the replayed matrix as bounded stand-in, compared with the path model."""
    # 2. the matrix as bounded stand-in: the real results must lie inside the path model, and every divergence between two
    #    deployments must be covered by an obligation that is a known finding -- otherwise it is a violation (reproduced)
    known_names = {n for n, _, _ in KNOWN_USED} | {o['obligation'] for o in chk.obligations if o['result'] == report.VIOLATED}
    checked, n_div = 0, 0
    for cid, (mkey, st) in sorted(index.items()):
        c = res['cases'].get(cid)
        if not c:
            continue
        nm, sn = mname(mkey), state_name(st)
        L, R = an.paths(mkey, st, 'L'), an.paths(mkey, st, 'R')
        predL, predR = {an.norm(p.outcome) for p in L}, {an.norm(p.outcome) for p in R}

        def inside(x, pred):
            return any(x[0] == q[0] and (x[0] == 'return' or tuple(x[1:]) == tuple(q[1:])) for q in pred)
        for da, db, label in (('L', 'R', 'sql'), ('Lr', 'Rr', 'ram'), ('R', 'P', 'pythia')):
            if not usable(c, (da, db)):
                continue
            checked += 1
            la, ra, cls, eff = native_sig(an, c, da, db)
            oname = 'C08.replay.%s.%s' % (cid.replace('/', '.'), label)
            problems = []
            if label == 'pythia':
                if cls is not None or eff is not None:
                    problems.append(cls or 'effect differs between the single-server and the split-Pythia deployment')
            else:
                if cls is not None and 'C08.%s.same_exception_class.%s' % (nm, sn) not in known_names:
                    problems.append(cls)
                if eff is not None and 'C08.%s.same_effect.%s' % (nm, sn) not in known_names:
                    problems.append('effect: the study differs afterwards')
                if not problems and '#succeeded' not in cid and (not inside(la, predL) or not inside(ra, predR)):
                    f = chk.finding_for(oname)
                    if f is None:
                        chk.error('C08.crosscheck.%s.%s' % (cid, label),
                                  'the real code (local %s, remote %s) is outside the path model (local %s, remote %s)' % (
                                      la, ra, sorted(predL), sorted(predR)))
            if not problems:
                continue
            f = chk.finding_for(oname)
            if f is not None and sorted(f.get('signature', [])) == sorted(problems):
                chk.obligation(oname, nm, 'replay', report.KNOWN, 0.0, detail={'signature': problems},
                               finding=f.get('what', oname))
                continue
            n_div += 1
            chk.obligation(oname, nm, 'replay', report.VIOLATED, 0.0,
                           detail={'signature': problems, 'note': 'deployments differ on the real code; not covered by an '
                                   'obligation recorded as known finding'},
                           model=json.dumps({k: c[k].get('result') for k in c if k != 'case'}, default=str)[:3000],
                           replay={'case': c.get('case'), 'observed': {k: c[k] for k in c if k != 'case'}}, reproduced=True)
    chk.bounded_standin('C08.replay.matrix', '%d (client method x outcome) scenarios x deployments L/R/P on SQL-in-memory and '
                        'L/R on the RAM datastore; %d pairwise comparisons' % (len(cases), checked),
                        'no unexplained divergence' if not n_div else '%d unexplained divergences' % n_div,
                        detail={'deployments': res.get('deployments')})


INVENTORY = [
    'C08.Study.get_trial.same_exception_class.missing_trial',
    'C08.Study.get_trial.promised.not_found.local', 'C08.Study.get_trial.promised.not_found.remote',
    'C08.Study.from_resource_name.same_exception_class.missing_study',
    'C08.Study.from_resource_name.promised.not_found.local', 'C08.Study.from_resource_name.promised.not_found.remote',
    'C08.Study.from_owner_and_id.promised.not_found.remote',
    'C08.Study.suggest.promised.inactive_study_empty_list.local', 'C08.Study.suggest.promised.inactive_study_empty_list.remote',
    'C08.Study.suggest.same_exception_class.immutable_study',
    'C08.handle_exception.code.NotFoundError.local', 'C08.handle_exception.code.NotFoundError.remote',
    'C08.handle_exception.code.ImmutableStudyError.remote', 'C08.handle_exception.remote_terminates_rpc',
    'C08.Trial.complete.same_exception_class.immutable_study', 'C08.Trial.delete.same_effect.immutable_study',
    'C08.StopTrial.returns_declared_response', 'C08.GetTrial.returns_declared_response',
    'C08.SuggestTrials.returns_declared_response', 'C08.Suggest.returns_declared_response',
    'C08.ServicePolicySupporter.GetTrials.same_exception_class.ok',
    'C08.ServicePolicySupporter.GetTrials.same_exception_class.missing_study',
    'C08.ServicePolicySupporter.GetStudyConfig.same_exception_class.missing_study',
]


def main(tier):
    del KNOWN_USED[:]
    del KNOWN_CANDIDATES[:]
    del PENDING[:]
    chk = report.Check(PID, tier, level='proof',
                       technique='exception-class flow of the client methods over the real ASTs under the union of the local '
                                 'servicer contract and the gRPC stub contract (path pairing by decision vectors); '
                                 'loop-back gRPC replay as bounded stand-in')
    chk.trust('pyvc.excflow abstract interpreter (decision-vector DFS over the real ASTs)')
    chk.trust('gRPC status propagation (DESIGN 4.6)')
    chk.trust('DataStore contract (Appendix A; discharged in C07)')
    an = Analysis(chk)
    ob_hierarchy(chk, an)
    try:
        ok = ob_deployment(chk, an)
    except excflow.Unsupported as e:
        chk.obligation('C08.deployment_switch.local', 'create_vizier_servicer_or_stub', 'paths', report.UNDECIDED, 0.0, detail=repr(e))
        ok = False
    if ok:
        ob_handle_exception(chk, an)
        mkeys = []
        for key, cname in ((K_STUDY, 'Study'), (K_TRIAL, 'Trial'), (K_VC, 'VizierClient')):
            ci = Hierarchy.classinfo(key)
            if ci is None:
                chk.error('C08.extract.%s' % cname, 'class not found')
                continue
            for m in REQUIRED_METHODS.get(cname, []):
                if m not in ci.methods:
                    chk.error('C08.extract.%s.%s' % (cname, m), 'client method not found in the current tree')
            for m in ci.methods:
                if not m.startswith('_') and not m.endswith('.setter'):
                    mkeys.append((key, m))
        if 'create_or_load_study' in ModuleInfo.get(M_VC).funcs:
            mkeys.append((None, 'create_or_load_study'))
        states_out = []
        all_tags = set()
        for mkey in mkeys:
            try:
                all_tags |= ob_method(chk, an, mkey, states_out)
            except (excflow.Unsupported, excflow.PathLimit) as e:
                chk.obligation('C08.%s.same_exception_class.ok' % mname(mkey), mname(mkey), 'paths', report.UNDECIDED, 0.0,
                               detail='analysis gave up: %r' % (e,))
        for rpc in sorted(ModuleInfo.get(M_VS).classes['VizierServicer'].methods):
            if rpc[0].isupper():
                chk.function(M_VS, 'VizierServicer.' + rpc, role='servicer method interpreted under both contracts')
        chk.function(M_VS, 'VizierServicer._study_is_immutable', role='inlined')
        ob_returns_declared_response(chk, an, mkeys)
        ob_supporter(chk, an, states_out)
        try:
            ob_promised(chk, an)
        except (excflow.Unsupported, excflow.PathLimit) as e:
            chk.obligation('C08.promised', '-', 'paths', report.UNDECIDED, 0.0, detail='analysis gave up: %r' % (e,))
        # vacuity: the analysis must have seen the conditions everything hinges on
        for t in ('missing_study', 'missing_trial', 'immutable_study', 'immutable_trial'):
            if t not in all_tags:
                chk.error('C08.vacuity.%s' % t, 'the condition %s was never met on any path: the model of the service is vacuous' % t)
        res, index, cases = replay_known_and_matrix(chk, an, tier, states_out)
        n_known = settle_known(chk, an, tier, res)
        confirm_pending(chk, an, tier)
        if res is not None and tier != 'thorough':
            chk.bounded_standin('C08.replay.flagship', '%d known-finding witnesses on a loop-back DefaultVizierServer' % n_known,
                                'replayed', detail=sorted(c['id'] for c in cases))
        if res is not None and tier == 'thorough':
            compare_matrix(chk, an, res, index, cases)
        # assumptions
        chk.assume('gRPC: an exception escaping a servicer method surfaces at the stub as grpc.RpcError with code UNKNOWN unless '
                   'the handler set a code on its context; context.set_code(c) surfaces as grpc.RpcError with code c, also when '
                   'the handler returns normally or raises afterwards; the error raised by a stub is a subclass of grpc.RpcError')
        chk.assume('gRPC: a handler that returns None (or an object that is not the declared response message) makes the server fail to '
                   'serialise the response: the stub raises grpc.RpcError with code INTERNAL; in-process the caller gets the value')
        chk.assume('a stub method M runs VizierServicer.M of the server (DefaultVizierServer registers that class)')
        chk.assume('DataStore contract of DESIGN Appendix A (exception classes read from the docstrings of the real ABC): ' + DS_NEVER_REASON)
        chk.assume('implicit exceptions of straight-line code (IndexError, TypeError, attrs validators, protobuf errors) and '
                   'exceptions of callees outside the analysed modules (pyvizier converters, Pythia policies) are not modelled')
        chk.assume('loops with an opaque condition are unrolled at most once (the exception flow of later iterations is the same)')
        for t, why in sorted(UNREACHABLE.items()):
            if t in all_tags | an.all_tags:
                chk.assume('error condition %s assumed unreachable from the client API: %s' % (t, why))
        for t in sorted((all_tags | an.all_tags) - DIRECTABLE - set(UNREACHABLE)):
            if t.startswith('other.'):
                chk.assume('unnamed error condition %s explored both ways under every outcome (outcome "other")' % t)
        for m in sorted(an.model.unknown_ds_methods):
            chk.assume('datastore method %s is not part of the contract table: assumed not to raise' % m)
        for n in sorted(an.notes):
            chk.assume(n)
        for k in sorted(an.h.used_external):
            chk.assume('class %s (library, not in the repository) has the bases %s' % (k, an.h.external_bases[k]))
    chk.extra['paths_enumerated'] = sum(len(v) for v in an.cache.values())
    return chk.finish(min_obligations=120, inventory=INVENTORY)
