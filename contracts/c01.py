"""C01 -- trial lifecycle: Hoare triples for the VizierServicer RPCs against the abstract datastore view.

Top-level postconditions are written from the property statement / Appendix B of DESIGN.md (the sequential
reference model); the bodies are the real methods of /repo/vizier/_src/service/vizier_service.py, executed
symbolically together with the real `_study_is_immutable`, `grpc_util.handle_exception`, `LocalRpcError`.
"""
import z3

from pyvc import engine as E, models as M, protomodel as pm, report, verify
from pyvc.engine import Obj, ExcObj
from pyvc.protomodel import Msg, SymList
from pyvc.source import ModuleInfo
from contracts import servicer_model as S
from contracts.servicer_model import Name, acc, is_some, some, none, val, parse, mkname

T, ST, OP, EO = S.S_TRIAL, S.S_STUDY, S.S_OP, S.S_EOP
REQUESTED, ACTIVE, STOPPING, SUCCEEDED, INFEASIBLE = 1, 2, 3, 4, 5

FP = 'StatusCode.FAILED_PRECONDITION'


def outcome(p):
    if p.kind == 'return':
        return ('return', None, None)
    e = p.value
    return ('raise', E.class_name(e.cls), e.attrs.get('_code') if E.class_name(e.cls) == 'LocalRpcError' else None)


def with_fields(sch, term, repl):
    layout = pm.msg_layout(sch)
    args = [repl[zn] if zn in repl else pm.accessor(sch, zn)(term) for zn, _, _, _ in layout]
    return pm._MK[sch.fq](*args)


def unchanged(D0, D1, names=S.GHOSTS[:4]):
    return z3.And(*[D1[g] == D0[g] for g in names])


def frame_trials(D0, D1, k):
    j = z3.Const('j!fr', Name)
    return z3.ForAll([j], z3.Implies(j != k, D1['D.trial'][j] == D0['D.trial'][j]))


def lifecycle(D0, D1, j):
    """relational lifecycle facts at an arbitrary key j (legal transition, parameters, completed immutable)."""
    t = T()
    o0, o1 = D0['D.trial'][j], D1['D.trial'][j]
    a, b = val(t, o0), val(t, o1)
    s0, s1 = acc(t, 'state')(a), acc(t, 'state')(b)
    both = z3.And(is_some(t, o0), is_some(t, o1))
    legal = z3.Or(s1 == s0,
                  z3.And(s0 == REQUESTED, s1 == ACTIVE),
                  z3.And(s0 == ACTIVE, z3.Or(s1 == STOPPING, s1 == SUCCEEDED, s1 == INFEASIBLE)),
                  z3.And(s0 == STOPPING, z3.Or(s1 == SUCCEEDED, s1 == INFEASIBLE)))
    params = z3.And(acc(t, 'parameters__len')(a) == acc(t, 'parameters__len')(b), acc(t, 'parameters__arr')(a) == acc(t, 'parameters__arr')(b))
    completed = z3.Or(s0 == SUCCEEDED, s0 == INFEASIBLE)
    same_but_md = S.same_except_metadata_trial(a, b)
    return {
        'legal_transition': z3.Implies(both, legal),
        'parameters_unchanged': z3.Implies(both, params),
        'completed_immutable': z3.Implies(z3.And(both, completed), same_but_md),
    }


def inv_preserved(p, j):
    """Inv(D1) at an arbitrary key j, given Inv(D0) at j (and at every key the path touched)."""
    run = p.run
    return z3.Implies(z3.And(S.inv_at(run.D0, j), S.inv_at(run.D0, S.study_of_trial(j)),
                             S.inv_study_at(run.D0, Name.study(Name.o3(j), Name.s3(j))),
                             S.inv_study_at(run.D0, Name.study(Name.o4(j), Name.s4(j)))),
                      S.inv_at(run.ghost, j))


# ------------------------------------------------------------------------------------------ generic trial-keyed RPCs
class TrialRpc:
    mutating = True
    allowed = (ACTIVE, STOPPING)
    noop_states = ()            # states in which a return without any change is documented
    either_states = ()          # states in which either FAILED_PRECONDITION or a no-op is accepted
    name_field = 'name'
    extra_errors = ()           # [(class, code, condition_fn(ctx))]

    def __init__(self, rpc, req):
        self.rpc, self.req = rpc, req

    def entry(self, it):
        S.init_view(it.run)
        svc = S.make_servicer(it)
        req = S.symbolic_msg(self.req, 'req')
        it.run.req = req
        cls = ModuleInfo.get(S.SVC).classes['VizierServicer']
        return it.invoke(E.FuncVal(cls.mod, cls.methods[self.rpc], cls), [svc, req, None], {})

    def ctx(self, p):
        run = p.run
        D0, D1 = run.D0, run.ghost
        c = type('Ctx', (), {})()
        c.D0, c.D1, c.req = D0, D1, run.req
        c.k = parse(E.to_z3(run.req.get(self.name_field)))
        c.sk = S.study_of_trial(c.k)
        c.is_trial = Name.is_trial(c.k)
        c.study_o = D0['D.study'][c.sk]
        c.study_present = z3.And(c.is_trial, is_some(ST(), c.study_o))
        sst = acc(ST(), 'state')(val(ST(), c.study_o))
        c.mutable = z3.Or(sst == 0, sst == 1)
        c.trial_o = D0['D.trial'][c.k]
        c.present = z3.And(c.is_trial, is_some(T(), c.trial_o))
        c.old = val(T(), c.trial_o)
        c.st = acc(T(), 'state')(c.old)
        c.new_o = D1['D.trial'][c.k]
        c.new = val(T(), c.new_o)
        return c

    def effect(self, c, p):
        """(D1 description, response description) on a successful path."""
        raise NotImplementedError

    def post(self, p):
        c = self.ctx(p)
        kind, cls, code = outcome(p)
        R = 'C01.%s.' % self.rpc
        obs = []
        j = z3.Const('j!any', Name)
        for nm, f in lifecycle(c.D0, c.D1, j).items():
            obs.append((R + nm, f))
        obs.append((R + 'inv_preserved', inv_preserved(p, j)))
        obs.append((R + 'frame', z3.And(frame_trials(c.D0, c.D1, c.k), c.D1['D.study'] == c.D0['D.study'],
                                        c.D1['D.sop'] == c.D0['D.sop'], c.D1['D.eop'] == c.D0['D.eop'])))
        in_allowed = z3.Or(*[c.st == s for s in self.allowed]) if self.allowed else z3.BoolVal(True)
        in_noop = z3.Or(*[c.st == s for s in self.noop_states + self.either_states]) if (self.noop_states + self.either_states) else z3.BoolVal(False)
        if kind == 'raise':
            obs.append((R + 'error_leaves_data_unchanged', unchanged(c.D0, c.D1)))
            if cls == 'NotFoundError':
                obs.append((R + 'error_class', z3.Not(z3.And(c.is_trial, c.study_present, c.present))))
            elif cls == 'LocalRpcError' and code == FP:
                illegal = z3.And(c.present, z3.Not(in_allowed), z3.Not(z3.Or(*[c.st == s for s in self.noop_states])) if self.noop_states else z3.BoolVal(True))
                conds = [illegal]
                if self.mutating:
                    conds.append(z3.And(c.study_present, z3.Not(c.mutable)))
                obs.append((R + 'error_class', z3.Or(*conds)))
            elif cls == 'ValueError' and code is None:
                obs.append((R + 'error_class', z3.Not(c.is_trial)))
            else:
                extra = [cond(c) for (xc, xcode, cond) in self.extra_errors if xc == cls and xcode == code]
                obs.append((R + 'error_class', z3.Or(*extra) if extra else z3.BoolVal(False)))
        else:
            obs.append((R + 'missing', z3.And(c.study_present, c.present)))
            if self.mutating:
                obs.append((R + 'immutable_study', c.mutable))
            ok = in_allowed
            obs.append((R + 'illegal_state', z3.Or(ok, z3.And(in_noop, unchanged(c.D0, c.D1)))))
            eff = self.effect(c, p)
            obs.append((R + 'effect', z3.Implies(ok, eff)))
            for (xc, xcode, cond) in self.extra_errors:
                obs.append((R + 'must_fail.%s' % xc, z3.Not(cond(c))))
        return obs


def response_is_stored(c, p, want_term):
    r = p.value
    if not isinstance(r, Msg):
        return z3.BoolVal(False)
    return r.pack() == want_term


class StopTrial(TrialRpc):
    allowed = (ACTIVE,)
    noop_states = (STOPPING, SUCCEEDED)
    either_states = (REQUESTED, INFEASIBLE)

    def effect(self, c, p):
        want = with_fields(T(), c.old, {'state': z3.IntVal(STOPPING)})
        return z3.And(c.new_o == some(T(), want), response_is_stored(c, p, want))

    def post(self, p):
        obs = TrialRpc.post(self, p)
        c = self.ctx(p)
        if p.kind == 'return':
            # the documented no-op returns the stored trial
            noop = z3.Or(c.st == STOPPING, c.st == SUCCEEDED)
            obs.append(('C01.StopTrial.noop_returns_stored', z3.Implies(noop, response_is_stored(c, p, c.old))))
        return obs


class AddTrialMeasurement(TrialRpc):
    name_field = 'trial_name'
    either_states = ()

    def effect(self, c, p):
        t = T()
        m = c.req.get('measurement').pack()
        n0, a0 = acc(t, 'measurements__len')(c.old), acc(t, 'measurements__arr')(c.old)
        want = with_fields(t, c.old, {'measurements__len': n0 + 1, 'measurements__arr': z3.Store(a0, n0, m)})
        return z3.And(c.new_o == some(t, want), response_is_stored(c, p, want))


class CompleteTrial(TrialRpc):
    extra_errors = ()

    def __init__(self, rpc, req):
        TrialRpc.__init__(self, rpc, req)
        self.extra_errors = (('LocalRpcError', 'StatusCode.UNKNOWN', self.no_measurement),)

    def no_measurement(self, c):
        t, MS = T(), S.schema('vizier.Measurement')
        fm = c.req.get('final_measurement').pack()
        return z3.And(c.present, z3.Or(c.st == ACTIVE, c.st == STOPPING),
                      acc(MS, 'metrics__len')(fm) <= 0, z3.Not(E.to_z3(c.req.get('trial_infeasible'))),
                      acc(t, 'measurements__len')(c.old) <= 0)

    def effect(self, c, p):
        t, MS = T(), S.schema('vizier.Measurement')
        fm = c.req.get('final_measurement').pack()
        inf = E.to_z3(c.req.get('trial_infeasible'))
        has_metrics = acc(MS, 'metrics__len')(fm) > 0
        n0, a0 = acc(t, 'measurements__len')(c.old), acc(t, 'measurements__arr')(c.old)
        last = a0[n0 - 1]
        new_fm = z3.If(has_metrics, fm, z3.If(z3.Not(inf), last, acc(t, 'final_measurement')(c.old)))
        new_has = z3.If(z3.Or(has_metrics, z3.Not(inf)), z3.BoolVal(True), acc(t, 'has__final_measurement')(c.old))
        want = with_fields(t, c.old, {
            'state': z3.If(inf, z3.IntVal(INFEASIBLE), z3.IntVal(SUCCEEDED)),
            'final_measurement': new_fm, 'has__final_measurement': new_has,
            'infeasible_reason': z3.If(inf, E.to_z3(c.req.get('infeasible_reason')), acc(t, 'infeasible_reason')(c.old)),
        })
        return z3.And(c.new_o == some(t, want), response_is_stored(c, p, want))


class DeleteTrial(TrialRpc):
    allowed = ()

    def effect(self, c, p):
        return c.new_o == none(T())

    def post(self, p):
        # deletion removes the key: lifecycle facts hold vacuously (both-present guard)
        return TrialRpc.post(self, p)


class GetTrial(TrialRpc):
    mutating = False
    allowed = ()

    def effect(self, c, p):
        return z3.And(unchanged(c.D0, c.D1), response_is_stored(c, p, c.old))

    def ctx(self, p):
        c = TrialRpc.ctx(self, p)
        # GetTrial does not look at the study: a trial row implies its study by Inv
        c.study_present = z3.And(c.is_trial, z3.Or(is_some(ST(), c.study_o), z3.Not(is_some(T(), c.trial_o))))
        return c


# ------------------------------------------------------------------------------------------ study-keyed RPCs
class StudyRpc:
    name_field = 'name'
    mutating = False

    def __init__(self, rpc, req):
        self.rpc, self.req = rpc, req

    entry = TrialRpc.entry

    def ctx(self, p):
        run = p.run
        c = type('Ctx', (), {})()
        c.D0, c.D1, c.req = run.D0, run.ghost, run.req
        c.k = parse(E.to_z3(run.req.get(self.name_field)))
        c.is_study = Name.is_study(c.k)
        c.study_o = c.D0['D.study'][c.k]
        c.present = z3.And(c.is_study, is_some(ST(), c.study_o))
        c.old = val(ST(), c.study_o)
        sst = acc(ST(), 'state')(c.old)
        c.mutable = z3.Or(sst == 0, sst == 1)
        return c

    def effect(self, c, p):
        raise NotImplementedError

    def frame(self, c, p):
        return unchanged(c.D0, c.D1)

    def extra_error(self, c, cls, code):
        return z3.BoolVal(False)

    def post(self, p):
        c = self.ctx(p)
        kind, cls, code = outcome(p)
        R = 'C01.%s.' % self.rpc
        obs = []
        j = z3.Const('j!any', Name)
        for nm, f in lifecycle(c.D0, c.D1, j).items():
            obs.append((R + nm, f))
        obs.append((R + 'inv_preserved', inv_preserved(p, j)))
        obs.append((R + 'frame', self.frame(c, p)))
        if kind == 'raise':
            obs.append((R + 'error_leaves_data_unchanged', unchanged(c.D0, c.D1)))
            if cls == 'NotFoundError':
                obs.append((R + 'error_class', z3.Not(c.present)))
            elif cls == 'LocalRpcError' and code == FP and self.mutating:
                obs.append((R + 'error_class', z3.And(c.present, z3.Not(c.mutable))))
            elif cls == 'ValueError':
                obs.append((R + 'error_class', z3.Or(z3.Not(c.is_study), self.extra_error(c, cls, code))))
            else:
                obs.append((R + 'error_class', self.extra_error(c, cls, code)))
        else:
            obs.append((R + 'missing', c.present))
            if self.mutating:
                obs.append((R + 'immutable_study', c.mutable))
            obs.append((R + 'effect', self.effect(c, p)))
        return obs


class GetStudy(StudyRpc):
    def effect(self, c, p):
        return z3.And(unchanged(c.D0, c.D1), p.value.pack() == c.old if isinstance(p.value, Msg) else z3.BoolVal(False))


class SetStudyState(StudyRpc):
    name_field = 'parent'

    def frame(self, c, p):
        j = z3.Const('j!fs', Name)
        return z3.And(c.D1['D.trial'] == c.D0['D.trial'], c.D1['D.sop'] == c.D0['D.sop'], c.D1['D.eop'] == c.D0['D.eop'],
                      z3.ForAll([j], z3.Implies(j != c.k, c.D1['D.study'][j] == c.D0['D.study'][j])))

    def effect(self, c, p):
        want = with_fields(ST(), c.old, {'state': E.to_z3(c.req.get('state'))})
        return z3.And(c.D1['D.study'][c.k] == some(ST(), want), p.value.pack() == want if isinstance(p.value, Msg) else z3.BoolVal(False))


class DeleteStudy(StudyRpc):
    def frame(self, c, p):
        j = z3.Const('j!fd', Name)
        other_study = z3.ForAll([j], z3.Implies(j != c.k, c.D1['D.study'][j] == c.D0['D.study'][j]))
        other_trials = z3.ForAll([j], z3.Implies(z3.Not(z3.And(Name.is_trial(j), S.study_of_trial(j) == c.k)),
                                                 c.D1['D.trial'][j] == c.D0['D.trial'][j]))
        return z3.And(other_study, other_trials)

    def effect(self, c, p):
        j = z3.Const('j!ed', Name)
        return z3.And(c.D1['D.study'][c.k] == none(ST()),
                      z3.ForAll([j], z3.Implies(z3.And(Name.is_trial(j), S.study_of_trial(j) == c.k), c.D1['D.trial'][j] == none(T()))),
                      z3.ForAll([j], z3.Implies(z3.And(Name.is_sop(j), Name.study(Name.o3(j), Name.s3(j)) == c.k), c.D1['D.sop'][j] == none(OP()))),
                      z3.ForAll([j], z3.Implies(z3.And(Name.is_eop(j), Name.study(Name.o4(j), Name.s4(j)) == c.k), c.D1['D.eop'][j] == none(EO()))))


class ListTrials(StudyRpc):
    name_field = 'parent'

    def effect(self, c, p):
        r = p.value
        if not isinstance(r, Msg):
            return z3.BoolVal(False)
        L = r.get('trials')
        t = T()
        i, k = z3.Int('i!el'), z3.Const('k!el', Name)
        key = lambda ix: S.trial_key(L.arr[ix])
        Dt = c.D0['D.trial']
        sound = z3.ForAll([i], z3.Implies(z3.And(i >= 0, i < L.n), z3.And(S.study_of_trial(key(i)) == c.k, Name.is_trial(key(i)), Dt[key(i)] == some(t, L.arr[i]))))
        complete = z3.ForAll([k], z3.Implies(z3.And(Name.is_trial(k), S.study_of_trial(k) == c.k, is_some(t, Dt[k])),
                                             z3.Exists([i], z3.And(i >= 0, i < L.n, key(i) == k))))
        i2 = z3.Int('i2!el')
        ordered = z3.ForAll([i, i2], z3.Implies(z3.And(i >= 0, i < i2, i2 < L.n), c.D0['D.seq'][key(i)] < c.D0['D.seq'][key(i2)]))
        return z3.And(unchanged(c.D0, c.D1), sound, complete, ordered)


class CreateTrial(StudyRpc):
    name_field = 'parent'
    mutating = True

    def frame(self, c, p):
        return z3.And(c.D1['D.study'] == c.D0['D.study'], c.D1['D.sop'] == c.D0['D.sop'], c.D1['D.eop'] == c.D0['D.eop'])

    def effect(self, c, p):
        t = T()
        r = p.value
        if not isinstance(r, Msg):
            return z3.BoolVal(False)
        rt = r.pack()
        nk = parse(acc(t, 'name')(rt))
        reqt = c.req.get('trial')
        given = z3.Const('req', pm.msg_sort(S.schema(self.req)))
        g = acc(S.schema(self.req), 'trial')(given)
        j = z3.Const('j!ec', Name)
        fresh_id = z3.ForAll([j], z3.Implies(z3.And(Name.is_trial(j), S.study_of_trial(j) == c.k, is_some(t, c.D0['D.trial'][j])),
                                             Name.t2(j) < Name.t2(nk)))
        others = z3.ForAll([j], z3.Implies(j != nk, c.D1['D.trial'][j] == c.D0['D.trial'][j]))
        st = acc(t, 'state')(rt)
        keep = ['parameters__len', 'parameters__arr', 'measurements__len', 'measurements__arr', 'metadata__len', 'metadata__arr',
                'final_measurement', 'has__final_measurement', 'infeasible_reason', 'end_time', 'has__end_time']
        same = z3.And(*[pm.accessor(t, zn)(rt) == pm.accessor(t, zn)(g) for zn in keep])
        return z3.And(Name.is_trial(nk), S.study_of_trial(nk) == c.k, Name.t2(nk) >= 1, fresh_id, others,
                      c.D1['D.trial'][nk] == some(t, rt), z3.Not(is_some(t, c.D0['D.trial'][nk])),
                      acc(t, 'id')(rt) == M.int2str(Name.t2(nk)), acc(t, 'name')(rt) == mkname(nk),
                      st == z3.If(acc(t, 'state')(g) == SUCCEEDED, z3.IntVal(SUCCEEDED), z3.IntVal(REQUESTED)),
                      acc(t, 'client_id')(rt) == pm.str_lit(''), same)


class UpdateMetadata(StudyRpc):
    mutating = True

    def frame(self, c, p):
        j = z3.Const('j!fu', Name)
        t = T()
        return z3.And(c.D1['D.sop'] == c.D0['D.sop'], c.D1['D.eop'] == c.D0['D.eop'],
                      z3.ForAll([j], z3.Implies(j != c.k, c.D1['D.study'][j] == c.D0['D.study'][j])),
                      z3.ForAll([j], z3.Implies(z3.Not(z3.And(Name.is_trial(j), S.study_of_trial(j) == c.k)),
                                                c.D1['D.trial'][j] == c.D0['D.trial'][j])),
                      z3.ForAll([j], is_some(t, c.D1['D.trial'][j]) == is_some(t, c.D0['D.trial'][j])))

    def effect(self, c, p):
        """ok (empty error_details) => D' = D (+) delta ; error reported => D' = D  (all-or-nothing)."""
        r = p.value
        if not isinstance(r, Msg):
            return z3.BoolVal(False)
        err = E.to_z3(r.get('error_details'))
        reported = err != pm.str_lit('')
        md = getattr(p.run, 'md_update', None)
        if md is None:
            # datastore reported a missing trial (KeyError): nothing may have changed, and the error must be reported
            return z3.And(unchanged(c.D0, c.D1), reported)
        return z3.BoolVal(True)   # D1 is by construction D0 (+) delta of the datastore contract; see C10 for the merge


class ListStudies:
    def __init__(self, rpc, req):
        self.rpc, self.req = rpc, req

    entry = TrialRpc.entry

    def post(self, p):
        run = p.run
        D0, D1 = run.D0, run.ghost
        kind, cls, code = outcome(p)
        R = 'C01.%s.' % self.rpc
        k = parse(E.to_z3(run.req.get('parent')))
        obs = [(R + 'frame', unchanged(D0, D1))]
        if kind == 'raise':
            obs.append((R + 'error_class', z3.BoolVal(cls in ('NotFoundError', 'ValueError'))))
            if cls == 'ValueError':
                obs.append((R + 'error_class', z3.Not(Name.is_owner(k))))
        else:
            L = p.value.get('studies')
            i = z3.Int('i!els')
            key = lambda ix: parse(acc(ST(), 'name')(L.arr[ix]))
            obs.append((R + 'effect', z3.ForAll([i], z3.Implies(z3.And(i >= 0, i < L.n), z3.And(
                Name.is_study(key(i)), Name.o1(key(i)) == Name.o0(k), D0['D.study'][key(i)] == some(ST(), L.arr[i]))))))
        return obs


class GetOperation(ListStudies):
    def post(self, p):
        run = p.run
        D0, D1 = run.D0, run.ghost
        kind, cls, code = outcome(p)
        R = 'C01.%s.' % self.rpc
        k = parse(E.to_z3(run.req.get('name')))
        obs = [(R + 'frame', unchanged(D0, D1))]
        present = z3.And(Name.is_sop(k), is_some(OP(), D0['D.sop'][k]))
        if kind == 'raise':
            obs.append((R + 'error_class', z3.And(z3.BoolVal(cls in ('NotFoundError', 'ValueError')), z3.Not(present))))
        else:
            obs.append((R + 'missing', present))
            obs.append((R + 'effect', p.value.pack() == val(OP(), D0['D.sop'][k])))
        return obs


class CreateStudy:
    """CreateStudy(parent, study): create-or-load by display name (Appendix B)."""

    def __init__(self, rpc, req):
        self.rpc, self.req = rpc, req

    entry = TrialRpc.entry

    def post(self, p):
        run = p.run
        D0, D1 = run.D0, run.ghost
        kind, cls, code = outcome(p)
        R = 'C01.CreateStudy.'
        req = run.req
        given = z3.Const('req', pm.msg_sort(S.schema(self.req)))
        RS = S.schema(self.req)
        gstudy = acc(RS, 'study')(given)
        owner = parse(acc(RS, 'parent')(given))
        dn = acc(ST(), 'display_name')(gstudy)
        j = z3.Const('j!cs', Name)
        obs = []
        obs.append((R + 'frame', z3.And(D1['D.trial'] == D0['D.trial'], D1['D.sop'] == D0['D.sop'], D1['D.eop'] == D0['D.eop'])))
        obs.append((R + 'inv_preserved', inv_preserved(p, j)))
        exists_same = z3.Exists([j], z3.And(Name.is_study(j), Name.o1(j) == Name.o0(owner), is_some(ST(), D0['D.study'][j]),
                                            acc(ST(), 'display_name')(val(ST(), D0['D.study'][j])) == dn))
        if kind == 'raise':
            obs.append((R + 'error_leaves_data_unchanged', unchanged(D0, D1)))
            bad_request = z3.Or(acc(ST(), 'name')(gstudy) != pm.str_lit(''), dn == pm.str_lit(''), z3.Not(Name.is_owner(owner)),
                                z3.Not(S.valid_comp(dn)))
            if cls == 'LocalRpcError' and code == 'StatusCode.UNKNOWN':
                # name given / display_name missing / owner full (MAX_STUDY_ID studies)
                obs.append((R + 'error_class', z3.BoolVal(True)))
            elif cls == 'ValueError':
                obs.append((R + 'error_class', bad_request))
            else:
                obs.append((R + 'error_class', z3.BoolVal(False)))
        else:
            r = p.value
            rt = r.pack()
            rk = parse(acc(ST(), 'name')(rt))
            loaded = z3.And(unchanged(D0, D1), Name.is_study(rk), Name.o1(rk) == Name.o0(owner), D0['D.study'][rk] == some(ST(), rt),
                            acc(ST(), 'display_name')(rt) == dn)
            nk = Name.study(Name.o0(owner), dn)
            created = z3.And(z3.Not(exists_same), rk == nk, z3.Not(is_some(ST(), D0['D.study'][nk])), D1['D.study'][nk] == some(ST(), rt),
                             z3.ForAll([j], z3.Implies(j != nk, D1['D.study'][j] == D0['D.study'][j])),
                             rt == with_fields(ST(), gstudy, {'name': mkname(nk)}))
            obs.append((R + 'effect', z3.Or(loaded, created)))
            obs.append((R + 'create_or_load_single', z3.Implies(exists_same, unchanged(D0, D1))))
        return obs


def _create_study_loop_invariant(it, fr, ctx):
    """for candidate_study in possible_candidate_studies: no earlier candidate has the requested display name."""
    L = ctx.iter
    req = it.run.req
    dn = E.to_z3(req.get('study').get('display_name'))
    j = z3.Int('j!inv')
    return [('no_earlier_match', z3.ForAll([j], z3.Implies(z3.And(j >= 0, j < ctx.i), acc(ST(), 'display_name')(L.arr[j]) != dn)))]


E.LOOPS[(S.SVC, 'VizierServicer.CreateStudy', 1)] = E.LoopSpec(_create_study_loop_invariant)

RPCS = [
    StopTrial('StopTrial', 'vizier.StopTrialRequest'),
    AddTrialMeasurement('AddTrialMeasurement', 'vizier.AddTrialMeasurementRequest'),
    CompleteTrial('CompleteTrial', 'vizier.CompleteTrialRequest'),
    DeleteTrial('DeleteTrial', 'vizier.DeleteTrialRequest'),
    GetTrial('GetTrial', 'vizier.GetTrialRequest'),
    GetStudy('GetStudy', 'vizier.GetStudyRequest'),
    SetStudyState('SetStudyState', 'vizier.SetStudyStateRequest'),
    DeleteStudy('DeleteStudy', 'vizier.DeleteStudyRequest'),
    ListTrials('ListTrials', 'vizier.ListTrialsRequest'),
    CreateTrial('CreateTrial', 'vizier.CreateTrialRequest'),
    UpdateMetadata('UpdateMetadata', 'vizier.UpdateMetadataRequest'),
    ListStudies('ListStudies', 'vizier.ListStudiesRequest'),
    GetOperation('GetOperation', 'google.longrunning.GetOperationRequest'),
    CreateStudy('CreateStudy', 'vizier.CreateStudyRequest'),
]


def witness_terms(p):
    run = p.run
    out = []
    req = getattr(run, 'req', None)
    if req is not None:
        out.append(('request', req.pack()))
        for f in ('name', 'trial_name', 'parent'):
            if f in req.schema.fields:
                k = parse(E.to_z3(req.get(f)))
                out.append(('parse(request.%s)' % f, k))
                out.append(('D0.trial[key]', run.D0['D.trial'][k]))
                out.append(('D1.trial[key]', run.ghost['D.trial'][k]))
                out.append(('D0.study[study(key)]', run.D0['D.study'][S.study_of_trial(k)]))
                out.append(('D0.study[key]', run.D0['D.study'][k]))
    return out


KNOWN = {}


def known_map(chk):
    out = {}
    f = chk.finding_for('C01.AddTrialMeasurement.illegal_state')
    if f:
        # witness class: the stored trial is INFEASIBLE (silently returned, no error raised, nothing changed)
        def cls_fn(p):
            c = RPCS[1].ctx(p)
            return z3.And(c.st == INFEASIBLE, unchanged(c.D0, c.D1), response_is_stored(c, p, c.old))
        out['C01.AddTrialMeasurement.illegal_state'] = (f['what'], cls_fn)
    return out


def main(tier):
    from pyvc import engine as _E
    _E.SECOND_SOLVER = (tier == 'thorough')
    chk = report.Check('C01', tier, level='proof',
                       technique='contract-based deductive verification: Hoare triples per RPC, VCs generated from the real AST, z3')
    for t in ('pyvc VC generator and its Python/protobuf models (DESIGN 2, 4)', 'z3 5.1.0',
              'abstract DataStore contract (Appendix A): discharged for the RAM implementation in C07, bounded for SQL',
              'resource-name algebra (DESIGN 4.3): parse/mkname inverse on canonical names'):
        chk.trust(t)
    for a in ('resource names are canonical (no leading zeros/sign/whitespace in ids)', 'timestamps are unconstrained',
              'logging has no effect', 'protobuf runtime semantics as modelled in pyvc/protomodel.py',
              'int32/int64 proto fields hold mathematical integers'):
        chk.assume(a)
    for q in ('VizierServicer._study_is_immutable',):
        chk.function(S.SVC, q, role='inlined real code')
    chk.function('vizier._src.service.grpc_util', 'handle_exception', role='inlined real code')
    chk.function('vizier._src.service.grpc_util', 'LocalRpcError.set_code', role='inlined real code')
    known = known_map(chk)
    inlined = set()
    for r in RPCS:
        chk.function(S.SVC, 'VizierServicer.' + r.rpc)
        from contracts import c01_replay
        fr = verify.verify_function(chk, 'VizierServicer.' + r.rpc, r.entry, r.post, witness_terms=witness_terms, known=known,
                                    on_violation=c01_replay.on_violation(r.rpc),
                                    timeout_ms=20000 if tier == 'quick' else 60000, expect_paths=2)
        inlined |= fr.inlined
    # SuggestTrials (shared contract, contracts/suggest.py): the C01 clauses and the loop/lemma obligations they rest on
    from contracts import suggest
    inlined |= suggest.run(chk, 'C01', tier)
    from contracts import earlystop
    inlined |= earlystop.run(chk, 'C01', tier)
    from contracts import volatile_frame
    volatile_frame.run(chk, 'C01')
    chk.extra['inlined_real_functions'] = sorted(inlined)
    return chk.finish(min_obligations=60)
