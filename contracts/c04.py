"""C04 -- concurrent clients: lock-ownership obligations over all paths of the real RPC methods (DESIGN.md 5 C04).

The family is weak on concurrency: no proof of serial equivalence of all interleavings is attempted.  What is decided,
for all schedules at once, is OWNERSHIP: every read-modify-write of a resource class lies inside one critical
section of its designated service lock, keyed by the same study/owner (an SMT obligation on the lock key); all RPCs
agree on the lock table per resource; the acquired-while-holding relation is acyclic; every datastore method touches
its state only under the datastore lock.  With atomic datastore calls this gives mutual exclusion of conflicting
read-modify-write spans, which rules out lost updates, duplicate ids, double assignment and double creation.
"""
import ast
import json
import os
import subprocess
import time

import z3

from pyvc import engine as E, models as M, protomodel as pm, report, source
from pyvc.source import ModuleInfo
from contracts import servicer_model as S
from contracts.servicer_model import Name, parse, mkname
from contracts import c01, suggest, earlystop

DESIGNATED = {'studies': '_owner_name_to_lock', 'study': '_study_name_to_lock', 'trials': '_study_name_to_lock',
              'sops': '_operation_lock', 'eops': '_operation_lock'}
ATOMIC_MERGE = {'update_metadata'}        # a single datastore call that is itself an atomic read-modify-write


def study_key_of(k):
    """study (or owner, for the `studies` resource) a datastore key belongs to, as a Name term."""
    return z3.If(Name.is_trial(k), S.study_of_trial(k),
                 z3.If(Name.is_sop(k), Name.study(Name.o3(k), Name.s3(k)),
                       z3.If(Name.is_eop(k), Name.study(Name.o4(k), Name.s4(k)), k)))


def owner_key_of(k):
    return z3.If(Name.is_study(k), Name.owner(Name.o1(k)), k)


def spans(run):
    """[(resource, write event, [read events])] of one path."""
    evs = [e for e in run.events if e[0] == 'ds']
    out = []
    for wi, w in enumerate(evs):
        if w[2] != 'w' or w[1] in ATOMIC_MERGE:
            continue
        res = w[3]
        reads = [r for r in evs[:wi] if r[3] == res and r[2] == 'r']
        # a create after a create/update of the same resource class in one path (e.g. the trial loops of SuggestTrials)
        # depends on the earlier reads as well; blind single writes (delete_trial, delete_study) have no reads
        if reads:
            out.append((res, w, reads))
    return out


def held_over(w, reads, table):
    """lock acquisitions (table, key, id) of `table` held at the write and at every paired read (same acquisition)."""
    cands = [l for l in w[5] if l[0] == table]
    return [l for l in cands if all(any(l2[2] == l[2] for l2 in r[5]) for r in reads)]


def any_lock_over(w, reads):
    cands = [l for l in w[5] if l[0] in set(DESIGNATED.values())]
    return [l for l in cands if all(any(l2[2] == l[2] for l2 in r[5]) for r in reads)]


def key_matches(run, lock, w, res):
    """z3: the lock key (a resource-name string) names the study/owner the written key belongs to."""
    lk = parse(E.to_z3(lock[1]))
    target = owner_key_of(w[4]) if res == 'studies' else study_key_of(w[4])
    return lk == target


class Rpc:
    def __init__(self, name, entry):
        self.name, self.entry = name, entry


def all_rpcs():
    out = [Rpc(r.rpc, r.entry) for r in c01.RPCS]
    out.append(Rpc('SuggestTrials', suggest.entry))
    out.append(Rpc('CheckTrialEarlyStoppingState', earlystop.entry))
    return out


def _analyse(rpc_name_entry):
    """worker: explore one RPC, return plain-data obligation instances."""
    name, entry = rpc_name_entry
    paths = E.explore(entry)
    insts, tables, order, bad = [], {}, [], []
    for pi, p in enumerate(paths):
        if p.kind == 'unsupported':
            bad.append(p.value)
            continue
        run = p.run
        for res, w, reads in spans(run):
            held = held_over(w, reads, DESIGNATED[res])
            anyl = any_lock_over(w, reads)
            tables.setdefault(res, set()).update(l[0] for l in anyl)
            desc = '%s: %s after %s' % (res, w[1], sorted({r[1] for r in reads}))
            ok_struct = bool(held)
            smt = 'n/a'
            if held:
                v, m, dt = E.discharge(run, key_matches(run, held[0], w, res), timeout_ms=8000)
                if v == 'unknown':
                    # the key obligation is about resource-name terms only; the quantified axioms describe datastore
                    # contents (conservative, definitional) -- decide it on the quantifier-free part of the path
                    v, m, dt = E.discharge(run, key_matches(run, held[0], w, res), nax=0, timeout_ms=8000)
                smt = v
            v2 = 'n/a'
            if anyl:
                v2, m2, dt2 = E.discharge(run, key_matches(run, anyl[0], w, res), timeout_ms=8000)
            insts.append({'name': 'C04.%s.rmw_atomic.%s' % (name, res), 'pi': pi, 'desc': desc, 'designated_held': ok_struct,
                          'key': smt, 'some_lock_held': bool(anyl), 'some_key': v2,
                          'held_tables': sorted({l[0] for l in anyl}), 'path': p.describe()})
        # lock order
        for e in run.events:
            if e[0] == 'acq':
                for h in e[3]:
                    same = None
                    if h[0] == e[1]:
                        vv, mm, dd = E.discharge(run, E.to_z3(h[1]) != E.to_z3(e[2]), timeout_ms=4000)
                        same = vv
                    order.append((h[0], e[1], same))
        # exclusivity of the suggestion / early-stopping machinery
        if name in ('SuggestTrials', 'CheckTrialEarlyStoppingState'):
            for e in run.events:
                if (e[0] == 'ds' and e[3] in ('sops', 'eops')) or e[0] == 'pythia':
                    locks = e[-1]
                    held = [l for l in locks if l[0] == '_operation_lock']
                    insts.append({'name': 'C04.%s.suggest_exclusive' % name, 'pi': pi, 'desc': '%s %s' % (e[0], e[1]),
                                  'designated_held': bool(held), 'key': 'unsat' if held else 'n/a', 'some_lock_held': bool(held),
                                  'some_key': 'unsat' if held else 'n/a', 'held_tables': sorted({l[0] for l in held}), 'path': p.describe()})
    return {'rpc': name, 'insts': insts, 'tables': {k: sorted(v) for k, v in tables.items()}, 'order': order, 'unsupported': sorted(set(bad)),
            'npaths': len(paths)}


def datastore_atomic(chk, dotted, cls_name, state_attrs):
    """Every access to the datastore's shared state is lexically inside `with self._lock` (AST, all methods)."""
    m = ModuleInfo.get(dotted)
    cls = m.classes[cls_name]
    for mname, fn in cls.methods.items():
        if mname.startswith('__'):
            continue
        t0 = time.time()
        chk.function(dotted, '%s.%s' % (cls_name, mname))
        bad = []

        def visit(node, locked):
            if isinstance(node, ast.With):
                lk = locked or any(ast.unparse(i.context_expr) == 'self._lock' for i in node.items)
                for i in node.items:
                    visit(i.context_expr, locked)
                for b in node.body:
                    visit(b, lk)
                return
            if isinstance(node, ast.Attribute) and isinstance(node.value, ast.Name) and node.value.id == 'self' and node.attr in state_attrs:
                if not locked:
                    bad.append(node.lineno)
            if isinstance(node, ast.Call) and isinstance(node.func, ast.Attribute) and isinstance(node.func.value, ast.Name) \
                    and node.func.value.id == 'self' and node.func.attr in cls.methods and not node.func.attr.startswith('__'):
                # helper methods of the class must be called under the lock if they touch the state
                helper = cls.methods[node.func.attr]
                touches = any(isinstance(n, ast.Attribute) and isinstance(n.value, ast.Name) and n.value.id == 'self' and n.attr in state_attrs
                              for n in ast.walk(helper))
                if touches and not locked:
                    bad.append(node.lineno)
            for c in ast.iter_child_nodes(node):
                visit(c, locked)

        helper_only = any(isinstance(n, ast.Call) and isinstance(n.func, ast.Attribute) and n.func.attr == mname and isinstance(n.func.value, ast.Name)
                          and n.func.value.id == 'self' for f2 in cls.methods.values() for n in ast.walk(f2))
        for st in fn.body:
            visit(st, helper_only)
        name = 'C04.datastore.%s.%s.atomic' % (cls_name, mname)
        if bad:
            chk.obligation(name, '%s.%s' % (cls_name, mname), 'frame', report.VIOLATED, time.time() - t0,
                           detail={'unlocked_state_access_at_lines': bad},
                           model='access to %s outside `with self._lock` at lines %s of %s' % (state_attrs, bad, m.path))
        else:
            chk.obligation(name, '%s.%s' % (cls_name, mname), 'frame', report.PROVED, time.time() - t0)


def interleave(sc):
    here = os.path.dirname(os.path.dirname(os.path.abspath(__file__)))
    r = subprocess.run(['/venv/bin/python', os.path.join(here, 'replay', 'c04_interleave.py'), json.dumps(sc)], capture_output=True, text=True, timeout=120)
    if r.returncode != 0:
        return None
    return json.loads([l for l in r.stdout.splitlines() if l.startswith('{')][-1])


def replay_rmw(rpc, res):
    """Forced interleaving for a failed rmw_atomic obligation; returns (replay dict, reproduced?)."""
    if rpc == 'SuggestTrials' and res == 'trials':
        sc = {'backend': 'ram', 'victim': {'rpc': 'SuggestTrials', 'count': 1, 'client': 'c'}, 'park_after': ['max_trial_id', 2], 'intruder': {'rpc': 'CreateTrial'}}
        out = interleave(sc)
        if out is None:
            return {'schedule': sc}, None
        anomaly = (not out['victim'].get('ok')) or any(not o['done'] for o in out['final']['ops'].get('c', []))
        return {'schedule': sc, 'observed': {'victim': {k: v for k, v in out['victim'].items() if k != 'mro'}, 'intruder_ok': out['intruder'].get('ok'),
                                               'ops': out['final']['ops'], 'trials': [(t['id'], t['state']) for t in out['final']['trials']]},
                'anomaly': 'a call fails / leaves an unfinished operation solely because of the interleaving'}, bool(anomaly)
    if res == 'trials' and rpc in ('CompleteTrial', 'AddTrialMeasurement', 'StopTrial', 'CreateTrial'):
        if rpc == 'CreateTrial':
            sc = {'backend': 'ram', 'victim': {'rpc': 'CreateTrial'}, 'park_after': ['max_trial_id', 1], 'intruder': {'rpc': 'CreateTrial'}}
            out = interleave(sc)
            if out is None:
                return {'schedule': sc}, None
            anomaly = not out['victim'].get('ok') or not out['intruder'].get('ok') or len({t['id'] for t in out['final']['trials']}) < 2
            return {'schedule': sc, 'observed': {'victim': {k: v for k, v in out['victim'].items() if k != 'mro'},
                                                   'trials': [(t['id'], t['state']) for t in out['final']['trials']]},
                    'anomaly': 'two CreateTrial calls allocate the same id'}, bool(anomaly)
        setup = [{'rpc': 'CreateTrial'}, {'rpc': 'SuggestTrials', 'count': 1, 'client': 'c'}]
        victim = {'rpc': rpc, 'trial': 1}
        sc = {'backend': 'ram', 'setup': setup, 'victim': victim, 'park_after': ['get_trial', 1], 'intruder': {'rpc': 'AddTrialMeasurement', 'trial': 1, 'steps': 7}}
        out = interleave(sc)
        if out is None:
            return {'schedule': sc}, None
        t1 = [t for t in out['final']['trials'] if t['id'] == '1'][0]
        expected = 1 + (1 if rpc == 'AddTrialMeasurement' else 0)
        lost = out['intruder'].get('ok') and out['victim'].get('ok') and t1['n_measurements'] < expected
        return {'schedule': sc, 'observed': {'final_trial': t1, 'intruder_ok': out['intruder'].get('ok'), 'victim_ok': out['victim'].get('ok')},
                'anomaly': 'lost update: the measurement added by the intruder is overwritten'}, bool(lost)
    if res == 'study' and rpc == 'SetStudyState':
        return {'note': 'no forced-interleaving driver for SetStudyState'}, None
    return {'note': 'no forced-interleaving driver for %s/%s' % (rpc, res)}, None


def main(tier):
    import multiprocessing
    chk = report.Check('C04', tier, level='other',
                       technique='contract-based deductive verification: lock-ownership obligations over all paths of the real RPC methods (event traces + z3 for lock keys); forced-interleaving replay of refutations')
    chk.extra['explanation_scope'] = ('decides the property\'s "in particular" list (lost updates, duplicate ids, double assignment, single '
                                      'create-or-load, deadlock from the service\'s own locks) through lock ownership; serial equivalence of all '
                                      'interleavings is NOT claimed')
    for t in ('pyvc VC generator (event traces of the real methods)', 'z3 5.1.0', 'threading.Lock via `with` is an acquire/release bracket, non-reentrant',
              'each datastore call is atomic (C04.datastore.*.atomic + the datastore lock)', 'resource-name algebra (DESIGN 4.3)'):
        chk.trust(t)
    for a in ('a write is paired with every earlier read of the same resource class on the same path (conservative data dependence)',
              'update_metadata is a single atomic merge inside the datastore and generates no service-level obligation',
              'the immutability check (_study_is_immutable) before a locked section is not a read-modify-write of the trial resource: racing with SetStudyState is equivalent to the serial order (call; SetStudyState)'):
        chk.assume(a)
    rpcs = all_rpcs()
    for r in rpcs:
        chk.function(S.SVC, 'VizierServicer.' + r.name)
    global _RPCS
    _RPCS = {r.name: r.entry for r in rpcs}
    ctx = multiprocessing.get_context('fork')
    with ctx.Pool(min(12, len(rpcs))) as pool:
        outs = pool.map(_analyse_named, [r.name for r in rpcs])
    known = {f['obligation']: f for f in chk.findings if f.get('status', 'open') == 'open'}
    all_tables, order = {}, []
    for o in outs:
        if o['unsupported']:
            chk.error('C04.%s.supported' % o['rpc'], '; '.join(o['unsupported'])[:800])
        order += o['order']
        for res, ts in o['tables'].items():
            all_tables.setdefault(res, {}).setdefault(tuple(ts), []).append(o['rpc'])
        by = {}
        for i in o['insts']:
            by.setdefault(i['name'], []).append(i)
        for n, insts in by.items():
            good = [i for i in insts if i['designated_held'] and i['key'] == 'unsat']
            bad = [i for i in insts if not (i['designated_held'] and i['key'] == 'unsat')]
            fn = 'VizierServicer.' + o['rpc']
            detail = {'instances': len(insts), 'spans': sorted({i['desc'] for i in insts})[:6]}
            if not bad:
                chk.obligation(n, fn, 'paths+z3', report.PROVED, 0.0, detail=detail)
                continue
            definite = [i for i in bad if not i['designated_held'] or i['key'] == 'sat']
            if not definite:
                detail['reason'] = 'lock key agreement undecided'
                chk.obligation(n, fn, 'paths+z3', report.UNDECIDED, 0.0, detail=detail)
                continue
            res = n.rsplit('.', 1)[1] if '.rmw_atomic.' in n else None
            if n in known:
                # residual: the span is at least inside ONE critical section of a service lock keyed by the same study
                resid_ok = all(i['some_lock_held'] and i['some_key'] == 'unsat' for i in bad)
                rep, reproduced = replay_rmw(o['rpc'], res)
                if resid_ok and reproduced:
                    chk.obligation(n, fn, 'paths+z3', report.KNOWN, 0.0, detail=detail, finding=known[n]['what'])
                    chk.obligation(n + '.residual', fn, 'paths+z3', report.PROVED, 0.0,
                                   detail={'clause': 'every read-modify-write span of this resource is inside one critical section of some service lock keyed by the same study'})
                    continue
            i = definite[0]
            rep, reproduced = replay_rmw(o['rpc'], res) if res else ({}, None)
            txt = 'path: %s\nspan: %s\nlocks held over the span: %s (designated: %s)' % (i['path'], i['desc'], i['held_tables'], DESIGNATED.get(res))
            chk.obligation(n, fn, 'paths+z3', report.VIOLATED, 0.0, detail=detail, model=txt, replay=rep, reproduced=reproduced)
    # lock agreement per resource class
    for res, groups in sorted(all_tables.items()):
        n = 'C04.lock_agreement.%s' % res
        tabs = sorted({t for g in groups for t in g})
        detail = {'tables': {','.join(k): v for k, v in groups.items()}}
        if tabs == [DESIGNATED[res]]:
            chk.obligation(n, 'VizierServicer.*', 'paths', report.PROVED, 0.0, detail=detail)
        elif n in known and set(tabs) <= set(known[n].get('tables', [])):
            chk.obligation(n, 'VizierServicer.*', 'paths', report.KNOWN, 0.0, detail=detail, finding=known[n]['what'])
        else:
            chk.obligation(n, 'VizierServicer.*', 'paths', report.VIOLATED, 0.0, detail=detail,
                           model='read-modify-write spans of resource %s are protected by different lock tables: %s' % (res, detail['tables']))
    # lock order: acquired-while-holding must be acyclic, and no nested acquisition of possibly the same lock
    edges = {(a, b) for a, b, s in order}
    cyc = [e for e in edges if (e[1], e[0]) in edges and e[0] != e[1]]
    selfn = [(a, b, s) for a, b, s in order if a == b and s != 'unsat']
    if cyc or selfn:
        chk.obligation('C04.lock_order', 'VizierServicer.*', 'paths+z3', report.VIOLATED, 0.0, detail={'cycles': cyc, 'nested_same_table': selfn[:5]},
                       model='lock-order cycle / nested acquisition of a possibly identical non-reentrant lock: %s %s' % (cyc, selfn[:3]))
    else:
        chk.obligation('C04.lock_order', 'VizierServicer.*', 'paths+z3', report.PROVED, 0.0, detail={'acquired_while_holding': sorted(edges)})
    datastore_atomic(chk, 'vizier._src.service.ram_datastore', 'NestedDictRAMDataStore', {'_owners'})
    datastore_atomic(chk, 'vizier._src.service.sql_datastore', 'SQLDataStore', {'_connection'})
    return chk.finish(min_obligations=30)


_RPCS = {}


def _analyse_named(name):
    return _analyse((name, _RPCS[name]))
