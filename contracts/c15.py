"""C15 -- numeric encoding of trials is invertible and always decodes into the search space.

Functions under contract (real ASTs from $VERIF_REPO, executed by the pyvc engine; the converter instances are built by
executing the real DefaultModelInputConverter.__init__ / NumpyArraySpec.from_parameter_config /
ModelInputArrayBijector.scaler_from_spec / onehot_embedder_from_spec with *symbolic* options):

  DefaultModelInputConverter._to_parameter_value   in_domain / none_only_if / fixes_domain / raises_only_below_range  per type
  DefaultModelInputConverter.to_parameter_values    decodes_each_element (the scaler is applied *before* the clip/snap)
  DefaultModelInputConverter._convert_index / _convert_continuous + _to_parameter_value    exact round trip
  ModelInputArrayBijector.onehot_embedder_from_spec exactly one active entry, unembed(embed(i)) == i
  ModelInputArrayBijector.scaler_from_spec          LINEAR: unit interval, orientation, inverse (real arithmetic);
                                                    LOG / REVERSE_LOG: np.log applied to positive arguments only, a non-positive
                                                    bound is refused with ValueError (and nothing else is refused)
  DefaultModelOutputConverter.convert / to_metrics  sign round trip, NaN <-> None

READING OF THE PROPERTY (stated, used by the oracles):
 * "decoding any real-valued array yields parameters inside the search space": for every real (XReal: finite, +-inf, NaN)
   array element of the dtype declared by the converter's spec, `_to_parameter_value` returns None or a value inside the
   domain.  None is allowed exactly when (a) the converter was configured with converts_to_parameter=False, (b) the
   element is not finite ("NaN-free extremes" are the property's inputs; +-inf/NaN decode to None = parameter omitted),
   or (c) the element is the out-of-vocabulary index of a DISCRETE/ONEHOT spec.  `should_clip=False` is the documented
   opt-out of clipping: decode-into-domain is claimed for should_clip=True only.
 * index arrays of a DISCRETE spec are integers (the spec's documented bounds are (0, len(feasible_values))): negative
   indices follow Python's list indexing (still a member) and indices below -len raise IndexError (a refusal).
 * exact round trip for INTEGER / DISCRETE / CATEGORICAL: decode(encode(v)) == v for every feasible v, both with the
   index encoding and with the continuified encoding (real arithmetic for |fv - v|).
 * a cast to float32 (`np.asarray(..., dtype)`, NumpyArraySpec.bounds, .astype) is an uninterpreted ROUNDING function, not the
   identity (pyvc/spacekit.py r32); a cast to float64 is the identity on floats.  (Earlier revisions assumed the identity: documented accuracy
   loss of the default dtype; "to floating-point accuracy" in the property).
"""
import json
import os
import subprocess
import time

import z3

from pyvc import engine as E, models as M, protomodel as pm, report, verify, xreal, np_model as NP
from pyvc import attrs_model as A
from pyvc import spacekit as SK
from pyvc.engine import Obj, Builtin, Unsupported, EXTERNAL
from pyvc.protomodel import SymList, Str
from pyvc.source import ModuleInfo
from contracts import c16 as K

# the C16 module treats every scalar term as a plain Python scalar (an attribute the Python type lacks is an AttributeError); array
# elements are numpy scalars, which do have .item() / .astype(): the numpy-scalar hook must see the attribute first.  (The value model
# does not distinguish np.float64 from float, so `.item()` on a genuine Python float is accepted too -- stated over-approximation.)
NP._chain('value_getattr_hook', SK._cast_getattr)

CORE = 'vizier.pyvizier.converters.core'
PCM = K.PCM
TRM = K.TRM
PID = 'C15'

TYPES = ('DOUBLE', 'INTEGER', 'DISCRETE', 'CATEGORICAL')
SCALES = (None, 'LINEAR', 'LOG', 'REVERSE_LOG')
LOGDOM = 'numpy.log.domain'

ASSUMPTIONS = [
    'floats are extended reals fin(r)|+inf|-inf|nan (XReal): comparisons, clip, abs, isfinite, float()/int() are exact; inputs range over all reals, not only doubles',
    'machine arithmetic treated as mathematical (|fv - v| in the continuified decode, the LINEAR scaler, the label sign flip by *(-1))',
    SK.R32_ASSUMPTION + '; consequences stated in the obligations: with a float32 converter labels round-trip to r32(value) ("up to the documented cast"), and '
    'fixes_domain for continuified INTEGER / DISCRETE parameters is claimed for float32-representable feasible values only; the exact encode/decode round trip families run with float64',
    SK.TRANS_ASSUMPTION,
    'array elements handed to _to_parameter_value have the dtype declared by the spec: floats for CONTINUOUS specs, integers for DISCRETE / ONEHOT_EMBEDDING specs (unembed_fn ends in .astype(spec.dtype); a float index makes list indexing raise TypeError, a refusal)',
    'parameter definitions are well formed (postcondition of ParameterConfig.factory proved by C16.factory.*): non-empty name, finite ordered bounds, '
    'DISCRETE feasible values finite, strictly ascending; CATEGORICAL feasible values pairwise distinct; at least one feasible value',
    'numpy broadcasting and list comprehensions act pointwise: label obligations are stated per position of a three-entry measurement list (present metric / None measurement / metric missing)',
    'should_clip=True (the default); with the documented opt-out should_clip=False a DOUBLE decodes to the unclipped value and decode-into-domain is not claimed',
]

NOT_COVERED = [
    'vizier/pyvizier/converters/jnp_converters.py, padding.py (PaddedTrialToArrayConverter, padding schedules): JAX-traced; not under contract, nothing is claimed',
    'embedder.py ProblemAndTrialsScaler, feature_mapper.py: not under contract',
    'LOG / REVERSE_LOG scaler round trip and unit interval: transcendental floating point, bounded stand-in on the real code only',
    'DefaultModelOutputConverter for safety metrics (shifted by the threshold in both directions: by design not a round trip)',
]


def core():
    return ModuleInfo.get(CORE)


def pcm():
    return ModuleInfo.get(PCM)


def scale_member(it, name):
    return None if name is None else A.enum_member(it, pcm().classes['ScaleType'], name)


def spec_type_name(self):
    t = self.attrs['_output_spec'].attrs['type']
    return A_enum_name(t)


def A_enum_name(member):
    for k in ('_name_', 'name', '_name'):
        v = member.attrs.get(k) if isinstance(member, Obj) else None
        if isinstance(v, str):
            return v
    raise Unsupported('enum member without a concrete name: %r' % (member,))


def make_pc(it, dom, scale=None):
    run = it.run
    nm = run.fresh('pc_name', Str)
    run.assume(nm != pm.str_lit(''))
    pc = K.make_pc(it, dom, name=nm)
    pc.attrs['_scale_type'] = scale_member(it, scale)
    return pc


def np_type(name):
    return EXTERNAL['numpy.' + name]


class Opts:
    """symbolic constructor options of DefaultModelInputConverter (every combination is explored by forking)."""

    def __init__(self, run, fixed=None):
        fixed = fixed or {}
        b = lambda n: fixed[n] if n in fixed else run.fresh(n, z3.BoolSort())
        self.scale, self.onehot, self.pad_oovs, self.converts = b('scale'), b('onehot_embed'), b('pad_oovs'), b('converts_to_parameter')
        if 'max_discrete_indices' in fixed:
            self.mdi = fixed['max_discrete_indices']
        else:
            self.mdi = run.fresh('max_discrete_indices', z3.IntSort())
            run.assume(self.mdi >= 0)
        self.should_clip = fixed.get('should_clip', True)

    def kwargs(self, dtype):
        return {'float_dtype': np_type(dtype), 'max_discrete_indices': self.mdi, 'scale': self.scale, 'onehot_embed': self.onehot,
                'converts_to_parameter': self.converts, 'pad_oovs': self.pad_oovs, 'should_clip': self.should_clip}


def build_converter(it, ptype, dtype, scale=None, fixed=None, getter=None):
    """runs the REAL constructor on a symbolic well-formed parameter definition; returns (self, dom, opts)"""
    run = it.run
    run.dom = dom = K.Dom(run, ptype)
    pc = make_pc(it, dom, scale)
    run.opts = opts = Opts(run, fixed)
    SK.LOG_OBLIGATION[0] = None         # definedness of np.log is an obligation of the scaler_from_spec family only
    cls = core().classes['DefaultModelInputConverter']
    args = [pc] if getter is None else [pc, getter]
    self = it.call(cls, args, opts.kwargs(dtype))
    run.conv = self
    return self, dom, opts


def getter_spec_type(self):
    return A_enum_name(self.attrs['_getter_spec'].attrs['type'])


def fresh_array_element(run, self):
    """an arbitrary array element of the dtype declared by the converter's getter spec"""
    if getter_spec_type(self) == 'CONTINUOUS':
        return run.fresh('v', xreal.XReal)
    return run.fresh('v', z3.IntSort())


def exc_class(p):
    return E.class_name(p.value.cls) if p.kind == 'raise' else None


def refusal_obligations(p, ptype, scale, name, dtype='float64'):
    """the converter constructor raised: the property allows a configuration that cannot be handled to be REFUSED with an error --
    here exactly one such configuration exists: a scaling converter for a LOG / REVERSE_LOG parameter with a non-positive bound"""
    run = p.run
    ok = z3.BoolVal(False)
    if p.kind == 'raise' and exc_class(p) == 'ValueError' and ptype == 'DOUBLE' and scale in ('LOG', 'REVERSE_LOG'):
        # the guard sees the bounds after the spec's dtype cast: with float32 a positive bound below the float32 underflow threshold
        # casts to 0 and is refused as well (a refusal, allowed by the property)
        lo, hi = xreal.r(cast_of(dtype, run.dom.lo)), xreal.r(cast_of(dtype, run.dom.hi))
        sc = E.zbool(run.opts.scale) if getattr(run, 'opts', None) is not None else z3.BoolVal(True)
        ok = z3.And(sc, z3.Or(lo <= 0, hi <= 0))
    return [(name, ok)]


# =========================================================================================== A. _to_parameter_value
def tpv_entry(ptype, dtype, scale):
    def entry(it):
        run = it.run
        run.stage = 'init'
        self, dom, opts = build_converter(it, ptype, dtype, scale)
        run.v = fresh_array_element(run, self)
        run.stage = 'decode'
        return K.call_method(it, self, '_to_parameter_value', [run.v])
    return entry


def index_path(run):
    """the decode goes through the feasible-values index lookup (not the clip / nearest-value branch)"""
    return getter_spec_type(run.conv) != 'CONTINUOUS'


def tpv_post(ptype, dtype, scale):
    T = ptype

    def post(p):
        run = p.run
        if getattr(run, 'stage', '') != 'decode':
            return refusal_obligations(p, ptype, scale, 'C15.__init__.refuses_only_nonpositive_log_bounds.' + T, dtype)
        dom, v, opts = run.dom, run.v, run.opts
        n = dom.fv.n if dom.fv is not None else (dom.hi - dom.lo + 1 if T == 'INTEGER' else None)
        out = []
        if p.kind == 'raise':
            ok = z3.BoolVal(False)
            if index_path(run) and exc_class(p) == 'IndexError':
                ok = v < -n
            return [('C15._to_parameter_value.raises_only_below_range.' + T, ok)]
        res = p.value
        if res is None:
            allowed = [z3.Not(E.zbool(opts.converts))]
            if index_path(run):
                allowed.append(v >= n)
            else:
                allowed.append(z3.Not(xreal.is_fin(v)))
            return [('C15._to_parameter_value.in_domain.' + T, z3.BoolVal(True)),
                    ('C15._to_parameter_value.none_only_if.' + T, z3.Or(*allowed))]
        if not (isinstance(res, Obj) and E.class_name(res.cls) == 'ParameterValue'):
            return [('C15._to_parameter_value.in_domain.' + T, z3.BoolVal(False))]
        val = res.attrs['value']
        out.append(('C15._to_parameter_value.in_domain.' + T, SK.member(dom, val)))
        out.append(('C15._to_parameter_value.none_only_if.' + T, z3.BoolVal(True)))
        # decoding does not move a value that already is a point of the domain (needed for encode-decode == identity)
        if index_path(run):
            want = fv_at(dom, z3.If(v < 0, v + n, v))
            out.append(('C15._to_parameter_value.fixes_domain.' + T, same_value(val, want)))
        else:
            # with a float32 converter the feasible values are compared after the cast r32: a point of the domain is a fixed point of
            # the decode only if the feasible values are float32-representable (stated precondition; r32 is not the identity)
            pre = representable32(dom) if dtype == 'float32' else z3.BoolVal(True)
            hyp = z3.And(SK.member(dom, v), pre)
            if T == 'INTEGER' and getattr(run, 'arg_log', None):
                # proof hint (checked, then used): instantiate the minimality of np.argmin at the position of v itself
                which, a, idx, g = run.arg_log[-1]
                j0 = z3.ToInt(xreal.r(v)) - dom.lo
                out.append(('C15._to_parameter_value.fixes_domain.%s.hint_argmin_at_v' % T,
                            z3.Implies(hyp, z3.And(g(j0) == xreal.fin(z3.RealVal(0)), z3.Not(xreal.lt(g(j0), g(idx))))), 'lemma'))
            out.append(('C15._to_parameter_value.fixes_domain.' + T, z3.Implies(hyp, same_value(val, v))))
        return out
    return post


def representable32(dom):
    """every feasible value of the domain survives a cast to float32 unchanged"""
    if dom.ptype == 'INTEGER':
        return z3.And(dom.lo >= -SK.TWO24, dom.hi <= SK.TWO24)
    if dom.ptype == 'DISCRETE':
        j = z3.Int('j!rep32')
        t = xreal.r(dom.fv.arr[j])
        return z3.ForAll([j], z3.Implies(z3.And(j >= 0, j < dom.fv.n), SK.r32(t) == t), patterns=[SK.r32(t)])
    return z3.BoolVal(True)


def cast_of(dtype, v):
    """the value of v after the converter's dtype cast (float64: unchanged)"""
    if dtype != 'float32':
        return v
    return z3.If(xreal.is_fin(v), xreal.fin(SK.r32(xreal.r(v))), v)


def fv_at(dom, i):
    if dom.ptype == 'INTEGER':
        return dom.lo + i
    return dom.fv.arr[i]


def same_value(a, b):
    """Python == between two raw parameter values (numbers compare by numeric value)"""
    if SK.is_number(a) and SK.is_number(b):
        fa, ra = SK.real_of(a)
        fb, rb = SK.real_of(b)
        return z3.And(fa, fb, ra == rb)
    return E.zbool(E.eq_values(a, b))


def witness_terms(p):
    run = p.run
    out = []
    for k in ('v', 'raw', 'x', 'y'):
        t = getattr(run, k, None)
        if z3.is_expr(t):
            out.append((k, t))
    dom = getattr(run, 'dom', None)
    if dom is not None:
        for k in ('lo', 'hi'):
            if getattr(dom, k, None) is not None:
                out.append((k, getattr(dom, k)))
        if dom.fv is not None:
            out.append(('len(feasible)', dom.fv.n))
    o = getattr(run, 'opts', None)
    if o is not None:
        for k in ('scale', 'onehot', 'pad_oovs', 'converts', 'mdi'):
            t = getattr(o, k)
            if z3.is_expr(t):
                out.append((k, t))
    return out


# =========================================================================================== B. encode -> decode round trip
RAW_SORT = {'DOUBLE': xreal.XReal, 'DISCRETE': xreal.XReal, 'INTEGER': z3.IntSort(), 'CATEGORICAL': Str}


def assume_member(run, dom, raw):
    """precondition `raw` is a point of the domain (feasible-set types: with an explicit position witness)"""
    if dom.ptype in ('DISCRETE', 'CATEGORICAL'):
        run.w = run.fresh('w', z3.IntSort())
        run.assume(SK.member_at(dom, raw, run.w))
    else:
        run.assume(SK.member(dom, raw))


def rt_entry(ptype, dtype, scale):
    """convert([trial]) followed by to_parameter_values: the REAL encode and decode pipelines (getter spec, scaler,
    one-hot embedder, their inverses, clip / nearest value / index lookup) on one trial whose raw value is a point of
    the domain.  The getter is a constructor parameter of the converter: here it returns the symbolic raw value."""
    def entry(it):
        run = it.run
        run.stage = 'init'
        run.raw = run.fresh('raw', RAW_SORT[ptype])
        getter = Builtin('getter', lambda it_, args, kw: run.raw)
        self, dom, opts = build_converter(it, ptype, dtype, scale, getter=getter, fixed={'converts_to_parameter': True})
        assume_member(run, dom, run.raw)
        run.stage = 'encode'
        run.arr = K.call_method(it, self, 'convert', [[None]])
        run.stage = 'decode'
        return K.call_method(it, self, 'to_parameter_values', [run.arr])
    return entry


def onehot_row_formula(arr, row, D):
    """exactly one entry of the row is 1 and all others are 0"""
    one, zero = xreal.lit(1), xreal.lit(0)
    k0 = z3.Int('k0!oh')
    at = lambda k: arr.at(row, k)
    D = NP.zi(D)
    return z3.Exists([k0], z3.And(k0 >= 0, k0 < D, at(k0) == one,
                                  NP.QA(D, lambda k: z3.Implies(k != k0, at(k) == zero))))


def rt_post(ptype, dtype, scale):
    T = ptype
    exact = T != 'DOUBLE'

    def post(p):
        run = p.run
        stage = getattr(run, 'stage', '')
        if stage == 'init':
            return refusal_obligations(p, ptype, scale, 'C15.__init__.refuses_only_nonpositive_log_bounds.' + T, dtype)
        if p.kind == 'raise':
            return [('C15.roundtrip.no_raise.' + T, z3.BoolVal(False))]
        out = [('C15.roundtrip.no_raise.' + T, z3.BoolVal(True))]
        arr, res, opts = run.arr, p.value, run.opts
        st = spec_type_name(run.conv)
        # ---- shape of the features
        if st == 'ONEHOT_EMBEDDING' and isinstance(arr, NP.NDArray) and arr.rank == 2:
            out.append(('C15.onehot.exactly_one_active.' + T, onehot_row_formula(arr, 0, arr.shape[1])))
        if st == 'CONTINUOUS' and scale in (None, 'LINEAR') and isinstance(arr, NP.NDArray):
            x = arr.at(0, 0)
            sc = E.zbool(opts.scale)
            out.append(('C15.features.unit_interval.' + T,
                        z3.Implies(sc, z3.And(xreal.is_fin(x), xreal.r(x) >= 0, xreal.r(x) <= 1))))
        # ---- decode(encode(v)) == v
        if scale in (None, 'LINEAR'):
            name = 'C15.roundtrip.%s.%s' % ('exact' if exact else 'real_arithmetic', T)
            if T == 'INTEGER':
                # proof hints (each proved before it is used): instantiate the extremal fact of np.argmin (continuified
                # decode) / np.argmax (one-hot unembed) at the position of the raw value itself
                j0 = run.raw - run.dom.lo
                for which, a, idx, g in getattr(run, 'arg_log', []):
                    if which == 'min':
                        out.append((name + '.hint_argmin_at_raw', z3.And(g(j0) == xreal.lit(0), z3.Not(xreal.lt(g(j0), g(idx)))), 'lemma'))
                    elif a.dtype == 'float':
                        out.append((name + '.hint_argmax_at_raw', z3.And(g(j0) == xreal.lit(1), z3.Not(xreal.lt(g(idx), g(j0)))), 'lemma'))
            xs = M.try_iterate_safe(res) if hasattr(M, 'try_iterate_safe') else (res if isinstance(res, list) else None)
            if xs is None or len(xs) != 1 or xs[0] is None:
                out.append((name, z3.BoolVal(False)))
            else:
                out.append((name, same_value(SK.value_of(xs[0]), run.raw)))
        return out
    return post


# =========================================================================================== G. to_parameter_values: decode comes last
TPV_KEY = CORE + ':DefaultModelInputConverter._to_parameter_value'
decode_f = z3.Function('decode_float', xreal.XReal, pm.PyObj)
decode_i = z3.Function('decode_int', z3.IntSort(), pm.PyObj)


def _decode_contract(it, args, kw):
    """_to_parameter_value by its contract (family A proves it for every argument): an uninterpreted result"""
    v = args[1]
    t = E.to_z3(v) if not isinstance(v, float) else xreal.lit(v)
    r = decode_f(t) if t.sort() == xreal.XReal else decode_i(t)
    it.run.__dict__.setdefault('decode_calls', []).append(t)
    return r


def tpvs_entry(ptype, dtype, scale):
    def entry(it):
        run = it.run
        run.stage = 'init'
        self, dom, opts = build_converter(it, ptype, dtype, scale)
        spec = self.attrs['_output_spec']
        d = spec.attrs['num_dimensions']
        run.m = run.fresh('rows', z3.IntSort())
        run.assume(run.m >= 0)
        st = spec_type_name(self)
        run.array = NP.fresh_array(run, 'features', (run.m, d), 'int' if st == 'DISCRETE' else 'float')
        run.stage = 'decode'
        return K.call_method(it, self, 'to_parameter_values', [run.array])
    return entry


def tpvs_post(ptype, dtype, scale):
    T = ptype

    def post(p):
        run = p.run
        if getattr(run, 'stage', '') != 'decode':
            return refusal_obligations(p, ptype, scale, 'C15.__init__.refuses_only_nonpositive_log_bounds.' + T, dtype)
        if p.kind == 'raise':
            # the only refusals: a one-hot block without columns cannot occur (num_dimensions >= 1)
            return [('C15.to_parameter_values.no_raise.' + T, z3.BoolVal(False))]
        res = p.value
        out = [('C15.to_parameter_values.no_raise.' + T, z3.BoolVal(True))]
        if not isinstance(res, SymList):
            return out + [('C15.to_parameter_values.one_result_per_row.' + T, z3.BoolVal(False))]
        out.append(('C15.to_parameter_values.one_result_per_row.' + T, res.n == run.m))
        src = getattr(res, 'map_of', None)
        calls = getattr(run, 'decode_calls', [])
        j = z3.Int('j!dec')
        if src is None or len(calls) != 1:
            out.append(('C15.to_parameter_values.decode_is_last.' + T, z3.BoolVal(False)))
        else:
            dec = decode_f if src.elem == 'float' else decode_i
            out.append(('C15.to_parameter_values.decode_is_last.' + T,
                        z3.ForAll([j], z3.Implies(z3.And(j >= 0, j < res.n), res.arr[j] == dec(src.arr[j])))))
        return out
    return post


# =========================================================================================== C. one-hot embedder
def onehot_entry(dtype, arbitrary):
    """the REAL NumpyArraySpec.from_parameter_config + ModelInputArrayBijector.onehot_embedder_from_spec on a CATEGORICAL
    definition with a symbolic number of categories; embed an index column of symbolic height / unembed an arbitrary block"""
    def entry(it):
        run = it.run
        run.stage = 'init'
        run.dom = dom = K.Dom(run, 'CATEGORICAL')
        pc = make_pc(it, dom)
        run.pad = run.fresh('pad_oovs', z3.BoolSort())
        cls = core().classes['NumpyArraySpec']
        spec = K.call_method(it, cls, 'from_parameter_config', [pc, it.getattr(core().classes['NumpyArraySpecType'], 'default_factory')],
                             {'pad_oovs': run.pad})
        bij = K.call_method(it, core().classes['ModelInputArrayBijector'], 'onehot_embedder_from_spec', [spec],
                            {'dtype': np_type(dtype), 'pad_oovs': run.pad})
        run.bij = bij
        run.D = bij.attrs['output_spec'].attrs['num_dimensions']
        run.m = run.fresh('rows', z3.IntSort())
        run.assume(run.m >= 0)
        run.stage = 'run'
        if arbitrary:
            run.y = NP.fresh_array(run, 'block', (run.m, run.D), 'float')
            return it.call(bij.attrs['backward_fn'], [run.y], {})
        run.x = NP.fresh_array(run, 'idx', (run.m, 1), 'int')
        D = NP.zi(run.D)
        NP.fact(run, NP.QA(run.m, lambda i: z3.And(run.x.at(i, 0) >= 0, run.x.at(i, 0) < D)))
        run.emb = it.call(bij.attrs['forward_fn'], [run.x], {})
        return it.call(bij.attrs['backward_fn'], [run.emb], {})
    return entry


def onehot_post(dtype, arbitrary):
    def post(p):
        run = p.run
        if getattr(run, 'stage', '') != 'run':
            return [('C15.onehot.construction_no_raise', z3.BoolVal(p.kind != 'raise'))]
        if p.kind == 'raise':
            return [('C15.onehot.no_raise', z3.BoolVal(False))]
        n = run.dom.fv.n
        un = p.value
        out = [('C15.onehot.no_raise', z3.BoolVal(True)),
               ('C15.onehot.width', NP.zi(run.D) == n + z3.If(run.pad, 1, 0))]
        if not (isinstance(un, NP.NDArray) and un.rank == 1):
            return out + [('C15.onehot.unembed_range', z3.BoolVal(False))]
        # whatever the block contains, unembedding yields an in-vocabulary index per row
        out.append(('C15.onehot.unembed_range', z3.And(NP.zi(un.shape[0]) == run.m,
                                                        NP.QA(run.m, lambda i: z3.And(un.at(i) >= 0, un.at(i) < n)))))
        if arbitrary:
            return out
        emb, x = run.emb, run.x
        one, zero = xreal.lit(1), xreal.lit(0)
        D = NP.zi(run.D)
        ok_shape = isinstance(emb, NP.NDArray) and emb.rank == 2
        if not ok_shape:
            return out + [('C15.onehot.embed.exactly_one_active', z3.BoolVal(False))]
        out.append(('C15.onehot.embed.shape', z3.And(NP.zi(emb.shape[0]) == run.m, NP.zi(emb.shape[1]) == D)))
        out.append(('C15.onehot.embed.exactly_one_active',
                    NP.QA(run.m, lambda i: z3.And(emb.at(i, x.at(i, 0)) == one,
                                                  NP.QA(D, lambda k: z3.Implies(k != x.at(i, 0), emb.at(i, k) == zero))))))
        # proof hint: the extremal fact of argmax instantiated at the active column
        i0 = z3.Int('i0!oh')
        out.append(('C15.onehot.unembed_inverse',
                    z3.ForAll([i0], z3.Implies(z3.And(i0 >= 0, i0 < run.m, x.at(i0, 0) < n), un.at(i0) == x.at(i0, 0)))))
        return out
    return post


# =========================================================================================== E/F. scaler_from_spec
def scaler_entry(dtype, scale, degenerate):
    def entry(it):
        run = it.run
        run.stage = 'init'
        run.dom = dom = K.Dom(run, 'DOUBLE')
        lo, hi = xreal.r(dom.lo), xreal.r(dom.hi)
        run.assume(lo == hi if degenerate else lo < hi)
        pc = make_pc(it, dom, scale)
        SK.LOG_OBLIGATION[0] = 'C15.scaler_from_spec.log_of_positive.' + str(scale)
        spec = K.call_method(it, core().classes['NumpyArraySpec'], 'from_parameter_config',
                             [pc, it.getattr(core().classes['NumpyArraySpecType'], 'default_factory')], {'floating_dtype': np_type(dtype)})
        run.bij = bij = K.call_method(it, core().classes['ModelInputArrayBijector'], 'scaler_from_spec', [spec], {})
        if scale in ('LOG', 'REVERSE_LOG'):
            # transcendental: only the definedness of the construction is an obligation (np.log of the bounds); the
            # numeric round trip of these scalers is a bounded stand-in on the real code
            run.stage = 'built'
            return bij
        run.stage = 'run'
        SK.LOG_OBLIGATION[0] = None
        run.x, run.y, run.s = run.fresh('x', xreal.XReal), run.fresh('y', xreal.XReal), run.fresh('s', xreal.XReal)
        for t in (run.x, run.y):
            run.assume(z3.And(xreal.is_fin(t), lo <= xreal.r(t), xreal.r(t) <= hi))
        run.assume(z3.And(xreal.is_fin(run.s), xreal.r(run.s) >= 0, xreal.r(run.s) <= 1))
        f, b = bij.attrs['forward_fn'], bij.attrs['backward_fn']
        call = lambda fn, t: it.call(fn, [t], {})
        run.fx, run.fy, run.flo, run.fhi = call(f, run.x), call(f, run.y), call(f, dom.lo), call(f, dom.hi)
        run.bfx = call(b, run.fx)
        run.bs = call(b, run.s)
        run.fbs = call(f, run.bs)
        return bij
    return entry


def scaler_post(dtype, scale, degenerate):
    S = 'LINEAR' if scale is None else scale
    if degenerate:
        S += '.single_point'

    def post(p):
        run = p.run
        if getattr(run, 'stage', '') == 'init':
            # refused: allowed only for LOG / REVERSE_LOG with a non-positive bound (ValueError); never for LINEAR
            ok = z3.BoolVal(False)
            if p.kind == 'raise' and exc_class(p) == 'ValueError' and scale in ('LOG', 'REVERSE_LOG') and not degenerate:
                ok = z3.Or(xreal.r(run.dom.lo) <= 0, xreal.r(run.dom.hi) <= 0)
            return [('C15.scaler_from_spec.refuses_only_nonpositive_log_bounds.' + S, ok)]
        if getattr(run, 'stage', '') != 'run':
            return []           # LOG / REVERSE_LOG built: the obligations are the np.log domain obligations emitted on the way
        if p.kind == 'raise':
            return [('C15.scaler.no_raise.' + S, z3.BoolVal(False))]
        R, fin = xreal.r, xreal.is_fin
        lo, hi = R(run.dom.lo), R(run.dom.hi)
        fx, fy, flo, fhi, bfx, bs, fbs = [xreal.lift(t) for t in (run.fx, run.fy, run.flo, run.fhi, run.bfx, run.bs, run.fbs)]
        x, y, s = run.x, run.y, run.s
        out = [('C15.scaler.no_raise.' + S, z3.BoolVal(True)),
               ('C15.scaler.unit_interval.' + S, z3.And(fin(fx), R(fx) >= 0, R(fx) <= 1)),
               ('C15.scaler.inverse.decode_encode.' + S, z3.And(fin(bfx), R(bfx) == R(x))),
               ('C15.scaler.inverse.encode_decode.' + S, z3.And(fin(fbs), R(fbs) == R(s)))]
        if not degenerate:
            out.append(('C15.scaler.decode_into_bounds.' + S, z3.And(fin(bs), lo <= R(bs), R(bs) <= hi)))
        ob = run.bij.attrs['output_spec'].attrs['bounds']
        b0, b1 = [xreal.lift(t) for t in ob]
        if degenerate:
            out.append(('C15.scaler.output_bounds.' + S, z3.And(R(b0) <= R(flo), R(flo) <= R(b1), R(b0) >= 0, R(b1) <= 1)))
        else:
            out.append(('C15.scaler.orientation.' + S, z3.And(fin(flo), fin(fhi), R(flo) == 0, R(fhi) == 1,
                                                             z3.Implies(R(x) < R(y), R(fx) < R(fy)))))
            out.append(('C15.scaler.output_bounds.' + S, z3.And(R(b0) == 0, R(b1) == 1)))
        return out
    return post


# =========================================================================================== D. labels: convert / to_metrics
BSC = 'vizier._src.pyvizier.shared.base_study_config'


def labels_entry(dtype, goal, raise_missing):
    """REAL DefaultModelOutputConverter.__init__ / convert / to_metrics on an objective metric; the measurement list has
    three positions: the metric is present (arbitrary float value), the measurement is None, the metric is missing."""
    def entry(it):
        run = it.run
        run.stage = 'init'
        bsc = ModuleInfo.get(BSC)
        run.name = run.fresh('metric_name', Str)
        mi = it.call(bsc.classes['MetricInformation'], [run.name], {'goal': A.enum_member(it, bsc.classes['ObjectiveMetricGoal'], goal)})
        run.flip = run.fresh('flip_sign_for_minimization_metrics', z3.BoolSort())
        conv = it.call(core().classes['DefaultModelOutputConverter'], [mi],
                       {'flip_sign_for_minimization_metrics': run.flip, 'dtype': np_type(dtype), 'raise_errors_for_missing_metrics': raise_missing})
        run.oconv = conv
        trm = ModuleInfo.get(TRM)
        run.v = run.fresh('v', xreal.XReal)
        other = run.fresh('other_name', Str)
        run.assume(other != run.name)
        mk = lambda d: A.make_instance(it, trm.classes['Measurement'], metrics=d, elapsed_secs=0.0, steps=0, checkpoint_path='')
        metric = it.call(trm.classes['Metric'], [], {'value': run.v})
        d1, d3 = M.PyDict(), M.PyDict()
        d1.set(it, run.name, metric)
        d3.set(it, other, it.call(trm.classes['Metric'], [], {'value': 1.0}))
        run.ms = [mk(d1)] if raise_missing else [mk(d1), None, mk(d3)]
        run.stage = 'convert'
        run.labels = K.call_method(it, conv, 'convert', [run.ms])
        run.stage = 'to_metrics'
        run.metrics = K.call_method(it, conv, 'to_metrics', [run.labels])
        run.stage = 'info'
        return it.getattr(conv, 'metric_information')
    return entry


def labels_post(dtype, goal, raise_missing):
    G = goal

    def post(p):
        run = p.run
        stage = getattr(run, 'stage', '')
        if stage == 'init':
            return [('C15.labels.construction_no_raise', z3.BoolVal(p.kind != 'raise'))]
        if p.kind == 'raise':
            return [('C15.labels.no_raise.' + G, z3.BoolVal(False))]
        out = [('C15.labels.no_raise.' + G, z3.BoolVal(True))]
        v, flip = run.v, run.flip
        lab, mets = run.labels, run.metrics
        n = 1 if raise_missing else 3
        ok = isinstance(lab, NP.NDArray) and lab.rank == 2 and NP.conc(lab.shape[0]) == n and isinstance(mets, list) and len(mets) == n
        if not ok:
            return out + [('C15.labels.shape.' + G, z3.BoolVal(False))]
        out.append(('C15.labels.shape.' + G, NP.zi(lab.shape[1]) == 1))
        flipped = z3.And(flip, z3.BoolVal(G == 'MINIMIZE'))
        l0 = lab.at(0, 0)
        # model form: the value itself, negated iff the metric is minimised and the converter flips minimisation metrics
        cv = cast_of(dtype, v)          # labels are stored in the converter's dtype: equal up to the documented float32 cast
        out.append(('C15.labels.convert.sign.' + G, l0 == z3.If(flipped, xreal.neg(cv), cv)))
        # and back: the original value (finite values); NaN and +-inf labels are reported as None
        m0 = mets[0]
        if m0 is None:
            out.append(('C15.labels.sign_roundtrip.' + G, z3.Not(xreal.is_fin(v))))
        elif isinstance(m0, Obj) and E.class_name(m0.cls) == 'Metric':
            out.append(('C15.labels.sign_roundtrip.' + G, z3.And(xreal.is_fin(v), xreal.lift(m0.attrs['value']) == cv)))
        else:
            out.append(('C15.labels.sign_roundtrip.' + G, z3.BoolVal(False)))
        if not raise_missing:
            out.append(('C15.labels.missing_is_nan.' + G, z3.And(xreal.is_nan(lab.at(1, 0)), xreal.is_nan(lab.at(2, 0)))))
            out.append(('C15.labels.nan_is_none.' + G, z3.BoolVal(mets[1] is None and mets[2] is None)))
        # the reported MetricInformation reflects the convention of the labels (goal flipped iff the sign was flipped)
        info = p.value
        g = info.attrs.get('goal') if isinstance(info, Obj) else None
        gname = A_enum_name(g) if g is not None else None
        other = 'MAXIMIZE' if G == 'MINIMIZE' else 'MINIMIZE'
        out.append(('C15.labels.metric_information.goal.' + G,
                    z3.If(flipped, z3.BoolVal(gname == other), z3.BoolVal(gname == G))))
        return out
    return post


# =========================================================================================== replay of counter-models
REPLAY = os.path.join(report.VERIF, 'replay', 'c15_replay.py')


def run_replay(job):
    return K.run_replay(job, driver=REPLAY)


def pc_spec(m, run, scale):
    d = K.dom_spec(m, run.dom)
    d['scale'] = scale
    return d


def opts_spec(m, opts):
    ev = lambda t: (z3.is_true(m.eval(t, model_completion=True)) if z3.is_expr(t) else bool(t))
    mdi = opts.mdi
    if z3.is_expr(mdi):
        mdi = m.eval(mdi, model_completion=True).as_long()
    return {'scale': ev(opts.scale), 'onehot_embed': ev(opts.onehot), 'pad_oovs': ev(opts.pad_oovs), 'converts_to_parameter': ev(opts.converts),
            'max_discrete_indices': mdi, 'should_clip': bool(opts.should_clip)}


def replay_tpv(dtype, scale):
    def on_violation(name, p, m):
        run = p.run
        return run_replay({'kind': 'tpv', 'obligation': name, 'pc': pc_spec(m, run, scale), 'opts': opts_spec(m, run.opts), 'dtype': dtype,
                           'value': K.enc(K.model_scalar(m, run.v))})
    return on_violation


def replay_rt(dtype, scale):
    def on_violation(name, p, m):
        run = p.run
        return run_replay({'kind': 'roundtrip', 'obligation': name, 'pc': pc_spec(m, run, scale), 'opts': opts_spec(m, run.opts), 'dtype': dtype,
                           'raw': K.enc(K.model_scalar(m, run.raw))})
    return on_violation


def replay_labels(dtype, goal, raise_missing):
    def on_violation(name, p, m):
        run = p.run
        return run_replay({'kind': 'labels', 'obligation': name, 'goal': goal, 'dtype': dtype, 'raise_missing': raise_missing,
                           'flip': z3.is_true(m.eval(run.flip, model_completion=True)), 'value': K.enc(K.model_scalar(m, run.v))})
    return on_violation


def replay_scaler(dtype, scale):
    def on_violation(name, p, m):
        run = p.run
        job = {'kind': 'scaler', 'obligation': name, 'pc': pc_spec(m, run, scale), 'dtype': dtype}
        for k in ('x', 'y', 's'):
            if hasattr(run, k):
                job[k] = K.enc(K.model_scalar(m, getattr(run, k)))
        return run_replay(job)
    return on_violation


def replay_onehot(dtype, arbitrary):
    def on_violation(name, p, m):
        run = p.run
        ev = lambda t: m.eval(t, model_completion=True)
        n = ev(run.dom.fv.n).as_long()
        rows = min(max(ev(run.m).as_long(), 0), 4)
        job = {'kind': 'onehot', 'obligation': name, 'n': n, 'pad_oovs': z3.is_true(ev(run.pad)), 'dtype': dtype}
        if n > 64:
            return {'job': job, 'note': 'counter-model with %d categories: not replayed' % n}, None
        if arbitrary:
            D = n + (1 if job['pad_oovs'] else 0)
            job['block'] = [[K.enc(xreal.model_value(m, run.y.at(i, k))) for k in range(D)] for i in range(rows)]
        else:
            job['indices'] = [ev(run.x.at(i, 0)).as_long() for i in range(rows)]
        return run_replay(job)
    return on_violation


# =========================================================================================== bounded native model search (open obligations)
_SEARCH = {}
STRIP = ('C15._to_parameter_value.', 'C15.roundtrip.', 'C15.onehot.', 'C15.scaler.', 'C15.features.', 'C15.__init__.')


def native_search(kind, driver=None):
    """one run of `<driver> search <kind>` on the real code (cached): {clause key: {'job', 'output'}}"""
    driver = driver or REPLAY
    key = (driver, kind, os.environ.get('VERIF_REPO'))
    if key not in _SEARCH:
        res, verdict, err = K.collect_native(K.start_native(['search', kind], 'search_' + kind, driver=driver), timeout=300)
        _SEARCH[key] = (res or {}).get('found', {}) if res is not None else {}
    return _SEARCH[key]


def search_key(name):
    for pre in STRIP:
        if name.startswith(pre):
            k = name[len(pre):]
            if k.startswith('exact.') or k.startswith('real_arithmetic.'):
                k = 'roundtrip.' + k.split('.', 1)[1]
            return k
    return name.split('.', 1)[1] if '.' in name else name


def kind_of(fname):
    if 'convert+to_parameter_values' in fname:
        return 'roundtrip'
    if '_to_parameter_value' in fname:
        return 'tpv'
    if 'onehot' in fname:
        return 'onehot'
    if 'scaler_from_spec' in fname:
        return 'scaler'
    return None


SYNTH = {'tpv': lambda k: 'C15._to_parameter_value.' + k,
         'onehot': lambda k: 'C15.onehot.' + k,
         'scaler': lambda k: 'C15.scaler.' + k,
         'roundtrip': lambda k: ('C15.roundtrip.%s.%s' % ('real_arithmetic' if k.endswith('DOUBLE') else 'exact', k.split('.', 1)[1])) if k.startswith('roundtrip.')
         else ('C15.onehot.' + k if k.startswith('exactly_one') else 'C15.features.' + k if k.startswith('unit_interval') else 'C15.roundtrip.' + k)}


def refuter(kind, driver=None, key_fn=None):
    """DESIGN 2.5 model query, done natively: for obligations the proof query left open (solver unknown, or a counter-model that does not
    replay) a bounded family of concrete instances is run on the real code; a failing instance is a reproduced violation, none leaves the
    obligation undecided"""
    if kind is None:
        return None
    key_fn = key_fn or search_key

    def refute(open_names):
        found = native_search(kind, driver)
        out = {}
        pack = lambda hit: ('bounded native search (%s) on the real code:\n%s' % (kind, json.dumps(hit, default=repr)[:3000]),
                            {'job': hit['job'], 'native_output': hit['output'], 'cmd': '/venv/bin/python %s search %s' % (driver or REPLAY, kind)}, True)
        used = set()
        for n in open_names:
            k = key_fn(n)
            hit = found.get(k)
            if hit is not None and '.hint_' not in n:
                out[n] = pack(hit)
                used.add(k)
        # clauses the unbounded run did not get to state (the real code left the supported subset): a natively failing instance is
        # still a reproduced violation (verify_function reports these only for names it did not generate itself)
        for k, hit in found.items():
            if k not in used and kind in SYNTH:
                out.setdefault(SYNTH[kind](k), pack(hit))
        return out
    return refute


def dedupe_violations(chk):
    """one VIOLATION line per obligation name (several families may refute the same named obligation): the reproduced one wins"""
    best = {}
    for line in chk.violations:
        name = line.split('obligation=', 1)[1].split(' ')[0]
        if name not in best or (best[name].endswith('no-failing-input-found') and not line.endswith('no-failing-input-found')):
            best[name] = line
    chk.violations = list(best.values())


# =========================================================================================== families in parallel (one pool, not nested)
class Recorder:
    """stands in for the Check inside a worker process: buffers plain-data obligation records and assumptions"""

    def __init__(self):
        self.records, self.assumptions, self.extra = [], [], {}

    def obligation(self, name, function, backend, result, time_s=0.0, **kw):
        self.records.append((name, function, backend, result, time_s, json.loads(json.dumps(kw, default=str))))

    def error(self, name, detail):
        self.obligation(name, '-', 'checker', report.ERROR, 0.0, detail=detail)

    def assume(self, text):
        self.assumptions.append(text)


_PAR = {}


def _family_worker(i):
    fams, scoped, common, per_family, models = _PAR['fams'], _PAR['scoped'], _PAR['common'], _PAR['per_family'], _PAR['models']
    fname, entry, post, onv, mode = fams[i]
    rec = Recorder()
    extra_models = models(mode) if models else {}
    E.MODELS.update(extra_models)
    try:
        kw = dict(common)
        kw.update(per_family(fname, mode) if per_family else {})
        fr = verify.verify_function(scoped(rec), fname, entry, post, on_violation=onv, **kw)
    finally:
        for k in extra_models:
            E.MODELS.pop(k, None)
    return i, rec.records, rec.assumptions, sorted(fr.inlined), rec.extra


def run_families(chk, fams, scoped, common, per_family=None, models=None):
    """verify every family; one process pool of min(8, cpu_count) forked workers (never nested: verify_function runs with workers=1),
    results recorded in family order so that the evidence is deterministic"""
    import multiprocessing
    _PAR.update(fams=fams, scoped=scoped, common=common, per_family=per_family, models=models)
    n = min(8, multiprocessing.cpu_count() or 1, len(fams))
    idx = list(range(len(fams)))
    if n <= 1 or os.environ.get('VERIF_SERIAL'):
        results = [_family_worker(i) for i in idx]
    else:
        ctx = multiprocessing.get_context('fork')
        with ctx.Pool(n) as pool:
            results = pool.map(_family_worker, idx, chunksize=1)
    inlined = set()
    for i, records, assumptions, inl, extra in sorted(results, key=lambda r: r[0]):
        for k, v in extra.items():          # e.g. the second-solver tally of the thorough tier: summed over the workers
            if isinstance(v, dict):
                agg = chk.extra.setdefault(k, {})
                for kk, vv in v.items():
                    agg[kk] = agg.get(kk, 0) + vv if isinstance(vv, (int, float)) else vv
        for a in assumptions:
            chk.assume(a)
        for name, function, backend, result, time_s, kw in records:
            chk.obligation(name, function, backend, result, time_s, **kw)
        inlined |= set(inl)
    return inlined


# =========================================================================================== driver
class Scoped:
    def __init__(self, chk):
        self.chk = chk

    def obligation(self, name, function, backend, result, *a, **k):
        if not name.startswith(PID + '.'):
            name = PID + '.' + name
        if '.hint_' in name and result == report.VIOLATED:
            # a refuted proof hint is a failed proof step, not a refutation of the property: the obligation it serves decides
            result = report.UNDECIDED
            k = {'detail': {'reason': 'proof hint refuted (the hinted instance no longer holds): the main obligation decides', 'model': str(k.get('model', ''))[:400]}}
            a = a[:1]
        return self.chk.obligation(name, function, backend, result, *a, **k)

    def __getattr__(self, a):
        return getattr(self.chk, a)


FUNCTIONS = [
    (CORE, 'DefaultModelInputConverter.__init__'), (CORE, 'DefaultModelInputConverter._to_parameter_value'),
    (CORE, 'DefaultModelInputConverter.to_parameter_values'), (CORE, 'DefaultModelInputConverter.convert'),
    (CORE, 'DefaultModelInputConverter._convert_index'), (CORE, 'DefaultModelInputConverter._convert_continuous'),
    (CORE, 'NumpyArraySpec.from_parameter_config'), (CORE, 'NumpyArraySpec.__attrs_post_init__'), (CORE, 'NumpyArraySpecType.default_factory'),
    (CORE, 'ModelInputArrayBijector.scaler_from_spec'), (CORE, 'ModelInputArrayBijector.onehot_embedder_from_spec'),
    (CORE, 'ModelInputArrayBijector.identity'),
    (CORE, 'DefaultModelOutputConverter.__init__'), (CORE, 'DefaultModelOutputConverter.convert'), (CORE, 'DefaultModelOutputConverter.to_metrics'),
    (CORE, 'DefaultModelOutputConverter._should_flip_sign'), (CORE, 'DefaultModelOutputConverter.metric_information'),
    (PCM, 'ParameterConfig.continuify'), (PCM, 'ParameterConfig.feasible_values'), (PCM, 'ParameterConfig.bounds'),
    (PCM, 'ParameterConfig.num_feasible_values'), (TRM, 'ParameterValue.cast_as_internal'),
]

INVENTORY = (['C15._to_parameter_value.%s.%s' % (c, t) for c in ('in_domain', 'none_only_if', 'fixes_domain') for t in TYPES]
             + ['C15.roundtrip.exact.%s' % t for t in ('INTEGER', 'DISCRETE', 'CATEGORICAL')] + ['C15.roundtrip.real_arithmetic.DOUBLE']
             + ['C15.to_parameter_values.%s.%s' % (c, t) for c in ('one_result_per_row', 'decode_is_last') for t in TYPES]
             + ['C15.onehot.embed.exactly_one_active', 'C15.onehot.unembed_inverse', 'C15.onehot.unembed_range', 'C15.onehot.width']
             + ['C15.scaler.%s.LINEAR' % c for c in ('unit_interval', 'orientation', 'inverse.decode_encode', 'inverse.encode_decode', 'decode_into_bounds')]
             + ['C15.labels.%s.%s' % (c, g) for c in ('sign_roundtrip', 'convert.sign', 'nan_is_none', 'metric_information.goal') for g in ('MAXIMIZE', 'MINIMIZE')]
             + ['C15.scaler_from_spec.log_of_positive.LOG', 'C15.scaler_from_spec.log_of_positive.REVERSE_LOG'])

F_LOG = 'C15.scaler_from_spec.log_of_positive.LOG'
F_RLOG = 'C15.scaler_from_spec.log_of_positive.REVERSE_LOG'
F_WIDE = 'C15.standin.REVERSE_LOG.wide_range'


def log_class(scale):
    def cls_fn(p):
        lo = xreal.r(p.run.dom.lo)
        return lo == 0 if scale == 'LOG' else lo <= 0
    return cls_fn


def families(tier):
    fams = []
    T = 'DefaultModelInputConverter._to_parameter_value'
    for dt in ('float32', 'float64'):
        for pt in TYPES:
            for sc in (SCALES if pt == 'DOUBLE' else (None,)):
                fams.append((T, tpv_entry(pt, dt, sc), tpv_post(pt, dt, sc), replay_tpv(dt, sc), None))
    dt = 'float64'
    for pt in TYPES:
        for sc in ((None, 'LINEAR') if pt == 'DOUBLE' else (None,)):
            fams.append(('DefaultModelInputConverter.convert+to_parameter_values', rt_entry(pt, dt, sc), rt_post(pt, dt, sc), replay_rt(dt, sc), None))
    for pt in TYPES:
        for sc in (SCALES if pt == 'DOUBLE' else (None,)):
            fams.append(('DefaultModelInputConverter.to_parameter_values', tpvs_entry(pt, dt, sc), tpvs_post(pt, dt, sc), None, 'decode-contract'))
    for arb in (False, True):
        fams.append(('ModelInputArrayBijector.onehot_embedder_from_spec', onehot_entry(dt, arb), onehot_post(dt, arb), replay_onehot(dt, arb), None))
    for sc in SCALES:
        for deg in (False, True):
            fams.append(('ModelInputArrayBijector.scaler_from_spec', scaler_entry(dt, sc, deg), scaler_post(dt, sc, deg), replay_scaler(dt, sc), None))
    for goal in ('MAXIMIZE', 'MINIMIZE'):
        for rm in (False, True):
            for d2 in ('float32', 'float64'):
                fams.append(('DefaultModelOutputConverter.convert+to_metrics', labels_entry(d2, goal, rm), labels_post(d2, goal, rm),
                             replay_labels(d2, goal, rm), None))
    return fams


def main(tier):
    chk = report.Check(PID, tier, level='proof',
                       technique='contract-based deductive verification: the real converter constructors and encode/decode methods executed '
                                 'symbolically (pyvc) on symbolic parameter definitions, options and array elements; XReal floats; array-lists '
                                 'and arrays of symbolic extent; oracle from the property statement; z3')
    for t in A.TRUST + SK.TRUST + ['pyvc VC generator and its Python/numpy models (DESIGN 2, 4.5; pyvc/np_model.py, pyvc/spacekit.py)', 'z3 5.1.0',
                                   'symbolic parameter definitions satisfy the postcondition of ParameterConfig.factory (proved by the C16 check)']:
        chk.trust(t)
    for a in ASSUMPTIONS:
        chk.assume(a)
    for n in NOT_COVERED:
        chk.note('NOT COVERED: ' + n + '.')
    for dotted, q in FUNCTIONS:
        chk.function(dotted, q)
    # ---- native side (real code), in the background
    natives = {'findings': K.start_native(['findings'], 'c15f', driver=REPLAY),
               'np_facts': K.start_native(['np_facts'], 'c15n', driver=REPLAY),
               'standin': K.start_native(['standin_logscale', tier], 'c15s', driver=REPLAY)}
    # ---- deductive side
    known = {}
    for name, sc in ((F_LOG, 'LOG'), (F_RLOG, 'REVERSE_LOG')):
        f = chk.finding_for(name)
        if f:
            known[name] = (f['what'], log_class(sc))
    timeout = 4000 if tier == 'quick' else 60000
    only = lambda n: n.startswith(PID + '.')
    common = dict(known=known, witness_terms=witness_terms, timeout_ms=timeout, deadline_s=3600, path_timeout_ms=30000, only=only)
    inlined = run_families(chk, families(tier), Scoped, common,
                           per_family=lambda fname, mode: {'refute': refuter(kind_of(fname))},
                           models=lambda mode: {TPV_KEY: _decode_contract} if mode == 'decode-contract' else {})
    chk.extra['inlined_real_functions'] = sorted(inlined)
    if any(o['obligation'].startswith('C15.to_parameter_values.decode_is_last') for o in chk.obligations):
        chk.note('C15.to_parameter_values.* are proved against the contract of _to_parameter_value (an uninterpreted decode function); '
                 'together with C15._to_parameter_value.in_domain.* (any argument) every decoded element is None or inside the domain, '
                 'whatever the scaler / one-hot inverse computed before it.')
    # ---- native side
    res, verdict, err = K.collect_native(natives['np_facts'])
    if res is None or verdict != 'NOT-REPRODUCED':
        chk.error('C15.np_model.cross_check', 'numpy facts assumed by the model disagree with the real numpy (or the driver failed): %s %s' % (verdict, err or res))
    else:
        chk.note('numpy model facts cross-checked against the real numpy: %s' % ', '.join(res['checked']))
    res, verdict, err = K.collect_native(natives['findings'])
    # a listed finding that no longer reproduces is never an error: the deductive verdict above decides, this is a note
    if res is not None:
        chk.note('witnesses of the LOG / REVERSE_LOG lower-bound findings (%s) replayed on the real code: %s -- %s'
                 % ('open' if known else 'recorded as fixed', 'still reproduce' if verdict == 'REPRODUCED' else 'no longer reproduce', json.dumps(res)))
    else:
        chk.note('finding witness driver did not run: %s %s' % (verdict, str(err)[:200]))
    res, verdict, err = K.collect_native(natives['standin'], timeout=600)
    fw = chk.finding_for(F_WIDE)
    bound = ('grid: %s tier; lower bounds 1e-300..1e12 x ratios hi/lo in 1+1e-12..1e100 x 10 points per range x {LINEAR, LOG, REVERSE_LOG} x '
             '{float64, float32 (ratio >= 1.001, 1e-30 < lo, hi < 1e30)}; tolerance min(1e-3, 1e-6 + 4 eps (hi/lo)/ln(hi/lo)) in the scaled coordinate' % tier)
    if res is None:
        chk.error('C15.standin.logscale', 'native grid did not run: %s %s' % (verdict, err))
    else:
        if res['n_failures']:
            chk.obligation('C15.standin.scaled_roundtrip', 'DefaultModelInputConverter.convert+to_parameter_values', 'native-enumeration', report.VIOLATED, 0.0,
                           detail=res['failures'][0], model=json.dumps(res['failures'][:5]),
                           replay={'cmd': '/venv/bin/python %s standin_logscale %s' % (REPLAY, tier), 'first_failure': res['failures'][0]}, reproduced=True)
        else:
            chk.bounded_standin('scaled continuous encode -> decode on the real code (DefaultModelInputConverter(scale=True): unit interval, orientation lo->0 hi->1, '
                                'decode inside [lo, hi], round trip to floating-point accuracy) outside the recorded REVERSE_LOG wide-range class',
                                bound, 'held', detail={k: res[k] for k in ('cases', 'worst_error')})
        if res['n_known_class']:
            if fw:
                chk.obligation(F_WIDE, 'ModelInputArrayBijector.scaler_from_spec', 'native-enumeration', report.KNOWN, 0.0,
                               detail={'grid_failures_in_class': res['n_known_class'], 'examples': res['known_class_examples']}, finding=fw['what'])
            else:
                chk.obligation(F_WIDE, 'ModelInputArrayBijector.scaler_from_spec', 'native-enumeration', report.VIOLATED, 0.0,
                               detail=res['known_class_examples'][0], model=json.dumps(res['known_class_examples']),
                               replay={'cmd': '/venv/bin/python %s standin_logscale %s' % (REPLAY, tier)}, reproduced=True)
        elif fw:
            chk.note('the recorded REVERSE_LOG wide-range finding no longer shows on the grid (known_findings.d/C15.json can be marked fixed)')
    dedupe_violations(chk)
    return chk.finish(min_obligations=60, inventory=INVENTORY)
