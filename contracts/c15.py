"""C15 -- numeric encoding of trials is invertible and always decodes into the search space.

Functions under contract (real ASTs from $VERIF_REPO, executed by the pyvc engine; the converter instances are built by
executing the real DefaultModelInputConverter.__init__ / NumpyArraySpec.from_parameter_config /
ModelInputArrayBijector.scaler_from_spec / onehot_embedder_from_spec with *symbolic* options):

  DefaultModelInputConverter._to_parameter_value   in_domain / none_only_if / fixes_domain / raises_only_below_range  per type
  DefaultModelInputConverter.to_parameter_values    decodes_each_element (the scaler is applied *before* the clip/snap)
  DefaultModelInputConverter._convert_index / _convert_continuous + _to_parameter_value    exact round trip
  ModelInputArrayBijector.onehot_embedder_from_spec exactly one active entry, unembed(embed(i)) == i
  ModelInputArrayBijector.scaler_from_spec          LINEAR: unit interval, orientation, inverse (real arithmetic);
                                                    LOG / REVERSE_LOG: np.log applied to positive arguments only
  DefaultModelOutputConverter.convert / to_metrics  sign round trip, NaN <-> None

READING OF THE PROPERTY (stated, used by the oracles):
 * "decoding any real-valued array yields parameters inside the search space": for every real (XReal: finite, +-inf, NaN)
   array element of the dtype declared by the converter's spec, `_to_parameter_value` returns None or a value inside the
   domain.  None is allowed exactly when (a) the converter was configured with converts_to_parameter=False, (b) the
   element is not finite ("NaN-free extremes" are the property's inputs; +-inf/NaN decode to None = parameter omitted),
   or (c) the element is the out-of-vocabulary index of a DISCRETE/ONEHOT spec.  `should_clip=False` is the documented
   opt-out of clipping: decode-into-domain is claimed for should_clip=True only.
 * index arrays of a DISCRETE spec are integers (the spec's documented bounds are (0, len(feasible_values))): negative
   indices follow Python's list indexing (still a member) and indices below -len raise IndexError (a refusal).
 * exact round trip for INTEGER / DISCRETE / CATEGORICAL: decode(encode(v)) == v for every feasible v, both with the
   index encoding and with the continuified encoding (real arithmetic for |fv - v|).
 * the float32 cast of `np.asarray(..., dtype)` / NumpyArraySpec.bounds is treated as the identity (documented accuracy
   loss of the default dtype; "to floating-point accuracy" in the property).
"""
import json
import os
import subprocess
import time

import z3

from pyvc import engine as E, models as M, protomodel as pm, report, verify, xreal, np_model as NP
from pyvc import attrs_model as A
from pyvc import spacekit as SK
from pyvc.engine import Obj, Builtin, Unsupported, EXTERNAL
from pyvc.protomodel import SymList, Str
from pyvc.source import ModuleInfo
from contracts import c16 as K

CORE = 'vizier.pyvizier.converters.core'
PCM = K.PCM
TRM = K.TRM
PID = 'C15'

TYPES = ('DOUBLE', 'INTEGER', 'DISCRETE', 'CATEGORICAL')
SCALES = (None, 'LINEAR', 'LOG', 'REVERSE_LOG')
LOGDOM = 'numpy.log.domain'

ASSUMPTIONS = [
    'floats are extended reals fin(r)|+inf|-inf|nan (XReal): comparisons, clip, abs, isfinite, float()/int() are exact; inputs range over all reals, not only doubles',
    'machine arithmetic treated as mathematical (|fv - v| in the continuified decode, the LINEAR scaler, the label sign flip by *(-1))',
    'the dtype cast of np.asarray(..., dtype=float32) and of NumpyArraySpec.bounds is treated as the identity (the float32 default loses accuracy by design; the property says "to floating-point accuracy")',
    'array elements handed to _to_parameter_value have the dtype declared by the spec: floats for CONTINUOUS specs, integers for DISCRETE / ONEHOT_EMBEDDING specs (unembed_fn ends in .astype(spec.dtype); a float index makes list indexing raise TypeError, a refusal)',
    'parameter definitions are well formed (postcondition of ParameterConfig.factory proved by C16.factory.*): non-empty name, finite ordered bounds, '
    'DISCRETE feasible values finite, strictly ascending; CATEGORICAL feasible values pairwise distinct; at least one feasible value',
    'numpy broadcasting and list comprehensions act pointwise: label obligations are stated per position of a three-entry measurement list (present metric / None measurement / metric missing)',
    'should_clip=True (the default); with the documented opt-out should_clip=False a DOUBLE decodes to the unclipped value and decode-into-domain is not claimed',
]

NOT_COVERED = [
    'vizier/pyvizier/converters/jnp_converters.py, padding.py (PaddedTrialToArrayConverter, padding schedules): JAX-traced; not under contract, nothing is claimed',
    'embedder.py ProblemAndTrialsScaler, feature_mapper.py: not under contract',
    'LOG / REVERSE_LOG scaler round trip and unit interval: transcendental floating point, bounded stand-in on the real code only',
    'DefaultModelOutputConverter for safety metrics (shifted by the threshold in both directions: by design not a round trip)',
]


def core():
    return ModuleInfo.get(CORE)


def pcm():
    return ModuleInfo.get(PCM)


def scale_member(it, name):
    return None if name is None else A.enum_member(it, pcm().classes['ScaleType'], name)


def spec_type_name(self):
    t = self.attrs['_output_spec'].attrs['type']
    return A_enum_name(t)


def A_enum_name(member):
    for k in ('_name_', 'name', '_name'):
        v = member.attrs.get(k) if isinstance(member, Obj) else None
        if isinstance(v, str):
            return v
    raise Unsupported('enum member without a concrete name: %r' % (member,))


def make_pc(it, dom, scale=None):
    run = it.run
    nm = run.fresh('pc_name', Str)
    run.assume(nm != pm.str_lit(''))
    pc = K.make_pc(it, dom, name=nm)
    pc.attrs['_scale_type'] = scale_member(it, scale)
    return pc


def np_type(name):
    return EXTERNAL['numpy.' + name]


class Opts:
    """symbolic constructor options of DefaultModelInputConverter (every combination is explored by forking)."""

    def __init__(self, run, fixed=None):
        fixed = fixed or {}
        b = lambda n: fixed[n] if n in fixed else run.fresh(n, z3.BoolSort())
        self.scale, self.onehot, self.pad_oovs, self.converts = b('scale'), b('onehot_embed'), b('pad_oovs'), b('converts_to_parameter')
        if 'max_discrete_indices' in fixed:
            self.mdi = fixed['max_discrete_indices']
        else:
            self.mdi = run.fresh('max_discrete_indices', z3.IntSort())
            run.assume(self.mdi >= 0)
        self.should_clip = fixed.get('should_clip', True)

    def kwargs(self, dtype):
        return {'float_dtype': np_type(dtype), 'max_discrete_indices': self.mdi, 'scale': self.scale, 'onehot_embed': self.onehot,
                'converts_to_parameter': self.converts, 'pad_oovs': self.pad_oovs, 'should_clip': self.should_clip}


def build_converter(it, ptype, dtype, scale=None, fixed=None, getter=None):
    """runs the REAL constructor on a symbolic well-formed parameter definition; returns (self, dom, opts)"""
    run = it.run
    run.dom = dom = K.Dom(run, ptype)
    pc = make_pc(it, dom, scale)
    run.opts = opts = Opts(run, fixed)
    SK.LOG_OBLIGATION[0] = LOGDOM
    cls = core().classes['DefaultModelInputConverter']
    args = [pc] if getter is None else [pc, getter]
    self = it.call(cls, args, opts.kwargs(dtype))
    run.conv = self
    return self, dom, opts


def getter_spec_type(self):
    return A_enum_name(self.attrs['_getter_spec'].attrs['type'])


def fresh_array_element(run, self):
    """an arbitrary array element of the dtype declared by the converter's getter spec"""
    if getter_spec_type(self) == 'CONTINUOUS':
        return run.fresh('v', xreal.XReal)
    return run.fresh('v', z3.IntSort())


def exc_class(p):
    return E.class_name(p.value.cls) if p.kind == 'raise' else None


# =========================================================================================== A. _to_parameter_value
def tpv_entry(ptype, dtype, scale):
    def entry(it):
        run = it.run
        run.stage = 'init'
        self, dom, opts = build_converter(it, ptype, dtype, scale)
        run.v = fresh_array_element(run, self)
        run.stage = 'decode'
        return K.call_method(it, self, '_to_parameter_value', [run.v])
    return entry


def index_path(run):
    """the decode goes through the feasible-values index lookup (not the clip / nearest-value branch)"""
    return getter_spec_type(run.conv) != 'CONTINUOUS'


def tpv_post(ptype, dtype, scale):
    T = ptype

    def post(p):
        run = p.run
        if getattr(run, 'stage', '') != 'decode':
            return []                       # the constructor refused the configuration (ValueError): nothing decoded
        dom, v, opts = run.dom, run.v, run.opts
        n = dom.fv.n if dom.fv is not None else (dom.hi - dom.lo + 1 if T == 'INTEGER' else None)
        out = []
        if p.kind == 'raise':
            ok = z3.BoolVal(False)
            if index_path(run) and exc_class(p) == 'IndexError':
                ok = v < -n
            return [('C15._to_parameter_value.raises_only_below_range.' + T, ok)]
        res = p.value
        if res is None:
            allowed = [z3.Not(E.zbool(opts.converts))]
            if index_path(run):
                allowed.append(v >= n)
            else:
                allowed.append(z3.Not(xreal.is_fin(v)))
            return [('C15._to_parameter_value.in_domain.' + T, z3.BoolVal(True)),
                    ('C15._to_parameter_value.none_only_if.' + T, z3.Or(*allowed))]
        if not (isinstance(res, Obj) and E.class_name(res.cls) == 'ParameterValue'):
            return [('C15._to_parameter_value.in_domain.' + T, z3.BoolVal(False))]
        val = res.attrs['value']
        out.append(('C15._to_parameter_value.in_domain.' + T, SK.member(dom, val)))
        out.append(('C15._to_parameter_value.none_only_if.' + T, z3.BoolVal(True)))
        # decoding does not move a value that already is a point of the domain (needed for encode-decode == identity)
        if index_path(run):
            want = fv_at(dom, z3.If(v < 0, v + n, v))
            out.append(('C15._to_parameter_value.fixes_domain.' + T, same_value(val, want)))
        else:
            if T == 'INTEGER' and getattr(run, 'arg_log', None):
                # proof hint (checked, then used): instantiate the minimality of np.argmin at the position of v itself
                which, a, idx = run.arg_log[-1]
                j0 = z3.ToInt(xreal.r(v)) - dom.lo
                out.append(('C15._to_parameter_value.fixes_domain.%s.hint_argmin_at_v' % T,
                            z3.Implies(SK.member(dom, v), z3.Not(xreal.lt(a.at(j0), a.at(idx)))), 'lemma'))
            out.append(('C15._to_parameter_value.fixes_domain.' + T, z3.Implies(SK.member(dom, v), same_value(val, v))))
        return out
    return post


def fv_at(dom, i):
    if dom.ptype == 'INTEGER':
        return dom.lo + i
    return dom.fv.arr[i]


def same_value(a, b):
    """Python == between two raw parameter values (numbers compare by numeric value)"""
    if SK.is_number(a) and SK.is_number(b):
        fa, ra = SK.real_of(a)
        fb, rb = SK.real_of(b)
        return z3.And(fa, fb, ra == rb)
    return E.zbool(E.eq_values(a, b))


def witness_terms(p):
    run = p.run
    out = []
    for k in ('v', 'raw', 'x', 'y'):
        t = getattr(run, k, None)
        if z3.is_expr(t):
            out.append((k, t))
    dom = getattr(run, 'dom', None)
    if dom is not None:
        for k in ('lo', 'hi'):
            if getattr(dom, k, None) is not None:
                out.append((k, getattr(dom, k)))
        if dom.fv is not None:
            out.append(('len(feasible)', dom.fv.n))
    o = getattr(run, 'opts', None)
    if o is not None:
        for k in ('scale', 'onehot', 'pad_oovs', 'converts', 'mdi'):
            t = getattr(o, k)
            if z3.is_expr(t):
                out.append((k, t))
    return out
